"""C06 - linear RTO (and UGLA) draws are exact Gaussian draws.

Workload: posteriors with 1-3 linear-Gaussian likelihoods (matrix / sparse / function backed
models, under- and over-determined) and a Gaussian-type prior (Gaussian in every input form,
GMRF with every boundary condition / order / physical dimension, JointGaussianSqrtPrec), built
through JointDistribution conditioning, the Posterior constructors or the legacy 5-tuple, and
sampled through both sampler interfaces from several current states with the inner CGLS forced
to convergence (maxit large, tol 1e-13; cuqi.solver.CGLS.solve is watched through a recording pass-through).  UGLA: LMRF priors (all bc, 1D/2D, zero / non-zero location), several beta.
Re-use histories: the same prior / noise objects (and Posterior) used by a first sampler, then one parameter
re-assigned in place (prior mean / cov / prec / sqrtcov / sqrtprec, noise matrix, GMRF prec / mean, LMRF scale /
location), then a second sampler of either interface, reinitialize() or target re-assignment on the same sampler,
judged against the closed form for the CURRENT parameters.

Monitors: the global normal stream is scripted (vlib/rngscript.Scripted / ScriptedRNG): the
perturbation e of one step is dictated by the harness (0, unit vectors, random vectors), so the
next state is *read off* as the affine map  x(e) = xbar + B e.
Oracle: dense information-form algebra (vlib/refs/c06_lingauss.py, no cuqi):
xbar == posterior mean, B B^T == posterior covariance, x(g) == xbar + B g (affine), the same
values from a different current state (state independence), chains produced by sample() follow
the same map; the stacked operator kept by the sampler satisfies <M(x,1),y> == <x,M(y,2)> and
M(.,2) is the exact transpose of M(.,1), M^T M == posterior precision, M^T b_tild == H xbar.
UGLA: the same read-off at each current state x_k against N(.., (A^T P A + (1/b) D^T W_k D)^-1),
W_k = diag(1/sqrt((D(x_k-mu))^2 + beta)).
"""
import numpy as np
import scipy.sparse as sps
from vlib import core
from vlib.rngscript import Scripted, ScriptedRNG
from vlib.refs import stencils as S
from vlib.refs import c06_lingauss as G

PROPERTY = "C06"
RULE = ("systematic sweeps over the discrete axes (sampler interface x way of building the posterior x prior family/"
        "form/mean x noise form x model backing x number of likelihoods x GMRF/LMRF bc, order, physical dim x UGLA "
        "location/beta) plus seeded random combinations; sizes and values drawn per case; a case is non-trivial when "
        "the library built the sampler, the scripted normal stream was consumed, and the full affine map (offset and "
        "all columns of the linear part) was read off and compared with the closed-form mean and covariance from two "
        "different current states; distinct = distinct descriptors")
ASSUMPTIONS = [
    "the harness dictates numpy.random.randn/standard_normal/normal (or the rng= object); a sampler drawing its "
    "perturbation from another source would be reported as non-affine / wrong-mean rather than judged statistically",
    "GMRF priors with periodic/neumann bc are compared with the precision the class builds by construction, "
    "prec*(D^T D + sqrt(eps) I) (documented as experimental/regularised); the stencil D itself is the C20 reference",
    "sqrtcov is only exercised with symmetric or diagonal matrices (R^T R == R R^T), the non-symmetric convention is "
    "finding #18 of another property",
    "inner solver forced to convergence with maxit = 10*(rows of the stacked system)+200 and tol=1e-13 (relaxed 100x and the "
    "transition repeated when CGLS leaves through its divergence exit, see known finding); generated "
    "posteriors have precision condition number <= 1e6 (otherwise the case is regenerated / inconclusive)",
]
REQUIRED_COUNTERS = {
    "quick": {"rto_mean_checked": 150, "rto_cov_entries_checked": 4500, "rto_affine_checked": 300,
              "rto_state_independence_checked": 450, "rto_chain_draws_checked": 450,
              "stacked_adjoint_checked": 12000, "stacked_normal_matrix_checked": 170,
              "ugla_mean_checked": 100, "ugla_cov_entries_checked": 3500, "ugla_affine_checked": 200,
              "normal_draws_scripted": 5000, "cgls_solves_observed": 5000, "reuse_histories_checked": 40,
              "rto_lite_directions_checked": 60, "inputs_unchanged_checked": 150, "far_state_draws_checked": 60},
    "thorough": {"rto_mean_checked": 1300, "rto_cov_entries_checked": 60000, "rto_affine_checked": 2500,
                 "rto_state_independence_checked": 4000, "rto_chain_draws_checked": 4000,
                 "stacked_adjoint_checked": 150000, "stacked_normal_matrix_checked": 1400,
                 "ugla_mean_checked": 700, "ugla_cov_entries_checked": 25000, "ugla_affine_checked": 1400,
                 "normal_draws_scripted": 40000, "cgls_solves_observed": 40000, "reuse_histories_checked": 240,
                 "rto_lite_directions_checked": 400, "inputs_unchanged_checked": 1000, "far_state_draws_checked": 600},
}
BUDGET_S = {"quick": 240.0, "thorough": 2400.0}

FORMS = ["cov_scalar", "cov_vector", "cov_diag", "cov_full", "cov_sparse",
         "prec_scalar", "prec_vector", "prec_diag", "prec_full", "prec_sparse",
         "sqrtcov_scalar", "sqrtcov_vector", "sqrtcov_diag", "sqrtcov_symfull",
         "sqrtprec_scalar", "sqrtprec_vector", "sqrtprec_diag", "sqrtprec_full", "sqrtprec_sparse",
         "sqrtprec_triu", "sqrtprec_tril"]
SP_FORMS = [f for f in FORMS if f.startswith("sqrtprec_")]
MODELS = ["matrix", "function", "sparse"]
IFACES = ["exp", "legacy"]
BCS = ["zero", "periodic", "neumann"]
RTOL = 1e-6          # errors on the unchanged tree are <= 1e-9 relative (see report); defects of interest are O(1)
SOLVER_TOL = 1e-13   # CGLS stops at |H (x*-x_k)| <= tol |H (x*-x_0)|  =>  |x*-x_k| <= tol cond(H) |x*-x_0|
EPS = float(np.finfo(float).eps)
COND_MAX = 1e6

def _xtol(scale, cond, dist, xmax, solver_tol=None):
    """Absolute tolerance of one draw: RTOL*scale plus 100x the a-priori error bound of the inner solver
    (stopping rule relative to the initial residual, attainable accuracy eps*cond)."""
    return RTOL * scale + 100.0 * (solver_tol or SOLVER_TOL) * cond * dist + 100.0 * EPS * cond * xmax

# --------------------------------------------------------------------------- case descriptors

def _lik(r, n, model=None, noise=None, m=None):
    return {"m": m if m is not None else r.randint(1, 8), "model": model or r.choice(MODELS),
            "noise": noise or r.choice(FORMS)}

def _rto(i, iface, n, liks, prior, build="joint"):
    return {"kind": "rto", "i": i, "iface": iface, "build": build, "n": n, "liks": liks, "prior": prior}

def _gmrf_n(r, pd, order):
    if pd == 2:
        return r.choice([2, 3]) if order < 2 else 3
    lo = 4 if order == 2 else 3
    return r.randint(lo, 8)

def _random_rto(r, i, big=False):
    iface = r.choice(["exp", "legacy", "exp", "legacy", "tuple"])
    pk = r.choice(["gaussian", "gaussian", "gmrf", "joint"])
    if iface == "tuple":
        n = r.randint(2, 8)
        return {"kind": "rto", "i": i, "iface": "tuple", "build": "tuple", "n": n,
                "liks": [{"m": r.randint(1, 8), "model": r.choice(["ndarray", "matrix", "function", "sparse"]),
                          "noise": r.choice(SP_FORMS)}],
                "prior": {"kind": "gaussian", "form": r.choice(SP_FORMS), "mean": r.choice(["vector", "vector", "scalar"])}}
    if pk == "gmrf":
        pd, order = r.choice([1, 1, 2]), r.choice([0, 1, 2])
        N = _gmrf_n(r, pd, order)
        n = N ** pd
        prior = {"kind": "gmrf", "bc": r.choice(BCS), "order": order, "pd": pd, "N": N, "mean": r.choice(["vector", "zero"])}
    elif pk == "joint":
        n = r.randint(2, 8)
        prior = {"kind": "joint", "blocks": r.choice([1, 2, 3])}
    else:
        n = r.randint(2, 8)
        prior = {"kind": "gaussian", "form": r.choice(FORMS), "mean": r.choice(["vector", "vector", "scalar", "zero"])}
    k = r.choice([1, 1, 2, 3])
    liks = [_lik(r, n) for _ in range(k)]
    if pk != "joint" and r.random() < 0.3:
        prior["k"] = r.choice([-12, -10, -8, -6, -4, 0, 4, 8])
        for l in liks:
            l["k"] = r.choice([-12, -10, -8, -6, -4, 0, 4, 8])
    if pk == "gmrf" and prior["bc"] != "zero":
        # make sure the data can pin the (up to 4 dimensional) null space of the improper prior
        liks[0]["m"] = max(liks[0]["m"], 5)
    return _rto(i, iface, n, liks, prior, build=r.choice(["joint", "direct"]))

def _random_ugla(r, i):
    pd = r.choice([1, 1, 1, 2])
    N = r.randint(3, 8) if pd == 1 else r.choice([2, 3])
    return {"kind": "ugla", "i": i, "iface": r.choice(["exp", "legacy", "legacy_rng"]), "pd": pd, "N": N, "n": N ** pd,
            "bc": r.choice(BCS), "loc": r.choice(["zero", "zero", "zero_vec", "scalar", "vector"]),
            "m": r.randint(4, 9), "model": r.choice(MODELS), "noise": r.choice(FORMS),
            "beta": r.choice([1e-5, 1e-3, 1e-1]), "state": r.choice(["random", "random", "zero", "flat"])}

def cases(tier, seed):
    r = core.rng_for(seed, PROPERTY, tier)
    out = []
    reps = 1 if tier == "quick" else 6
    i = 0
    for rep in range(reps):
        # A/B: every Gaussian input form as prior and as noise, on both interfaces, both ways of building
        for f in FORMS:
            for iface in IFACES:
                n = r.randint(2, 8)
                mean = r.choice(["vector", "scalar", "zero"])
                out.append(_rto(i, iface, n, [_lik(r, n, noise=r.choice(FORMS))],
                                {"kind": "gaussian", "form": f, "mean": mean}, build=r.choice(["joint", "direct"]))); i += 1
                n = r.randint(2, 8)
                out.append(_rto(i, iface, n, [_lik(r, n, noise=f, m=r.randint(2, 8))],
                                {"kind": "gaussian", "form": r.choice(FORMS), "mean": "vector"}, build=r.choice(["joint", "direct"]))); i += 1
        # C: GMRF priors
        for bc in BCS:
            for order in (0, 1, 2):
                for pd, ifaces in ((1, IFACES), (2, [IFACES[(rep + order) % 2]])):
                    for iface in ifaces:
                        N = _gmrf_n(r, pd, order)
                        n = N ** pd
                        liks = [_lik(r, n, m=r.randint(5, 8))] + [_lik(r, n) for _ in range(r.choice([0, 0, 1]))]
                        out.append(_rto(i, iface, n, liks, {"kind": "gmrf", "bc": bc, "order": order, "pd": pd, "N": N,
                                                            "mean": r.choice(["vector", "vector", "zero"])},
                                        build=r.choice(["joint", "direct"]))); i += 1
            out.append(_rto(i, IFACES[rep % 2], 5, [_lik(r, 5, m=6)],
                            {"kind": "gmrf", "bc": bc, "order": 1, "pd": 1, "N": 5, "mean": "scalar"})); i += 1
        # D: JointGaussianSqrtPrec priors
        for blocks in (1, 2, 3):
            for iface in IFACES:
                n = r.randint(2, 7)
                out.append(_rto(i, iface, n, [_lik(r, n) for _ in range(r.choice([1, 2]))],
                                {"kind": "joint", "blocks": blocks}, build="direct")); i += 1
        # E: several likelihoods, every model backing / mixtures
        for k in (2, 3):
            for mix in (["matrix"] * 3, ["function"] * 3, ["sparse"] * 3, ["matrix", "function", "sparse"], ["function", "matrix", "function"]):
                for iface in IFACES:
                    n = r.randint(2, 8)
                    liks = [_lik(r, n, model=mix[j]) for j in range(k)]
                    out.append(_rto(i, iface, n, liks, {"kind": "gaussian", "form": r.choice(FORMS), "mean": r.choice(["vector", "scalar"])},
                                    build=r.choice(["joint", "direct"]))); i += 1
        # F: legacy 5-tuple
        for model in ("ndarray", "matrix", "function", "sparse"):
            for lf in SP_FORMS:
                n = r.randint(2, 8)
                pf = r.choice(SP_FORMS)
                mean = r.choice(["vector", "vector", "scalar"])
                out.append({"kind": "rto", "i": i, "iface": "tuple", "build": "tuple", "n": n,
                            "liks": [{"m": r.randint(1, 8), "model": model, "noise": lf}],
                            "prior": {"kind": "gaussian", "form": pf, "mean": mean}}); i += 1
        # U: UGLA sweep
        for iface in ("exp", "legacy", "legacy_rng"):
            for loc in ("zero", "zero_vec", "scalar", "vector"):
                for bc in BCS:
                    c = _random_ugla(r, i); i += 1
                    c.update({"iface": iface, "loc": loc, "bc": bc, "pd": 1, "N": c["N"] if c["pd"] == 1 else r.randint(3, 8)})
                    c["n"] = c["N"]
                    out.append(c)
        for bc in BCS:
            for loc in ("zero", "vector", "scalar"):
                c = _random_ugla(r, i); i += 1
                c.update({"iface": ("exp", "legacy", "legacy_rng")[(rep + len(out)) % 3], "loc": loc, "bc": bc, "pd": 2, "N": r.choice([2, 3])})
                c["n"] = c["N"] ** 2
                out.append(c)
        # R: re-use histories (first use, in-place re-assignment of a parameter, second use judged for the current values)
        STAGE2 = [("new_sampler", "exp", "exp"), ("new_sampler", "exp", "legacy"), ("new_sampler", "legacy", "exp"),
                  ("new_sampler", "legacy", "legacy"), ("reinitialize", "exp", "exp"), ("retarget", "exp", "exp")]
        def _reuse(i, k, sampler, mutate, **kw):
            st, i1, i2 = STAGE2[k % len(STAGE2)]
            post2 = "same" if st == "reinitialize" else ("same", "rebuilt")[(k // len(STAGE2) + k) % 2]
            return {"kind": "reuse", "i": i, "sampler": sampler, "mutate": mutate, "stage2": st, "iface1": i1, "iface2": i2, "post2": post2, **kw}
        k = rep
        for f in FORMS:
            for mutate in ("prior_matrix", "noise_matrix", "prior_mean"):
                if mutate == "prior_mean" and FORMS.index(f) % 3 != rep % 3:
                    continue
                n = r.randint(2, 7)
                nl = r.choice([1, 1, 2])
                liks = [_lik(r, n, m=r.randint(2, 7)) for _ in range(nl)]
                prior = {"kind": "gaussian", "form": f if mutate != "noise_matrix" else r.choice(FORMS), "mean": r.choice(["vector", "vector", "scalar"])}
                if mutate == "noise_matrix":
                    liks[-1]["noise"] = f
                out.append(_reuse(i, k, "rto", mutate, n=n, liks=liks, prior=prior)); i += 1; k += 1
        for f in ("cov_scalar", "cov_vector", "cov_diag", "cov_full", "cov_sparse"):   # cov-specified priors once more per stage-2 flavour
            for kk in range(len(STAGE2)):
                n = r.randint(2, 7)
                out.append(_reuse(i, kk, "rto", "prior_matrix", n=n, liks=[_lik(r, n, m=r.randint(2, 7))],
                                  prior={"kind": "gaussian", "form": f, "mean": r.choice(["vector", "scalar"])})); i += 1
        for kk in range(len(STAGE2)):
            for mi, mutate in enumerate(("prior_matrix", "prior_mean", "noise_matrix")):
                bc = BCS[(kk + mi + rep) % 3]; k = kk
                order, pd = r.choice([0, 1, 2]), r.choice([1, 1, 2])
                N = _gmrf_n(r, pd, order)
                out.append(_reuse(i, k, "rto", mutate, n=N ** pd, liks=[_lik(r, N ** pd, m=r.randint(5, 8))],
                                  prior={"kind": "gmrf", "bc": bc, "order": order, "pd": pd, "N": N, "mean": "vector"})); i += 1; k += 1
        for kk in range(len(STAGE2)):
            for mi, mutate in enumerate(("lmrf_scale", "lmrf_location", "noise_matrix")):
                bc = BCS[(kk + mi + rep) % 3]; k = kk
                pd = r.choice([1, 1, 2]); N = r.randint(3, 7) if pd == 1 else r.choice([2, 3])
                out.append(_reuse(i, k, "ugla", mutate, pd=pd, N=N, n=N ** pd, bc=bc, loc=("scalar" if mutate == "lmrf_location" else r.choice(["zero", "scalar"])),
                                  m=r.randint(4, 9), model=r.choice(MODELS), noise=r.choice(FORMS), beta=r.choice([1e-5, 1e-3, 1e-1]))); i += 1; k += 1
        # S: scale axis - overall variance scale 10^k of prior and noise in every matrix form (strong correlations),
        #    operator and data scaled so that the posterior stays well conditioned
        KS = [-18, -12, -10, -8, -6, -4, 0, 4, 8, 18]     # +-18: entries of the sqrt forms reach 1e-9 as well
        MATF = [f for f in FORMS if f.split("_")[1] in ("full", "symfull", "sparse", "triu", "tril", "diag")]
        sforms = MATF if tier == "quick" else FORMS
        # unknowns of size >= 1/tol make cuqi.solver.CGLS leave at once (exit |x|*tol >= 1, see the known finding):
        # outside the premise "solver run to convergence", so prior scales stop at 10^8 (noise scales do not)
        KP = [kk for kk in KS if kk <= 8]
        for fi, f in enumerate(sforms):
            for ki, kk in enumerate(KS):
                for side in ("prior", "noise"):
                    n = r.randint(2, 7)
                    iface = IFACES[(fi + ki + rep + (side == "noise")) % 2]
                    ko = r.choice(KP if side == "noise" else KS)
                    liks = [_lik(r, n, noise=(f if side == "noise" else r.choice(FORMS)), m=r.randint(2, 7))]
                    liks[0]["k"] = kk if side == "noise" else ko
                    if r.random() < 0.25:
                        liks.append({**_lik(r, n, m=r.randint(2, 6)), "k": r.choice(KS)})
                    prior = {"kind": "gaussian", "form": (f if side == "prior" else r.choice(FORMS)), "mean": r.choice(["vector", "vector", "scalar", "zero"]),
                             "k": min(kk, 8) if side == "prior" else ko}
                    out.append(_rto(i, iface, n, liks, prior, build=r.choice(["joint", "direct"]))); i += 1
        for bc in BCS:
            for kk in KP:
                order = r.choice([0, 1, 2]); N = _gmrf_n(r, 1, order)
                out.append(_rto(i, IFACES[(kk // 2 + rep) % 2], N, [{**_lik(r, N, m=r.randint(5, 8)), "k": r.choice(KS)}],
                                {"kind": "gmrf", "bc": bc, "order": order, "pd": 1, "N": N, "mean": "vector", "k": kk})); i += 1
        for kk in KP:                                  # the scale axis inside a re-use history as well
            n = r.randint(2, 6)
            c = _reuse(i, kk // 2 + rep, "rto", r.choice(["prior_matrix", "noise_matrix"]), n=n, liks=[{**_lik(r, n, noise=r.choice(MATF), m=r.randint(2, 7)), "k": kk}],
                       prior={"kind": "gaussian", "form": r.choice(MATF), "mean": "vector", "k": kk}); i += 1
            out.append(c)
        # I: function-backed models acting on images / 2D fields: Image2D (order C and F, non-square) and Continuous2D
        #    as domain and as range geometry
        SHAPES = [(2, 3), (3, 2), (2, 4), (3, 3), (2, 2), (4, 2)]
        RNGS = [None, "image_C", "image_F", "cont2d"]
        for oi, order in enumerate(("C", "F")):
            for ri, rg in enumerate(RNGS):
                for ii, iface in enumerate(IFACES):
                    shp = SHAPES[(oi + 2 * ri + ii + rep) % 4]          # non-square
                    n = shp[0] * shp[1]
                    def _rngspec(rg):
                        if rg is None:
                            return None
                        rs_ = SHAPES[r.randint(0, len(SHAPES) - 1)]
                        return {"type": "image", "shape": list(rs_), "order": rg[-1]} if rg.startswith("image") else {"type": "cont2d", "shape": list(rs_)}
                    liks = []
                    for _ in range(r.choice([1, 1, 2])):
                        spec = _rngspec(rg)
                        mm = r.randint(3, 8) if spec is None else spec["shape"][0] * spec["shape"][1]
                        liks.append({"m": mm, "model": "function", "noise": r.choice(FORMS), **({"rng": spec} if spec else {})})
                    c = _rto(i, iface, n, liks, {"kind": "gaussian", "form": r.choice(FORMS), "mean": r.choice(["vector", "scalar"])}, build=r.choice(["joint", "direct"]))
                    c["dom"] = {"type": "image", "shape": list(shp), "order": order}; i += 1
                    out.append(c)
            for bc in BCS:                               # GMRF on a square image of either order
                N = r.choice([2, 3]); gorder = r.choice([0, 1, 2]) if N == 3 else r.choice([0, 1])
                spec = _rngspec(RNGS[(BCS.index(bc) + oi + rep) % 4])
                mm = r.randint(5, 8) if spec is None else max(spec["shape"][0] * spec["shape"][1], 4)
                if spec is not None and spec["shape"][0] * spec["shape"][1] < 4:
                    spec = None
                c = _rto(i, IFACES[(BCS.index(bc) + oi) % 2], N * N, [{"m": mm if spec is None else spec["shape"][0] * spec["shape"][1], "model": "function", "noise": r.choice(FORMS), **({"rng": spec} if spec else {})}],
                         {"kind": "gmrf", "bc": bc, "order": gorder, "pd": 2, "N": N, "mean": "vector"}, build=r.choice(["joint", "direct"]))
                c["dom"] = {"type": "image", "shape": [N, N], "order": order}; i += 1
                out.append(c)
        for ii, iface in enumerate(IFACES):               # Continuous2D domain
            shp = SHAPES[(ii + rep) % len(SHAPES)]
            spec = _rngspec(RNGS[(ii + rep + 1) % 4])
            c = _rto(i, iface, shp[0] * shp[1], [{"m": (r.randint(3, 8) if spec is None else spec["shape"][0] * spec["shape"][1]), "model": "function", "noise": r.choice(FORMS), **({"rng": spec} if spec else {})}],
                     {"kind": "gaussian", "form": r.choice(FORMS), "mean": "vector"}, build="direct")
            c["dom"] = {"type": "cont2d", "shape": list(shp)}; i += 1
            out.append(c)
        # T: structured full matrices (block diagonal, banded, permuted blocks, Kronecker, I + low rank, repeated
        #    eigenvalues) in the four families, as prior and as noise; memory-layout flavours of the arrays handed in
        LAY = ["c", "f", "view", "readonly"]
        FULLF = {"cov": ["cov_full", "cov_sparse"], "prec": ["prec_full", "prec_sparse"], "sqrtcov": ["sqrtcov_symfull"], "sqrtprec": ["sqrtprec_full", "sqrtprec_sparse"]}
        for si, st in enumerate(STRUCTS):
            for fi, fam in enumerate(FULLF):
                for side in ("prior", "noise"):
                    f = FULLF[fam][(si + rep) % len(FULLF[fam])]
                    n = r.randint(6, 9) if side == "prior" else r.randint(2, 6)
                    lik = _lik(r, n, m=(r.randint(6, 9) if side == "noise" else r.randint(2, 7)), noise=(f if side == "noise" else r.choice(FORMS)))
                    prior = {"kind": "gaussian", "form": (f if side == "prior" else r.choice(FORMS)), "mean": r.choice(["vector", "vector", "scalar"])}
                    (prior if side == "prior" else lik)["struct"] = st
                    c = _rto(i, IFACES[(si + fi + rep + (side == "noise")) % 2], n, [lik], prior, build=r.choice(["joint", "direct"])); i += 1
                    c["layout"] = LAY[(si + fi + rep) % 4]
                    out.append(c)
        # B: the same in the sparse regime of the Gaussian class (dim 76..120 > config.MIN_DIM_SPARSE), lite read-off
        for si, st in enumerate(STRUCTS + ["generic"]):
            for fi, fam in enumerate(FULLF):
                for side in ("prior", "noise"):
                    if tier == "quick" and st == "generic" and side == "noise":
                        continue
                    f = FULLF[fam][0]
                    if side == "prior":
                        n = r.randint(76, 120); lik = _lik(r, n, m=r.randint(8, 20), noise=r.choice(FORMS))
                    else:
                        n = r.randint(3, 8); lik = _lik(r, n, m=r.randint(76, 110), noise=f)
                    prior = {"kind": "gaussian", "form": (f if side == "prior" else r.choice(FORMS)), "mean": "vector"}
                    if st != "generic":
                        (prior if side == "prior" else lik)["struct"] = st
                    c = _rto(i, IFACES[(si + fi + rep) % 2], n, [lik], prior, build=r.choice(["joint", "direct"])); i += 1
                    c["lite"] = True; c["layout"] = LAY[(si + fi + rep + 1) % 4]
                    out.append(c)
        # F: far current states - norm 1e3..1e9 times the size of the draw - at several solver tolerances, reached through
        #    the constructor (x0 / initial_point), set_state / attribute assignment, the legacy step(x), or a preceding step
        FAR = [(1e-4, 3), (1e-6, 4), (1e-6, 5), (1e-9, 5), (1e-9, 7), (1e-12, 7), (1e-12, 9)]     # (tol, log10 F): F >= 10/sqrt(tol), F*tol <= 0.1
        VIA = {"exp": ["init", "set_state", "attr", "preceding"], "legacy": ["init", "attr", "step", "preceding"]}
        for ti, (tolv, lf) in enumerate(FAR):
            for ii, iface in enumerate(IFACES):
                for vi in range(2 if tier == "quick" else 4):
                    via = VIA[iface][(ti + ii + rep + 2 * vi) % 4]
                    n = r.randint(2, 7)
                    liks = [_lik(r, n, m=r.randint(2, 8)) for _ in range(r.choice([1, 1, 2]))]
                    out.append({"kind": "far", "i": i, "sampler": "rto", "iface": iface, "via": via, "tol": tolv, "logF": lf, "n": n, "liks": liks,
                                "prior": {"kind": "gaussian", "form": r.choice(FORMS), "mean": r.choice(["vector", "scalar", "zero"])}}); i += 1
                via = [v for v in VIA[iface] if v != "preceding"][(ti + ii + rep) % 3]
                N = r.randint(3, 7)
                out.append({"kind": "far", "i": i, "sampler": "ugla", "iface": iface, "via": via, "tol": tolv, "logF": lf, "pd": 1, "N": N, "n": N,
                            "bc": BCS[(ti + ii + rep) % 3], "m": N + r.randint(2, 5), "model": r.choice(MODELS), "noise": r.choice(FORMS),
                            "beta": r.choice([1e-5, 1e-3, 1e-1])}); i += 1
            n = r.randint(2, 6)
            iface = IFACES[(ti + rep) % 2]
            out.append({"kind": "far", "i": i, "sampler": "regrto", "iface": iface, "via": [v for v in VIA[iface] if v != "preceding"][(ti + rep) % 3],
                        "tol": tolv, "logF": min(lf, 6), "n": n, "liks": [_lik(r, n, m=r.randint(n, n + 4), noise=r.choice(["cov_scalar", "prec_vector", "sqrtprec_scalar", "cov_full"]))],
                        "prior": {"kind": "reggaussian", "form": "cov_scalar", "mean": r.choice(["vector", "zero"])}}); i += 1
    n_rand = 240 if tier == "quick" else 2400
    for _ in range(n_rand):
        out.append(_random_rto(r, i)); i += 1
    for _ in range(80 if tier == "quick" else 600):
        out.append(_random_ugla(r, i)); i += 1
    if tier == "thorough":
        # sparse regime of the Gaussian class (dim > config.MIN_DIM_SPARSE = 75)
        for f in ("cov_full", "prec_full", "sqrtcov_symfull", "sqrtprec_full", "cov_scalar", "prec_sparse", "cov_sparse", "sqrtprec_sparse"):
            out.append(_rto(i, IFACES[i % 2], 78 + (i % 5), [{"m": 20 + (i % 7), "model": MODELS[i % 3], "noise": r.choice(FORMS)}],
                            {"kind": "gaussian", "form": f, "mean": "vector"}, build="joint")); i += 1
        for bc in BCS:
            out.append(_rto(i, IFACES[i % 2], 81, [{"m": 30, "model": "function", "noise": "cov_scalar"}],
                            {"kind": "gmrf", "bc": bc, "order": 1, "pd": 2, "N": 9, "mean": "vector"})); i += 1
    # 2D fields (Image2D domain) only with function-backed models: a matrix-backed LinearModel with an Image2D
    # domain geometry is DESIGN.md #23 (another property), and Image2D(visual_only=True) makes the MRF one-dimensional
    for c in out:
        # a 1x1 scipy.sparse matrix as noise covariance/precision is a degenerate input (refused with assorted exceptions)
        for l in (c["liks"] if "liks" in c else [c]):
            if l["noise"].endswith("_sparse") and l["m"] < 2:
                l["m"] = 2
        if "liks" not in c and c["pd"] == 2:
            c["model"] = "function"
        if "liks" in c and c["prior"].get("pd") == 2:
            for l in c["liks"]:
                l["model"] = "function"
    return out

def _cfg(case):
    if case["kind"] == "far":
        return {"sampler": {"rto": "LinearRTO", "ugla": "UGLA", "regrto": "RegularizedLinearRTO"}[case["sampler"]], "iface": case["iface"],
                "via": case["via"], "tol": case["tol"], "logF": case["logF"]}
    if case["kind"] == "reuse":
        base = {"history": case["mutate"], "stage2": case["stage2"], "post2": case["post2"], "iface1": case["iface1"]}
        if case["sampler"] == "ugla":
            return {"sampler": "UGLA", "iface": case["iface2"], "loc": case["loc"], "bc": case["bc"], "pd": case["pd"], **base}
        return {**_cfg({**case, "kind": "rto", "iface": case["iface2"], "build": "direct"}), **base}
    if case["kind"] == "ugla":
        return {"sampler": "UGLA", "iface": case["iface"], "loc": case["loc"], "bc": case["bc"], "pd": case["pd"]}
    p = case["prior"]
    cfg = {"sampler": "LinearRTO", "iface": case["iface"], "build": case["build"], "prior": p["kind"],
           "prior_struct": p.get("struct"), "noise_struct": "+".join(str(l.get("struct")) for l in case["liks"]),
           "layout": case.get("layout", "c"), "regime": ("sparse" if (case["n"] > 75 or any(l["m"] > 75 for l in case["liks"])) else "dense"),
           "prior_k": p.get("k"), "noise_k": "+".join(str(l.get("k")) for l in case["liks"]),
           "dom": (case["dom"]["type"] + "_" + str(case["dom"].get("order", "")) if case.get("dom") else "vector"),
           "rng": "+".join((l["rng"]["type"] + "_" + str(l["rng"].get("order", "")) if l.get("rng") else "vector") for l in case["liks"]),
           "k": len(case["liks"]), "models": "+".join(l["model"] for l in case["liks"]),
           "noise_forms": "+".join(l["noise"] for l in case["liks"])}
    if p["kind"] == "gaussian":
        cfg.update({"prior_form": p["form"], "prior_mean": p["mean"]})
    elif p["kind"] == "gmrf":
        cfg.update({"bc": p["bc"], "order": p["order"], "pd": p["pd"], "prior_mean": p["mean"]})
    else:
        cfg.update({"blocks": p["blocks"]})
    return cfg

def crash_config(case):
    return _cfg(case)

# --------------------------------------------------------------------------- generators (well-posed by construction)

def _orth(rs, n):
    q, rr = np.linalg.qr(rs.standard_normal((n, n)))
    return q * np.sign(np.diag(rr))

def _spd(rs, n, s=1.0):
    q = _orth(rs, n)
    lam = np.exp(rs.uniform(np.log(0.4), np.log(2.5), n))
    M = (q * lam) @ q.T
    return s * (M + M.T) / 2

def _tridiag_spd(rs, n, s=1.0):
    d = rs.uniform(2.0, 3.0, n)
    o = rs.uniform(-0.9, 0.9, max(n - 1, 0))
    return s * (np.diag(d) + np.diag(o, 1) + np.diag(o, -1))

STRUCTS = ["block2", "block3u", "block4", "banded", "permblock", "kron", "idlowrank", "repeated"]

def _corr_block(rs, k):
    if k == 1:
        return np.array([[float(rs.uniform(0.6, 1.6))]])
    if rs.uniform() < 0.5:
        rho = float(rs.choice([0.5, 0.8, -0.6])); idx = np.arange(k)
        return float(rs.uniform(0.7, 1.4)) * rho ** np.abs(idx[:, None] - idx[None, :])
    return _spd(rs, k, 1.0)

def _blockdiag(blocks):
    n = sum(b.shape[0] for b in blocks)
    M = np.zeros((n, n)); k = 0
    for b in blocks:
        M[k:k + b.shape[0], k:k + b.shape[0]] = b; k += b.shape[0]
    return M

def _split(rs, n, k, equal):
    k = max(1, min(k, n))
    if equal:
        base = [n // k] * k
        for i in range(n - sum(base)): base[i] += 1
        return base
    cuts = sorted(rs.choice(np.arange(1, n), size=k - 1, replace=False).tolist()) if k > 1 else []
    return [b - a for a, b in zip([0] + cuts, cuts + [n])]

def _structured(rs, n, struct):
    """Well conditioned SPD matrix (unit scale) with exact zeros / repeated eigenvalues / exactly orthogonal
    eigenvectors: independent correlated fields stacked in one vector, banded, permuted blocks, Kronecker, I + low rank."""
    if struct == "block2":
        M = _blockdiag([_corr_block(rs, k) for k in _split(rs, n, 2, True)])
    elif struct == "block3u":
        M = _blockdiag([_corr_block(rs, k) for k in _split(rs, n, 3, False)])
    elif struct == "block4":
        M = _blockdiag([_corr_block(rs, k) for k in _split(rs, n, 4, bool(rs.randint(2)))])
    elif struct == "banded":
        bw = int(rs.choice([1, 2]))
        M = np.diag(rs.uniform(2.0, 3.0, n))
        for d in range(1, bw + 1):
            if n - d > 0:
                o = rs.uniform(-0.45, 0.45, n - d); M += np.diag(o, d) + np.diag(o, -d)
    elif struct == "permblock":
        B = _blockdiag([_corr_block(rs, k) for k in _split(rs, n, int(rs.choice([2, 3])), False)])
        perm = rs.permutation(n); M = B[np.ix_(perm, perm)]
    elif struct == "kron":
        divs = [a for a in range(2, n) if n % a == 0]
        if not divs:
            return _structured(rs, n, "block2")
        a = int(rs.choice(divs)); b = n // a
        A1 = _corr_block(rs, a) if rs.randint(2) else np.eye(a)
        B1 = _corr_block(rs, b) if (rs.randint(2) or A1 is None or np.array_equal(A1, np.eye(a))) else np.eye(b)
        M = np.kron(A1, B1)
    elif struct == "idlowrank":
        r = min(2, n - 1) if n > 1 else 1
        U = np.zeros((n, r)); rows = rs.choice(n, size=min(n, max(r + 1, n // 2)), replace=False)
        U[rows] = rs.standard_normal((len(rows), r))
        M = np.eye(n) + 0.8 * U @ U.T / max(1.0, np.linalg.norm(U, 2) ** 2) * 3.0
    elif struct == "repeated":
        lam = rs.choice([0.5, 1.0, 2.0], size=n)
        B = _blockdiag([_orth(rs, k) for k in _split(rs, n, 2, True)])
        M = (B * lam) @ B.T
    else:
        raise ValueError(struct)
    return (M + M.T) / 2

def _apply_layout(v, layout, rs):
    """Memory-layout flavours of the arrays handed to the library (values unchanged)."""
    if layout in (None, "c") or not isinstance(v, np.ndarray) or v.ndim == 0:
        return v
    if layout == "f":
        return np.asfortranarray(v)
    if layout == "view":                              # non-contiguous view into a larger buffer
        big = rs.standard_normal(tuple(2 * d + 1 for d in v.shape))
        sl = tuple(slice(1, 2 * d + 1, 2) for d in v.shape)
        big[sl] = v
        return big[sl]
    if layout == "readonly":
        w = np.array(v, copy=True); w.setflags(write=False)
        return w
    raise ValueError(layout)

def _gen_form(rs, form, n, s, struct=None):
    """-> (keyword, value handed to the library, reference precision matrix).
    `s` is the typical variance."""
    fam, shape = form.split("_")
    if struct is not None and shape in ("full", "symfull", "sparse") and n >= 2:
        t = {"cov": s, "prec": 1.0 / s, "sqrtcov": np.sqrt(s), "sqrtprec": 1.0 / np.sqrt(s)}[fam]
        v = t * _structured(rs, n, struct)
        if fam == "sqrtprec" and struct.startswith("block"):      # non-symmetric square root, block by block
            sizes = _split(rs, n, {"block2": 2, "block3u": 3, "block4": 4}[struct], struct != "block3u")
            v = t * _blockdiag([(_orth(rs, k) * np.exp(rs.uniform(np.log(0.6), np.log(1.7), k))) @ _orth(rs, k).T for k in sizes])
        if shape == "sparse":
            v = sps.csr_matrix(v)
        return fam, v, G.precision_from_form(fam, v, n)
    if fam in ("cov", "prec"):
        t = s if fam == "cov" else 1.0 / s
    elif fam == "sqrtcov":
        t = np.sqrt(s)
    else:
        t = 1.0 / np.sqrt(s)
    if shape == "scalar":
        v = float(t * rs.uniform(0.7, 1.4))
    elif shape == "vector":
        v = t * rs.uniform(0.5, 2.0, n)
    elif shape == "diag":
        v = np.diag(t * rs.uniform(0.5, 2.0, n))
    elif shape in ("full", "symfull"):
        if fam == "sqrtprec":                      # genuinely non-symmetric square root
            v = t * (_orth(rs, n) * np.exp(rs.uniform(np.log(0.5), np.log(2.0), n))) @ _orth(rs, n).T
        elif rs.uniform() < 0.5:                   # strongly correlated (AR(1)-type) matrix, every off-diagonal non-zero
            rho = float(rs.choice([0.6, 0.9, -0.7]))
            idx = np.arange(n)
            v = t * rho ** np.abs(idx[:, None] - idx[None, :]) * np.sqrt(np.outer(rs.uniform(0.7, 1.4, n), np.ones(n)))
            v = (v + v.T) / 2 + 0.0
            v = v if np.linalg.eigvalsh(v).min() > 0.02 * t else _spd(rs, n, t)
        else:
            v = _spd(rs, n, t)
    elif shape == "sparse":
        if fam == "sqrtprec":
            v = sps.csr_matrix(t * (np.diag(rs.uniform(0.8, 1.6, n)) + np.diag(rs.uniform(-0.6, 0.6, max(n - 1, 0)), 1)))
        else:
            v = sps.csr_matrix(_tridiag_spd(rs, n, t / 2.5))
    elif shape == "triu":
        v = t * (np.diag(rs.uniform(0.8, 1.6, n)) + np.triu(rs.uniform(-0.4, 0.4, (n, n)), 1))
    elif shape == "tril":
        v = t * (np.diag(rs.uniform(0.8, 1.6, n)) + np.tril(rs.uniform(-0.4, 0.4, (n, n)), -1))
    else:
        raise ValueError(form)
    return fam, v, G.precision_from_form(fam, v, n)

def _mk_geom(cuqi, spec):
    if spec["type"] == "image":
        return cuqi.geometry.Image2D(tuple(spec["shape"]), order=spec["order"])
    return cuqi.geometry.Continuous2D(tuple(spec["shape"]))

def _fun_perm(spec, n):
    """Q with  Q @ x_par == C-order flattened function values, from the documented meaning of the geometry:
    Image2D(shape, order): image = x.reshape(shape, order=order); Continuous2D: parameters are the (flat) function values."""
    if spec is None or spec["type"] != "image":
        return np.eye(n)
    idx = np.arange(n).reshape(tuple(spec["shape"]), order=spec["order"]).ravel()
    return np.eye(n)[idx]

def _gen_model_2d(cuqi, rs, m, n, dom, rng_spec, amp):
    """Function-backed LinearModel whose callables act on function values (images); returns its parameter-space matrix."""
    T = rs.standard_normal((m, n)) * amp
    dshape = tuple(dom["shape"]) if dom["type"] == "image" else None
    rshape = tuple(rng_spec["shape"]) if (rng_spec is not None and rng_spec["type"] == "image") else None
    def fwd(f):
        out = T @ np.ravel(np.asarray(f))
        return out.reshape(rshape) if rshape is not None else out
    def adj(g):
        out = T.T @ np.ravel(np.asarray(g))
        return out.reshape(dshape) if dshape is not None else out
    model = cuqi.model.LinearModel(fwd, adj, range_geometry=(m if rng_spec is None else _mk_geom(cuqi, rng_spec)), domain_geometry=_mk_geom(cuqi, dom))
    A = _fun_perm(rng_spec, m).T @ T @ _fun_perm(dom, n)
    return A, model

def _gen_model(cuqi, rs, kind, m, n, geom=None, amp=None):
    dg = {} if geom is None else {"domain_geometry": geom}
    A = rs.standard_normal((m, n)) * (rs.choice([0.4, 1.0, 2.5]) if amp is None else amp)
    if kind in ("sparse",):
        A = A * (rs.uniform(size=(m, n)) < 0.7)
        if not np.any(A):
            A[0, 0] = 1.0
    if kind == "ndarray":
        return A, A.copy()
    if kind == "matrix":
        return A, cuqi.model.LinearModel(A.copy(), **dg)
    if kind == "sparse":
        return A, cuqi.model.LinearModel(sps.csr_matrix(A), **dg)
    Af = A.copy()
    # with an Image2D domain the forward receives the image (function values); the adjoint may return either layout
    return A, cuqi.model.LinearModel(lambda x: Af @ np.ravel(x), lambda y: Af.T @ y, range_geometry=m, domain_geometry=(n if geom is None else geom))

# --------------------------------------------------------------------------- scripted perturbations

class Feed:
    """Provider for rngscript: hands out consecutive chunks of a flat vector e (zeros when e is None)
    to whatever normal draws the code makes, and remembers the layout of the draws."""
    def __init__(self, e=None):
        self.e = None if e is None else np.asarray(e, dtype=float).ravel()
        self.pos = 0
        self.layout = []
    def __call__(self, shape, api, seq):
        size = int(np.prod(shape)) if shape != () else 1
        out = np.zeros(size)
        if self.e is not None:
            chunk = self.e[self.pos:self.pos + size]
            out[:len(chunk)] = chunk
        self.pos += size
        self.layout.append((api, tuple(shape)))
        return out.reshape(shape) if shape != () else float(out[0])

class FeedHolder:
    """Lets one ScriptedRNG object (rng= argument) be re-scripted per step."""
    def __init__(self):
        self.cur = Feed()
    def __call__(self, shape, api, seq):
        return self.cur(shape, api, seq)

class SolverWatch:
    """Recording pass-through around cuqi.solver.CGLS.solve (the class object the samplers look up):
    number of iterations used, the iteration cap and the size of the returned iterate."""
    def __init__(self):
        self.calls = []
    def __enter__(self):
        import cuqi
        self.cls = cuqi.solver.CGLS
        self.orig = self.cls.solve
        watch, orig = self, self.orig
        def solve(solver):
            x, k = orig(solver)
            xa = np.asarray(x, dtype=float)
            finite = bool(np.all(np.isfinite(xa)))
            watch.calls.append({"k": int(k), "maxit": int(solver.maxit), "tol": float(solver.tol),
                                "xmax": float(np.max(np.abs(xa))) if finite and xa.size else float("inf"),
                                "xnorm": float(np.linalg.norm(xa)) if finite and xa.size else float("inf")})
            return x, k
        self.cls.solve = solve
        return self
    def __exit__(self, *a):
        self.cls.solve = self.orig
        return False
    def diverged(self):
        """CGLS left through its emergency exit |x|*tol >= 1 (or produced non-finite values) before maxit."""
        return [c for c in self.calls if (not np.isfinite(c["xnorm"])) or c["xnorm"] * c["tol"] >= 0.999]
    def exhausted(self):
        return [c for c in self.calls if c["k"] >= c["maxit"]]

class Drawer:
    """One scripted transition of a sampler: draw(state, e) -> next state (1-d array).

    "Inner solver run to convergence" is part of the property's premise.  cuqi.solver.CGLS stops relative to the
    *initial* residual; when that threshold lies below the attainable accuracy (start close to the solution) the
    iteration does not stagnate but diverges until |x|*tol >= 1.  Such a transition is outside the premise: it is
    reported under its own mechanism and the transition is repeated with the solver tolerance relaxed by 100x
    (the comparison tolerances follow the loosest tolerance that was used)."""
    def __init__(self, ctx, cfg):
        self.ctx, self.cfg = ctx, cfg
        self.N = None
        self.layout = None
        self.bad = None
        self.loosest_tol = SOLVER_TOL
        self.unconverged = 0

    def _run(self, state, feed, steps=1):
        raise NotImplementedError

    def _draw_once(self, state, e, steps):
        feed = Feed(e)
        with Scripted(normal=feed) as rec:
            x = self._run(np.array(state, dtype=float, copy=True), feed, steps)
        other = [d for d in rec.draws if d[1] not in ("randn", "standard_normal", "normal")]
        self._after(feed, other, steps)
        return np.array(x, dtype=float, copy=True)

    def draw(self, state, e, steps=1):
        state = np.asarray(state, dtype=float)
        tol0 = getattr(self.s, "tol", None)        # what the constructor made of tol=SOLVER_TOL (left untouched at first)
        try:
            for attempt in range(3):
                tol = SOLVER_TOL * 100.0 ** attempt
                if attempt > 0:
                    self.s.tol = tol
                with SolverWatch() as w:
                    x = self._draw_once(state, e, steps)
                self.ctx.count("cgls_solves_observed", len(w.calls))
                div, exh = w.diverged(), w.exhausted()
                if w.calls and not div and not exh:
                    self.loosest_tol = max(self.loosest_tol, tol)
                    return x
                if div:
                    self.ctx.count("inner_solver_diverged_seen", len(div))
                    self.ctx.violation("inner_solver_diverged", {"sampler": self.cfg.get("sampler"), "solver": "CGLS", "exit": "normx*tol>=1"},
                                       detail=f"CGLS(maxit={div[0]['maxit']}, tol={div[0]['tol']}) left after {div[0]['k']} iterations with max|x|={div[0]['xmax']:.3g} "
                                              f"(start state max {np.max(np.abs(state)):.3g}); iteration continued past the attainable accuracy and diverged")
                elif exh:
                    self.ctx.count("inner_solver_hit_maxit", len(exh))
                if attempt < 2:
                    self.ctx.count("draw_repeated_with_relaxed_tol")
            self.unconverged += 1
            return x                              # judged as it is
        finally:
            if tol0 is not None:
                self.s.tol = tol0

    def _after(self, feed, other, steps):
        self.ctx.count("normal_draws_scripted", len(feed.layout))
        if other:
            self.ctx.count("non_normal_draws_seen", len(other))
        if self.N is None:
            self.N, self.layout = feed.pos // max(1, steps), list(feed.layout)
        elif feed.pos != self.N * steps:
            self.bad = f"normal draws per step changed: {feed.pos} values for {steps} step(s), first step used {self.N}"

class ExpDrawer(Drawer):
    def __init__(self, ctx, cfg, sampler):
        super().__init__(ctx, cfg)
        self.s = sampler
    def _run(self, state, feed, steps):
        self.s.current_point = state
        if steps == 1:
            self.s.step()
            return np.asarray(self.s.current_point).ravel()
        n0 = len(self.s._samples)
        self.s.sample(steps)
        X = np.asarray(self.s.get_samples().samples)
        return X[:, n0:n0 + steps]

class LegacyDrawer(Drawer):
    def __init__(self, ctx, cfg, sampler, holder=None):
        super().__init__(ctx, cfg)
        self.s, self.holder = sampler, holder
    def _draw_once(self, state, e, steps):
        if self.holder is None:
            return super()._draw_once(state, e, steps)
        feed = Feed(e)                                  # rng= object scripted instead of the global stream
        self.holder.cur = feed
        with Scripted(normal=feed) as rec:              # should stay silent; scripted too so that exactness is judged
            x = self._run(np.array(state, dtype=float, copy=True), feed, steps)   # whichever stream the code uses
        if rec.draws:
            self.ctx.count("global_draws_despite_rng", len(rec.draws))   # (use of the given stream is C05's subject)
        self._after(feed, [], steps)
        return np.array(x, dtype=float, copy=True)
    def _run(self, state, feed, steps):
        self.s.x0 = state
        res = self.s.sample(steps + 1)
        X = np.asarray(res.samples)
        return X[:, 1] if steps == 1 else X[:, 1:steps + 1]

# --------------------------------------------------------------------------- the read-off oracle

def _states(rs, n, xm, C):
    """Two current states: a few posterior sd away from the mean, and a far / absolute one (zeros is the default
    initial point of both samplers)."""
    sd = float(np.sqrt(np.max(np.diag(C))))
    a = xm + sd * rs.standard_normal(n) * 3.0
    which = rs.randint(4)
    if which == 0:
        b = np.zeros(n)
    elif which == 1:
        b = xm + sd * rs.standard_normal(n) * 30.0
    elif which == 2:
        b = xm + sd * rs.standard_normal(n) * 300.0
    else:
        size = max(sd, float(np.max(np.abs(xm))))
        b = rs.standard_normal(n) * min(float(rs.choice([10.0, 1000.0])) * size, max(1e-4 / SOLVER_TOL, 10.0 * size))
    return a, b

def _read_affine(ctx, cfg, drawer, xm, C, rs, states, tag, cond, check_state_indep=True):
    """Reads x(e) = xbar + B e off the real sampler and compares with (xm, C).
    Returns (xbar, B, ok, tol_x) or None."""
    n = len(xm)
    sd = float(np.sqrt(np.max(np.diag(C))))
    scale = max(float(np.max(np.abs(xm))), sd, 1e-300)
    sA, sB = states
    dist = max(float(np.linalg.norm(sA - xm)), float(np.linalg.norm(sB - xm))) + 20.0 * sd * np.sqrt(n)
    xmax = max(float(np.max(np.abs(xm))), float(np.max(np.abs(sA))), float(np.max(np.abs(sB)))) + 20.0 * sd
    # ---- all transitions first (the comparison tolerance follows the loosest solver tolerance that was needed)
    x0 = drawer.draw(sA, None)
    if drawer.N is None or drawer.N == 0:
        ctx.inconclusive("no normal draw observed during a step: perturbation not scriptable")
        return None
    N = drawer.N
    ctx.note("normal_layout", [list(map(str, l)) for l in drawer.layout][:4])
    B = np.zeros((n, N))
    for i in range(N):
        e = np.zeros(N); e[i] = 1.0
        st = sA if (i % 2 == 0) else sB
        B[:, i] = drawer.draw(st, e) - x0
    gs = [rs.standard_normal(N) * (1.0 if j == 0 else 5.0) for j in range(2)]
    xas = [drawer.draw(sA, g) for g in gs]
    xbs = [drawer.draw(sB, g) for g in gs] if check_state_indep else []
    xb0 = drawer.draw(sB, None) if check_state_indep else None
    tol_x = _xtol(scale, cond, dist, xmax, drawer.loosest_tol)
    ctx.note("tol_x_over_sd", tol_x / sd)
    # ---- offset == closed-form mean
    ok = True
    ctx.count(f"{tag}_mean_checked")
    if not ctx.close(x0, xm, rtol=0.0, atol=tol_x):
        ok = False
        ctx.violation(f"{tag}_mean_mismatch", cfg,
                      detail=f"draw with zero perturbation {x0.tolist()} != closed-form mean {xm.tolist()} "
                             f"(max abs err {np.max(np.abs(x0 - xm)):.3g}, posterior sd {sd:.3g}, N={N})")
    # ---- linear part reproduces the covariance
    Cobs = B @ B.T
    ctx.count(f"{tag}_cov_entries_checked", n * n)
    tol_c = RTOL * float(np.max(np.abs(C))) + 4.0 * N * tol_x * (float(np.max(np.abs(B))) + tol_x)
    if not ctx.close(Cobs, C, rtol=0.0, atol=tol_c):
        ok = False
        ctx.violation(f"{tag}_cov_mismatch", cfg,
                      detail=f"B B^T of the read-off linear part differs from the closed-form covariance: max abs err "
                             f"{np.max(np.abs(Cobs - C)):.3g} vs max |C| {np.max(np.abs(C)):.3g}; diag obs {np.diag(Cobs).tolist()} ref {np.diag(C).tolist()}")
    # ---- affine in e (superposition) and independent of the current state
    bscale = max(scale, float(np.max(np.abs(B))))
    for j, g in enumerate(gs):
        pred = x0 + B @ g
        ctx.count(f"{tag}_affine_checked")
        tol_g = RTOL * bscale * max(1.0, float(np.max(np.abs(g)))) + (2.0 + float(np.sum(np.abs(g)))) * tol_x
        if not ctx.close(xas[j], pred, rtol=0.0, atol=tol_g):
            ok = False
            ctx.violation(f"{tag}_not_affine", cfg, detail=f"x(g) != x(0) + B g: max abs err {np.max(np.abs(xas[j] - pred)):.3g} (scale {bscale:.3g})")
        if check_state_indep:
            ctx.count(f"{tag}_state_independence_checked")
            if not ctx.close(xbs[j], xas[j], rtol=0.0, atol=tol_g):
                ok = False
                ctx.violation(f"{tag}_state_dependence", cfg,
                              detail=f"same perturbation from two current states gives different draws: max abs diff {np.max(np.abs(xas[j] - xbs[j])):.3g} (scale {bscale:.3g})")
    if check_state_indep:
        ctx.count(f"{tag}_state_independence_checked")
        if not ctx.close(xb0, x0, rtol=0.0, atol=2.0 * tol_x):
            ok = False
            ctx.violation(f"{tag}_state_dependence", cfg,
                          detail=f"zero perturbation from two current states gives different draws: max abs diff {np.max(np.abs(xb0 - x0)):.3g} (scale {scale:.3g})")
    if drawer.bad:
        ctx.inconclusive(drawer.bad)
    ctx.note("max_err_mean_cov", [float(np.max(np.abs(x0 - xm)) / scale), float(np.max(np.abs(Cobs - C)) / np.max(np.abs(C)))])
    return x0, B, ok, tol_x

def _check_stacked(ctx, cfg, sampler, n, H, rhs, rs, tag="stacked"):
    """The stacked whitened operator / right-hand side kept by the sampler (anchors: M, b_tild)."""
    M = getattr(sampler, "M", None)
    if M is None:
        return
    b = getattr(sampler, "b_tild", None)
    if b is None:
        b = getattr(sampler, "_b_tild", None)
    if callable(M):
        fwd = np.array([np.asarray(M(e, 1)).ravel() for e in np.eye(n)]).T          # N x n
        N = fwd.shape[0]
        adj = np.array([np.asarray(M(e, 2)).ravel() for e in np.eye(N)]).T          # n x N
        ctx.count(f"{tag}_adjoint_checked", N * n)
        sc = max(float(np.max(np.abs(fwd))), 1e-300)
        if adj.shape != (n, N) or not ctx.close(adj, fwd.T, rtol=1e-10, atol=0.0, scale=sc):
            ctx.violation("stacked_adjoint_mismatch", cfg,
                          detail=f"M(.,2) is not the transpose of M(.,1): max abs diff "
                                 f"{np.max(np.abs(adj - fwd.T)) if adj.shape == (n, N) else 'shape ' + str(adj.shape)} (scale {sc:.3g})")
        for _ in range(3):
            x, y = rs.standard_normal(n), rs.standard_normal(N)
            lhs, rh = float(np.dot(np.asarray(M(x, 1)).ravel(), y)), float(np.dot(x, np.asarray(M(y, 2)).ravel()))
            ctx.count(f"{tag}_adjoint_checked")
            if not ctx.close(lhs, rh, rtol=1e-10, atol=0.0, scale=sc * np.linalg.norm(x) * np.linalg.norm(y) + 1e-300):
                ctx.violation("stacked_adjoint_mismatch", cfg, detail=f"<M(x,1),y>={lhs!r} != <x,M(y,2)>={rh!r}")
        Mm = fwd
    else:
        Mm = G.dense(M)
        ctx.count(f"{tag}_matrix_seen")
    if H is None:
        return Mm
    ctx.count(f"{tag}_normal_matrix_checked")
    if Mm.shape[1] != n or not ctx.close(Mm.T @ Mm, H, rtol=RTOL, atol=0.0, scale=float(np.max(np.abs(H)))):
        ctx.violation("stacked_normal_matrix_mismatch", cfg,
                      detail=f"M^T M of the stacked operator differs from the posterior precision (max abs diff "
                             f"{np.max(np.abs(Mm.T @ Mm - H)) if Mm.shape[1] == n else 'shape'}; max |H| {np.max(np.abs(H)):.3g})")
    if b is not None and rhs is not None and Mm.shape[0] == len(b):
        ctx.count(f"{tag}_rhs_checked")
        if not ctx.close(Mm.T @ np.asarray(b).ravel(), rhs, rtol=RTOL, atol=0.0, scale=float(np.max(np.abs(rhs))) + float(np.max(np.abs(H))) * 1e-9):
            ctx.violation("stacked_rhs_mismatch", cfg,
                          detail=f"M^T b_tild differs from sum A^T P d + P0 mu0: max abs diff {np.max(np.abs(Mm.T @ np.asarray(b).ravel() - rhs)):.3g}")
    return Mm

# --------------------------------------------------------------------------- building the posterior

_BUILD_REFUSALS = (ValueError, TypeError, NotImplementedError)

def _solver_args(Ntot):
    return {"maxit": int(10 * Ntot + 200), "tol": SOLVER_TOL}

def _gen_rto_problem(cuqi, case, rs):
    """-> dict with library objects and the dense reference ingredients; well-posed by construction
    (posterior precision condition number bounded; regenerated otherwise)."""
    n, p = case["n"], case["prior"]
    for attempt in range(6):
        ref = {}
        # ---- prior
        dom = case.get("dom")
        # overall variance scale of the prior (10^k when the descriptor carries the scale axis)
        sp = float(10.0 ** p["k"]) * float(rs.uniform(0.5, 2.0)) if "k" in p else None
        msd = 1.0 if sp is None else np.sqrt(sp)
        if p["kind"] == "gaussian":
            fam, val, P0 = _gen_form(rs, p["form"], n, float(rs.choice([0.2, 1.0, 5.0])) if sp is None else sp, p.get("struct"))
            val = _apply_layout(val, case.get("layout"), rs)
            if p["mean"] == "vector":
                mu = rs.standard_normal(n) * 2 * msd; mu_lib = _apply_layout(mu.copy(), case.get("layout"), rs)
            elif p["mean"] == "scalar":
                mu_lib = float(rs.choice([0.7, -1.3, 2.0])) * msd; mu = np.full(n, mu_lib)
            else:
                mu_lib = 0; mu = np.zeros(n)
            ref.update(prior_kw=fam, prior_val=val, mu_lib=mu_lib)
            pg = (lambda: n) if dom is None else (lambda dom=dom: _mk_geom(cuqi, dom))
            mk_prior = lambda mu_lib=mu_lib, fam=fam, val=val, pg=pg: cuqi.distribution.Gaussian(mu_lib, **{fam: val}, geometry=pg(), name="x")
            geom = None
        elif p["kind"] == "gmrf":
            N, pd = p["N"], p["pd"]
            delta = float(rs.choice([0.5, 3.0, 20.0])) if sp is None else 1.0 / sp
            D = S.diff_op(N, p["bc"], p["order"], pd)
            reg = 0.0 if p["bc"] == "zero" else np.sqrt(np.finfo(float).eps)
            P0 = delta * (D.T @ D + reg * np.eye(n))
            ref.update(gmrf_P1=D.T @ D + reg * np.eye(n))
            if p["mean"] == "vector":
                mu_lib = rs.standard_normal(n) * 2 * msd; mu = mu_lib.copy()
            elif p["mean"] == "scalar":
                mu_lib = 0.7; mu = np.full(n, 0.7)
            else:
                mu_lib = np.zeros(n); mu = np.zeros(n)
            geom = (lambda N=N: cuqi.geometry.Continuous1D(N)) if pd == 1 else (lambda N=N: cuqi.geometry.Image2D((N, N)))
            if dom is not None:
                geom = lambda dom=dom: _mk_geom(cuqi, dom)
            mk_prior = lambda mu_lib=mu_lib, delta=delta, geom=geom: cuqi.distribution.GMRF(mu_lib, delta, bc_type=p["bc"], order=p["order"], geometry=geom(), name="x")
        else:
            means, sqs, precs = [], [], []
            for b in range(p["blocks"]):
                rows = n + int(rs.choice([0, 0, 2]))
                if b == 0 or rows == n:
                    Sq = (_orth(rs, n) * np.exp(rs.uniform(np.log(0.5), np.log(2.0), n))) @ _orth(rs, n).T
                else:
                    Sq = rs.standard_normal((rows, n)) * 0.7
                means.append(rs.standard_normal(n)); sqs.append(Sq); precs.append(Sq.T @ Sq)
            mu, P0 = G.product_of_gaussians(means, precs)
            mk_prior = lambda means=means, sqs=sqs: cuqi.distribution.JointGaussianSqrtPrec([m.copy() for m in means], [q.copy() for q in sqs], geometry=n, name="x")
            geom = None
        # ---- likelihoods
        As, Ps, ds, mods, noise = [], [], [], [], []
        for l in case["liks"]:
            scaled = ("k" in l) or (sp is not None)
            sn = float(10.0 ** l["k"]) * float(rs.uniform(0.5, 2.0)) if "k" in l else float(rs.choice([0.05, 0.3, 1.0, 4.0]))
            # with the scale axis the operator is scaled so that data and prior stay comparably informative
            amp = float(np.sqrt(sn / (sp if sp is not None else 1.0)) * rs.choice([0.4, 1.0, 2.5])) if scaled else None
            if dom is not None:
                A, model = _gen_model_2d(cuqi, rs, l["m"], n, dom, l.get("rng"), amp if amp is not None else float(rs.choice([0.4, 1.0, 2.5])))
            else:
                A, model = _gen_model(cuqi, rs, l["model"], l["m"], n, geom() if geom is not None else None, amp)
            nfam, nval, P = _gen_form(rs, l["noise"], l["m"], sn, l.get("struct"))
            nval = _apply_layout(nval, case.get("layout"), rs)
            fam, val = nfam, nval
            As.append(A); Ps.append(P); mods.append(model); noise.append((fam, val))
            ds.append(A @ (mu + msd * rs.standard_normal(n)) + np.sqrt(sn if scaled else 1.0) * rs.standard_normal(l["m"]))
        xm, C, H, rhs = G.posterior(As, Ps, ds, P0, mu)
        cond = float(np.linalg.cond(H))
        if cond <= COND_MAX:
            ds_lib = [_apply_layout(d.copy(), case.get("layout"), rs) for d in ds]
            ref.update(xm=xm, C=C, H=H, rhs=rhs, As=As, Ps=Ps, ds=ds, ds_lib=ds_lib, mods=mods, noise=noise, P0=P0, mu=mu,
                       mk_prior=mk_prior, cond=cond)
            # snapshots of every array handed to the library ("inputs unchanged after use" monitor)
            handed = [("data%d" % j, d) for j, d in enumerate(ds_lib)] + [("noise%d" % j, v) for j, (f_, v) in enumerate(noise)]
            if "prior_val" in ref:
                handed += [("prior_matrix", ref["prior_val"]), ("prior_mean", ref["mu_lib"])]
            ref["handed"] = [(nm, v, (G.dense(v).copy() if hasattr(v, "toarray") else np.array(v, copy=True)))
                             for nm, v in handed if isinstance(v, np.ndarray) or hasattr(v, "toarray")]
            return ref
    return None

def _build_rto(cuqi, case, prob, x_init):
    """Builds the sampler through the case's interface. May raise a documented refusal."""
    D = cuqi.distribution
    n = case["n"]
    Ntot = sum(l["m"] for l in case["liks"]) + 3 * n
    sa = _solver_args(Ntot)
    if case["iface"] == "tuple":
        fam, val = prob["noise"][0]
        target = (prob["ds_lib"][0], prob["mods"][0], val, prob["mu_lib"], prob["prior_val"])
        return cuqi.sampler.LinearRTO(target, x0=x_init, **sa)
    x, ys = _build_dists(cuqi, prob)
    post = _build_posterior(cuqi, case["build"], x, ys, prob["ds_lib"])
    return _make_rto(cuqi, case["iface"], post, x_init, sa)

def _build_dists(cuqi, prob):
    D = cuqi.distribution
    x = prob["mk_prior"]()
    ys = [D.Gaussian(model @ x, **{fam: val}, name=f"y{j}") for j, (model, (fam, val)) in enumerate(zip(prob["mods"], prob["noise"]))]
    return x, ys

def _build_posterior(cuqi, build, x, ys, ds):
    D = cuqi.distribution
    if build == "joint":
        return D.JointDistribution(x, *ys)(**{f"y{j}": d for j, d in enumerate(ds)})
    liks = [y.to_likelihood(d) for y, d in zip(ys, ds)]
    return D.Posterior(liks[0], x) if len(liks) == 1 else D.MultipleLikelihoodPosterior(*liks, x)

def _make_rto(cuqi, iface, post, x_init, sa):
    if iface == "exp":
        s = cuqi.experimental.mcmc.LinearRTO(post, initial_point=x_init, **sa)
        s.initialize()
        return s
    return cuqi.sampler.LinearRTO(post, x0=x_init, **sa)

def _inputs_unchanged(ctx, cfg, prob):
    for nm, v, snap in prob.get("handed", []):
        ctx.count("inputs_unchanged_checked")
        now = G.dense(v) if hasattr(v, "toarray") else np.asarray(v)
        if now.shape != snap.shape or not np.array_equal(now, snap):
            ctx.violation("input_mutated", {**cfg, "input": nm.rstrip("0123456789")}, detail=f"the array handed in as {nm} was modified by building / running the sampler")

def _lite_readoff(ctx, cfg, drawer, sampler, prob, rs, states, n):
    """Large systems (sparse regime of the Gaussian class): the offset is read off a real transition, the linear part
    is checked in random directions against H^-1 M^T g with M the sampler's own stacked operator (probed column by
    column and itself compared with the closed form: M^T M == H, M^T b == H xbar, adjoint == transpose)."""
    xm, C, H, cond = prob["xm"], prob["C"], prob["H"], prob["cond"]
    sA, sB = states
    sd = float(np.sqrt(np.max(np.diag(C))))
    scale = max(float(np.max(np.abs(xm))), sd)
    x0 = drawer.draw(sA, None)
    if not drawer.N:
        ctx.inconclusive("no normal draw observed during a step: perturbation not scriptable"); return
    N = drawer.N
    Mm = _check_stacked(ctx, cfg, sampler, n, H, prob["rhs"], rs)
    gs = [rs.standard_normal(N) * (1.0 if j == 0 else 4.0) for j in range(3)]
    xs = [drawer.draw(sA if j % 2 == 0 else sB, g) for j, g in enumerate(gs)]
    xb0 = drawer.draw(sB, None)
    dist = max(float(np.linalg.norm(sA - xm)), float(np.linalg.norm(sB - xm))) + 20.0 * sd * np.sqrt(n)
    xmax = max(float(np.max(np.abs(xm))), float(np.max(np.abs(sA))), float(np.max(np.abs(sB)))) + 20.0 * sd
    tol_x = _xtol(scale, cond, dist, xmax, drawer.loosest_tol)
    ctx.count("rto_mean_checked")
    if not ctx.close(x0, xm, rtol=0.0, atol=tol_x):
        ctx.violation("rto_mean_mismatch", cfg, detail=f"draw with zero perturbation differs from the closed-form mean: max abs err {np.max(np.abs(x0 - xm)):.3g} (posterior sd {sd:.3g}, n={n}, N={N})")
    ctx.count("rto_state_independence_checked")
    if not ctx.close(xb0, x0, rtol=0.0, atol=2 * tol_x):
        ctx.violation("rto_state_dependence", cfg, detail=f"zero perturbation from two current states: max abs diff {np.max(np.abs(xb0 - x0)):.3g}")
    if Mm is not None and Mm.shape == (N, n):
        for g, xg in zip(gs, xs):
            pred = xm + np.linalg.solve(H, Mm.T @ g)
            ctx.count("rto_lite_directions_checked")
            tol_g = RTOL * max(scale, float(np.max(np.abs(pred)))) + (2.0 + np.sqrt(N)) * tol_x
            if not ctx.close(xg, pred, rtol=0.0, atol=tol_g):
                ctx.violation("rto_linear_part_mismatch", cfg, detail=f"x(g) != xbar + H^-1 M^T g: max abs err {np.max(np.abs(xg - pred)):.3g} (sd {sd:.3g})")
    if drawer.bad:
        ctx.inconclusive(drawer.bad)
    ctx.note("N_perturbation", N)

def _run_rto(case, ctx):
    import cuqi
    cfg = _cfg(case)
    rs = core.np_rng(ctx.seed, PROPERTY, core.canon(case))
    prob = _gen_rto_problem(cuqi, case, rs)
    if prob is None:
        ctx.inconclusive("generator could not produce a posterior with bounded condition number")
        return
    n = case["n"]
    sA, sB = _states(rs, n, prob["xm"], prob["C"])
    kind, val = core.outcome(_build_rto, cuqi, case, prob, sA.copy(), refusal=_BUILD_REFUSALS)
    if kind == "refused":
        ctx.refused("build:" + cfg["prior"] + ":" + cfg.get("prior_form", cfg.get("bc", "")) + ":" + cfg.get("prior_mean", ""), val)
        ctx.count("build_refused")
        ctx.note("refusal", repr(val))
        return
    if kind == "crashed":
        raise val
    sampler = val
    drawer = ExpDrawer(ctx, cfg, sampler) if case["iface"] == "exp" else LegacyDrawer(ctx, cfg, sampler)
    # a refusal may also surface at the first transition (lazy evaluation of the inputs)
    kind, val = core.outcome(drawer.draw, sA, None, refusal=_BUILD_REFUSALS)
    if kind == "refused":
        ctx.refused("first_step:" + cfg["prior"] + ":" + cfg.get("prior_form", cfg.get("bc", "")) + ":" + cfg.get("prior_mean", ""), val)
        ctx.count("build_refused")
        ctx.note("refusal", repr(val))
        return
    if kind == "crashed":
        raise val
    drawer.N = None
    if case.get("lite") and getattr(sampler, "M", None) is not None:
        _lite_readoff(ctx, cfg, drawer, sampler, prob, rs, (sA, sB), n)
        _inputs_unchanged(ctx, cfg, prob)
        ctx.note("cond_H", prob["cond"]); ctx.nontrivial()
        return
    res = _read_affine(ctx, cfg, drawer, prob["xm"], prob["C"], rs, (sA, sB), "rto", prob["cond"])
    if res is None:
        return
    _inputs_unchanged(ctx, cfg, prob)
    x0, B, ok, tol_x = res
    N = drawer.N
    # chains produced by the public sample(): consecutive draws follow the same affine map
    K = 3
    g = rs.standard_normal((K, N))
    X = drawer.draw(sB, g.ravel(), steps=K)
    tol_x = max(tol_x, _xtol(max(float(np.max(np.abs(prob["xm"]))), float(np.sqrt(np.max(np.diag(prob["C"]))))), prob["cond"],
                             float(np.linalg.norm(sB - prob["xm"])) + 40.0 * float(np.sqrt(np.max(np.diag(prob["C"])))) * np.sqrt(n),
                             float(np.max(np.abs(sB))) + float(np.max(np.abs(x0))) + float(np.max(np.abs(B))) * 10, drawer.loosest_tol))
    bscale = max(float(np.max(np.abs(x0))), float(np.max(np.abs(B))), 1e-300) * max(1.0, float(np.max(np.abs(g))))
    for j in range(K):
        ctx.count("rto_chain_draws_checked")
        if X.shape != (case["n"], K) or not ctx.close(X[:, j], x0 + B @ g[j], rtol=0.0, atol=RTOL * bscale + (2.0 + float(np.sum(np.abs(g[j])))) * tol_x):
            ctx.violation("rto_chain_draw_mismatch", cfg,
                          detail=f"draw {j} of a {K}-step sample() run differs from xbar + B e_{j}: "
                                 f"{'shape ' + str(X.shape) if X.shape != (case['n'], K) else np.max(np.abs(X[:, j] - x0 - B @ g[j]))}")
            break
    if drawer.bad:
        ctx.inconclusive(drawer.bad)
    _check_stacked(ctx, cfg, sampler, n, prob["H"], prob["rhs"], rs)
    ctx.note("cond_H", prob["cond"])
    ctx.note("N_perturbation", N)
    ctx.nontrivial()

# --------------------------------------------------------------------------- UGLA

def _run_ugla(case, ctx):
    import cuqi
    D_ = cuqi.distribution
    rs = core.np_rng(ctx.seed, PROPERTY, core.canon(case))
    n, N1, pd, bc, m = case["n"], case["N"], case["pd"], case["bc"], case["m"]
    Dm = S.diff_op(N1, bc, 1, pd)
    beta = case["beta"]
    mkgeom = lambda: cuqi.geometry.Continuous1D(N1) if pd == 1 else cuqi.geometry.Image2D((N1, N1))
    for attempt in range(6):
        scale = float(rs.choice([0.05, 0.3, 2.0]))
        if case["loc"] == "zero":
            loc_lib, loc = 0, np.zeros(n)
        elif case["loc"] == "zero_vec":
            loc_lib, loc = np.zeros(n), np.zeros(n)
        elif case["loc"] == "scalar":
            loc_lib = float(rs.choice([0.8, -1.5])); loc = np.full(n, loc_lib)
        else:
            loc_lib = rs.standard_normal(n) * 1.5; loc = loc_lib.copy()
        A, model = _gen_model(cuqi, rs, case["model"], m, n, mkgeom())
        fam, val, P = _gen_form(rs, case["noise"], m, float(rs.choice([0.05, 0.3, 1.0])))
        d = A @ (loc + rs.standard_normal(n)) + rs.standard_normal(m)
        if case["state"] == "zero":
            states = [np.zeros(n), rs.standard_normal(n)]
        elif case["state"] == "flat":
            states = [np.full(n, 1.7), loc + rs.standard_normal(n) * 0.01]
        else:
            states = [rs.standard_normal(n) * 2, loc + rs.standard_normal(n) * 0.3]
        refs = [G.ugla_local(A, P, d, Dm, loc, scale, beta, xk) for xk in states]
        if max(float(np.linalg.cond(r[2])) for r in refs) <= COND_MAX:
            break
    else:
        ctx.inconclusive("generator could not produce a UGLA problem with bounded condition number")
        return
    d_loc = "nonzero" if np.max(np.abs(Dm @ loc)) > 1e-12 else "zero"
    cfg = {**_cfg(case), "D_loc": d_loc}
    geom = mkgeom()
    sa = _solver_args(m + Dm.shape[0])

    def build():
        x = D_.LMRF(loc_lib, scale, bc_type=bc, geometry=geom, name="x")
        y = D_.Gaussian(model @ x, **{fam: val}, name="y")
        post = D_.JointDistribution(x, y)(y=d.copy())
        if case["iface"] == "exp":
            s = cuqi.experimental.mcmc.UGLA(post, initial_point=states[0].copy(), beta=beta, **sa)
            s.initialize()
            return s, None
        if case["iface"] == "legacy_rng":
            holder = FeedHolder()
            return cuqi.sampler.UGLA(post, x0=states[0].copy(), beta=beta, rng=ScriptedRNG(normal=holder), **sa), holder
        return cuqi.sampler.UGLA(post, x0=states[0].copy(), beta=beta, **sa), None

    kind, val2 = core.outcome(build, refusal=_BUILD_REFUSALS)
    if kind == "refused":
        ctx.refused("build:ugla:" + case["loc"], val2); ctx.count("build_refused"); ctx.note("refusal", repr(val2))
        return
    if kind == "crashed":
        raise val2
    sampler, holder = val2
    for si, (xk, (xm, C, H, rhs)) in enumerate(zip(states, refs)):
        drawer = ExpDrawer(ctx, cfg, sampler) if case["iface"] == "exp" else LegacyDrawer(ctx, cfg, sampler, holder)
        # the local Gaussian depends on the current state: every transition of this read-off starts at x_k
        res = _read_affine(ctx, cfg, drawer, xm, C, rs, (xk, xk), "ugla", float(np.linalg.cond(H)), check_state_indep=False)
        if res is None:
            return
        if case["iface"] == "exp":
            # sampler.M now refers to the approximation at x_k (last transition started there)
            _check_stacked(ctx, cfg, sampler, n, H if d_loc == "zero" else None, rhs if d_loc == "zero" else None, rs, tag="stacked")
    ctx.note("D_loc", d_loc)
    ctx.nontrivial()

# --------------------------------------------------------------------------- re-use histories

def _likelihood_dists(post):
    """The noise distribution objects the posterior actually holds."""
    liks = post.likelihoods if hasattr(post, "likelihoods") else [post.likelihood]
    return [l.distribution for l in liks]

def _stage2(cuqi, case, sampler1, post, x, ys, ds, x_init, make):
    """Second use after the in-place re-assignment. Returns the sampler to judge."""
    st = case["stage2"]
    if st == "reinitialize":                      # same (experimental) sampler, public reinitialize()
        sampler1.reinitialize()
        return sampler1
    if case["post2"] == "rebuilt":                # a new Posterior around the very same prior / noise objects
        post2 = _build_posterior(cuqi, "direct", x, ys, ds) if case["sampler"] == "rto" else cuqi.distribution.Posterior(ys[0].to_likelihood(ds[0].copy()), x)
    else:
        post2 = post
    if st == "retarget":                          # same (experimental) sampler, target re-assigned, then reinitialize()
        sampler1.target = post2
        sampler1.reinitialize()
        return sampler1
    return make(case["iface2"], post2, x_init)    # a second sampler (either interface)

def _run_reuse_rto(case, ctx):
    import cuqi
    cfg = {**_cfg({**case, "kind": "rto", "iface": case["iface2"], "build": "direct"}), "history": case["mutate"],
           "stage2": case["stage2"], "post2": case["post2"], "iface1": case["iface1"]}
    rs = core.np_rng(ctx.seed, PROPERTY, core.canon(case))
    prob = _gen_rto_problem(cuqi, case, rs)
    if prob is None:
        ctx.inconclusive("generator could not produce a posterior with bounded condition number"); return
    n, p = case["n"], case["prior"]
    sa = _solver_args(sum(l["m"] for l in case["liks"]) + 3 * n)
    sA, sB = _states(rs, n, prob["xm"], prob["C"])
    make = lambda iface, post, x_init: _make_rto(cuqi, iface, post, x_init, sa)

    def stage1():
        x, ys = _build_dists(cuqi, prob)
        post = _build_posterior(cuqi, "direct", x, ys, prob["ds"])
        return x, ys, post, make(case["iface1"], post, sA.copy())
    kind, val = core.outcome(stage1, refusal=_BUILD_REFUSALS)
    if kind == "refused":
        ctx.refused("build:reuse:" + cfg["prior"] + ":" + cfg.get("prior_form", cfg.get("bc", "")), val); ctx.count("build_refused"); return
    if kind == "crashed":
        raise val
    x, ys, post, s1 = val
    d1 = ExpDrawer(ctx, cfg, s1) if case["iface1"] == "exp" else LegacyDrawer(ctx, cfg, s1)
    # ---- first use (fills whatever the objects cache); judged on its offset only
    x0 = d1.draw(sA, None)
    sd = float(np.sqrt(np.max(np.diag(prob["C"]))))
    tol1 = _xtol(max(float(np.max(np.abs(prob["xm"]))), sd), prob["cond"], float(np.linalg.norm(sA - prob["xm"])) + 20 * sd * np.sqrt(n),
                 float(np.max(np.abs(sA))) + float(np.max(np.abs(prob["xm"]))) + 20 * sd, d1.loosest_tol)
    ctx.count("reuse_stage1_mean_checked")
    if not ctx.close(x0, prob["xm"], rtol=0.0, atol=tol1):
        ctx.violation("rto_mean_mismatch", {**cfg, "stage": 1}, detail=f"first use: zero-perturbation draw off by {np.max(np.abs(x0 - prob['xm'])):.3g} (sd {sd:.3g})")
    # ---- in-place re-assignment on the objects the posterior holds, new closed form
    mut = case["mutate"]
    new = None
    for attempt in range(6):
        P0, mu, Ps = prob["P0"], prob["mu"], list(prob["Ps"])
        if mut == "prior_mean":
            if p["mean"] == "scalar":
                v = float(rs.choice([-0.4, 1.9, 3.1])); mu = np.full(n, v)
            else:
                v = rs.standard_normal(n) * 2 * 10.0 ** (p.get("k", 0) / 2.0); mu = v.copy()
            action = lambda v=v: setattr(post.prior, "mean", v)
        elif mut == "prior_matrix":
            if p["kind"] == "gmrf":
                delta = float(rs.choice([0.2, 1.5, 8.0, 40.0])) * 10.0 ** (-p.get("k", 0)); P0 = delta * prob["gmrf_P1"]
                action = lambda delta=delta: setattr(post.prior, "prec", delta)
            else:
                fam, v, P0 = _gen_form(rs, p["form"], n, float(rs.choice([0.1, 0.6, 3.0])) * 10.0 ** p.get("k", 0))
                action = lambda fam=fam, v=v: setattr(post.prior, fam, v)
        else:                                   # noise_matrix of the last likelihood
            j = len(case["liks"]) - 1
            fam, v, Pj = _gen_form(rs, case["liks"][j]["noise"], case["liks"][j]["m"], float(rs.choice([0.02, 0.5, 2.5])) * 10.0 ** case["liks"][j].get("k", 0))
            Ps[j] = Pj
            action = lambda fam=fam, v=v, j=j: setattr(_likelihood_dists(post)[j], fam, v)
        xm2, C2, H2, rhs2 = G.posterior(prob["As"], Ps, prob["ds"], P0, mu)
        if float(np.linalg.cond(H2)) <= COND_MAX:
            new = (xm2, C2, H2, rhs2); break
    if new is None:
        ctx.inconclusive("generator could not produce a re-assigned posterior with bounded condition number"); return
    xm2, C2, H2, rhs2 = new
    kind, val = core.outcome(action, refusal=_BUILD_REFUSALS)
    if kind == "refused":
        ctx.refused("reassign:" + mut, val); ctx.count("build_refused"); return
    if kind == "crashed":
        raise val
    moved = float(np.max(np.abs(xm2 - prob["xm"]))) / sd
    kind, val = core.outcome(_stage2, cuqi, case, s1, post, x, ys, prob["ds"], sA.copy(), make, refusal=_BUILD_REFUSALS)
    if kind == "refused":
        ctx.refused("stage2:" + case["stage2"], val); ctx.count("build_refused"); return
    if kind == "crashed":
        raise val
    s2 = val
    d2 = ExpDrawer(ctx, cfg, s2) if isinstance(s2, cuqi.experimental.mcmc.LinearRTO) else LegacyDrawer(ctx, cfg, s2)
    sA2, sB2 = _states(rs, n, xm2, C2)
    res = _read_affine(ctx, cfg, d2, xm2, C2, rs, (sA2, sB2), "rto", float(np.linalg.cond(H2)))
    if res is None:
        return
    _check_stacked(ctx, cfg, s2, n, H2, rhs2, rs)
    ctx.count("reuse_histories_checked")
    ctx.note("posterior_mean_moved_in_sd", moved)
    ctx.nontrivial()

def _run_reuse_ugla(case, ctx):
    import cuqi
    D_ = cuqi.distribution
    rs = core.np_rng(ctx.seed, PROPERTY, core.canon(case))
    n, N1, pd, bc, m, beta = case["n"], case["N"], case["pd"], case["bc"], case["m"], case["beta"]
    Dm = S.diff_op(N1, bc, 1, pd)
    mkgeom = lambda: cuqi.geometry.Continuous1D(N1) if pd == 1 else cuqi.geometry.Image2D((N1, N1))
    mut = case["mutate"]
    for attempt in range(8):
        scale = float(rs.choice([0.05, 0.3, 2.0]))
        loc_lib = float(rs.choice([0.8, -1.5])) if case["loc"] == "scalar" else 0
        A, model = _gen_model(cuqi, rs, case["model"], m, n, mkgeom())
        fam, val, P = _gen_form(rs, case["noise"], m, float(rs.choice([0.05, 0.3, 1.0])))
        d = A @ (loc_lib + rs.standard_normal(n)) + rs.standard_normal(m)
        xk = rs.standard_normal(n) * 2
        scale2, loc2, P2, action_spec = scale, loc_lib, P, None
        if mut == "lmrf_scale":
            scale2 = float(rs.choice([v for v in (0.02, 0.15, 0.9, 4.0) if v != scale])); action_spec = ("prior", "scale", scale2)
        elif mut == "lmrf_location":
            loc2 = float(rs.choice([0.3, -2.2, 1.1])); action_spec = ("prior", "location", loc2)
        else:
            fam, v2, P2 = _gen_form(rs, case["noise"], m, float(rs.choice([0.02, 0.6, 2.0]))); action_spec = ("noise", fam, v2)
        r1 = G.ugla_local(A, P, d, Dm, np.full(n, float(loc_lib)), scale, beta, xk)
        r2 = G.ugla_local(A, P2, d, Dm, np.full(n, float(loc2)), scale2, beta, xk)
        if max(float(np.linalg.cond(r1[2])), float(np.linalg.cond(r2[2]))) <= COND_MAX:
            break
    else:
        ctx.inconclusive("generator could not produce a UGLA re-use problem with bounded condition number"); return
    d_loc = "nonzero" if max(np.max(np.abs(Dm @ np.full(n, float(loc_lib)))), np.max(np.abs(Dm @ np.full(n, float(loc2))))) > 1e-12 else "zero"
    cfg = {"sampler": "UGLA", "iface": case["iface2"], "iface1": case["iface1"], "loc": case["loc"], "bc": bc, "pd": pd, "D_loc": d_loc,
           "history": mut, "stage2": case["stage2"], "post2": case["post2"]}
    sa = _solver_args(m + Dm.shape[0])
    def make(iface, post, x_init):
        if iface == "exp":
            s = cuqi.experimental.mcmc.UGLA(post, initial_point=x_init, beta=beta, **sa); s.initialize(); return s
        return cuqi.sampler.UGLA(post, x0=x_init, beta=beta, **sa)
    def stage1():
        x = D_.LMRF(loc_lib, scale, bc_type=bc, geometry=mkgeom(), name="x")
        y = D_.Gaussian(model @ x, **{fam: val}, name="y")
        post = D_.Posterior(y.to_likelihood(d.copy()), x)
        return x, y, post, make(case["iface1"], post, xk.copy())
    kind, v = core.outcome(stage1, refusal=_BUILD_REFUSALS)
    if kind == "refused":
        ctx.refused("build:reuse:ugla", v); ctx.count("build_refused"); return
    if kind == "crashed":
        raise v
    x, y, post, s1 = v
    d1 = ExpDrawer(ctx, cfg, s1) if case["iface1"] == "exp" else LegacyDrawer(ctx, cfg, s1)
    x0 = d1.draw(xk, None)
    ctx.count("reuse_stage1_mean_checked")
    sd = float(np.sqrt(np.max(np.diag(r1[1]))))
    tol1 = _xtol(max(float(np.max(np.abs(r1[0]))), sd), float(np.linalg.cond(r1[2])), float(np.linalg.norm(xk - r1[0])) + 20 * sd * np.sqrt(n),
                 float(np.max(np.abs(xk))) + float(np.max(np.abs(r1[0]))) + 20 * sd, d1.loosest_tol)
    if not ctx.close(x0, r1[0], rtol=0.0, atol=tol1):
        ctx.violation("ugla_mean_mismatch", {**cfg, "stage": 1}, detail=f"first use: zero-perturbation draw off by {np.max(np.abs(x0 - r1[0])):.3g} (sd {sd:.3g})")
    who, attr, newval = action_spec
    target_obj = post.prior if who == "prior" else post.likelihood.distribution
    kind, v = core.outcome(setattr, target_obj, attr, newval, refusal=_BUILD_REFUSALS)
    if kind == "refused":
        ctx.refused("reassign:" + mut, v); ctx.count("build_refused"); return
    if kind == "crashed":
        raise v
    kind, v = core.outcome(_stage2, cuqi, case, s1, post, x, [y], [d], xk.copy(), make, refusal=_BUILD_REFUSALS)
    if kind == "refused":
        ctx.refused("stage2:" + case["stage2"], v); ctx.count("build_refused"); return
    if kind == "crashed":
        raise v
    s2 = v
    d2 = ExpDrawer(ctx, cfg, s2) if isinstance(s2, cuqi.experimental.mcmc.UGLA) else LegacyDrawer(ctx, cfg, s2)
    res = _read_affine(ctx, cfg, d2, r2[0], r2[1], rs, (xk, xk), "ugla", float(np.linalg.cond(r2[2])), check_state_indep=False)
    if res is None:
        return
    ctx.count("reuse_histories_checked")
    ctx.note("posterior_mean_moved_in_sd", float(np.max(np.abs(r2[0] - r1[0]))) / sd)
    ctx.nontrivial()

# --------------------------------------------------------------------------- far current states

def _scripted_call(fn, e):
    feed = Feed(e)
    with Scripted(normal=feed):
        with SolverWatch() as w:
            out = fn()
    return out, feed, w

def _far_transition(cuqi, case, make, far, e, near, e_pre=None):
    """One transition that starts at the far state, reached the way the descriptor says. `make(x_init)` builds a sampler.
    Returns (start state actually used, next state)."""
    iface, via = case["iface"], case["via"]
    flat = None if e is None else np.asarray(e, dtype=float).ravel()
    if via == "preceding":                       # a first (scripted) step lands far away, the judged step starts there
        s = make(near.copy())
        both = np.concatenate([e_pre, np.zeros_like(e_pre) if flat is None else flat])
        if iface == "exp":
            s.current_point = near.copy()
            def run():
                n0 = len(s._samples); s.sample(2)
                X = np.asarray(s.get_samples().samples)[:, n0:n0 + 2]; return X
        else:
            s.x0 = near.copy()
            def run():
                return np.asarray(s.sample(3).samples)[:, 1:3]
        X, feed, w = _scripted_call(run, both)
        return np.array(X[:, 0], dtype=float), np.array(X[:, 1], dtype=float), w, s
    if iface == "exp":
        if via == "init":
            s = make(far.copy())
        else:
            s = make(near.copy())
            if via == "set_state":
                st = s.get_state(); st["state"]["current_point"] = far.copy(); s.set_state(st)
            else:
                s.current_point = far.copy()
        def run():
            s.step(); return np.asarray(s.current_point, dtype=float).ravel()
    else:
        s = make(far.copy() if via == "init" else near.copy())
        if via == "attr":
            s.x0 = far.copy()
        if via == "step":
            def run():
                return np.asarray(s.step(far.copy()), dtype=float).ravel()
        else:
            def run():
                return np.asarray(s.sample(2).samples, dtype=float)[:, -1]
    x, feed, w = _scripted_call(run, flat)
    return far, np.array(x, dtype=float), w, s

def _far_judge(ctx, cfg, H, x_start, x_star, x, tol, w, what):
    """CGLS's documented stopping rule: |A^T(b - A x_k)| <= tol |A^T(b - A x_0)|, i.e. |H (x_k - x*)| <= tol |H (x_0 - x*)|.
    The draw from a far start must honour it (10x slack) up to the rounding floor of iterates of size |x_0|."""
    ctx.count("far_state_draws_checked")
    r0 = float(np.linalg.norm(H @ (x_start - x_star)))
    rk = float(np.linalg.norm(H @ (x - x_star)))
    floor = 1e3 * EPS * float(np.linalg.norm(H, 2)) * (float(np.linalg.norm(x_start)) + float(np.linalg.norm(x_star))) * np.sqrt(len(x))
    ctx.note("far_residual_ratio", rk / max(r0, 1e-300))
    if w.diverged():
        ctx.count("far_state_solver_norm_exit")
    if not np.all(np.isfinite(x)) or rk > 10.0 * tol * r0 + floor:
        ctx.violation("far_state_draw_off", cfg,
                      detail=f"{what}: |H(x-x*)| = {rk:.3g} > 10*tol*|H(x0-x*)| + floor = {10 * tol * r0 + floor:.3g} (tol {tol:g}, |x0| {np.linalg.norm(x_start):.3g}, "
                             f"|x*| {np.linalg.norm(x_star):.3g}, solver calls {[(c['k'], c['maxit']) for c in w.calls][:3]})")

def _run_far(case, ctx):
    import cuqi
    cfg = _cfg(case)
    rs = core.np_rng(ctx.seed, PROPERTY, core.canon(case))
    tol, F = float(case["tol"]), 10.0 ** case["logF"]
    kind = case["sampler"]
    if kind == "ugla":
        n, N1, bc, m, beta = case["n"], case["N"], case["bc"], case["m"], case["beta"]
        Dm = S.diff_op(N1, bc, 1, 1)
        A, model = _gen_model(cuqi, rs, case["model"], m, n, cuqi.geometry.Continuous1D(N1))
        fam, val, P = _gen_form(rs, case["noise"], m, float(rs.choice([0.05, 0.3, 1.0])))
        scale_b = float(rs.choice([0.05, 0.3, 2.0]))
        d = A @ rs.standard_normal(n) + rs.standard_normal(m)
        rho = max(float(np.linalg.norm(np.linalg.lstsq(A, d, rcond=None)[0])), 1.0)
        u = rs.standard_normal(n); far = F * rho * u / np.linalg.norm(u)
        xm, C, H, rhs = G.ugla_local(A, P, d, Dm, np.zeros(n), scale_b, beta, far)
        if float(np.linalg.cond(H)) > COND_MAX:
            ctx.inconclusive("far-state UGLA problem too ill conditioned"); return
        Ntot = m + Dm.shape[0]
        def make(x_init):
            x = cuqi.distribution.LMRF(0, scale_b, bc_type=bc, geometry=cuqi.geometry.Continuous1D(N1), name="x")
            y = cuqi.distribution.Gaussian(model @ x, **{fam: val}, name="y")
            post = cuqi.distribution.JointDistribution(x, y)(y=d.copy())
            if case["iface"] == "exp":
                sm = cuqi.experimental.mcmc.UGLA(post, initial_point=x_init, beta=beta, maxit=10 * Ntot + 200, tol=tol); sm.initialize(); return sm
            return cuqi.sampler.UGLA(post, x0=x_init, beta=beta, maxit=10 * Ntot + 200, tol=tol)
        near = rs.standard_normal(n)
        kindo, res = core.outcome(_far_transition, cuqi, case, make, far, None, near, refusal=())
        if kindo != "value":
            ctx.count("far_state_draws_checked")
            ctx.violation("far_state_step_raised", {**cfg, "exc": type(res).__name__}, detail=f"a transition from a current state of norm {np.linalg.norm(far):.3g} (draw scale {rho:.3g}) raised {res!r}")
            ctx.nontrivial(); return
        x_start, x, w, sm = res
        _far_judge(ctx, cfg, H, x_start, xm, x, tol, w, "UGLA zero perturbation")
        ctx.nontrivial(); return

    # ---- LinearRTO / RegularizedLinearRTO
    n = case["n"]
    gcase = {**case, "prior": ({**case["prior"], "kind": "gaussian"} if kind == "regrto" else case["prior"])}
    prob = _gen_rto_problem(cuqi, gcase, rs)
    if prob is None or (kind == "regrto" and prob["cond"] > 50):
        prob = None
        for _ in range(8):
            q = _gen_rto_problem(cuqi, gcase, rs)
            if q is not None and (kind != "regrto" or q["cond"] <= 50):
                prob = q; break
        if prob is None:
            ctx.inconclusive("generator could not produce a suitable far-state problem"); return
    xm, H = prob["xm"], prob["H"]
    sd = float(np.sqrt(np.max(np.diag(prob["C"]))))
    rho = max(float(np.linalg.norm(xm)), sd * np.sqrt(n))
    u = rs.standard_normal(n); far = F * rho * u / np.linalg.norm(u)
    near = xm + sd * rs.standard_normal(n)
    Ntot = sum(l["m"] for l in case["liks"]) + 3 * n
    if kind == "rto":
        def make(x_init):
            x, ys = _build_dists(cuqi, prob)
            post = _build_posterior(cuqi, "direct", x, ys, prob["ds_lib"])
            return _make_rto(cuqi, case["iface"], post, x_init, {"maxit": 10 * Ntot + 200, "tol": tol})
        probe = make(near.copy())
        Mm = _check_stacked(ctx, cfg, probe, n, H, prob["rhs"], rs)
        if Mm is None:
            ctx.inconclusive("stacked operator not observable"); return
        e_pre = Mm @ (far - xm)                                 # x(e) = xm + H^-1 M^T e  ->  exactly the far state
        for j in range(2):
            g = None if j == 0 else rs.standard_normal(Mm.shape[0])
            x_star = xm if g is None else xm + np.linalg.solve(H, Mm.T @ g)
            kindo, res = core.outcome(_far_transition, cuqi, case, make, far, g, near, e_pre, refusal=())
            if kindo != "value":
                ctx.count("far_state_draws_checked")
                ctx.violation("far_state_step_raised", {**cfg, "exc": type(res).__name__}, detail=f"a transition from a current state of norm {np.linalg.norm(far):.3g} (draw scale {rho:.3g}) raised {res!r}")
                break
            x_start, x, w, sm = res
            # the judged step starts wherever the preceding step actually landed (its own accuracy is tol-limited)
            if case["via"] == "preceding" and not np.linalg.norm(x_start) >= 0.5 * np.linalg.norm(far):
                ctx.inconclusive("preceding step did not land far away"); break
            _far_judge(ctx, cfg, H, x_start, x_star, x, tol, w, "LinearRTO " + ("zero perturbation" if g is None else "random perturbation"))
        ctx.nontrivial(); return

    # RegularizedLinearRTO (nonnegativity): proximal gradient without momentum is a contraction with factor q = 1 - step*lambda_min,
    # so the documented stop |x_{k+1}-x_k| <= abstol guarantees |x_k - x*| <= abstol / (step*lambda_min)
    from scipy.optimize import nnls
    lam = np.linalg.eigvalsh(H)
    step = 0.99 / float(lam[-1])
    abstol = tol * rho
    fam, val = prob["prior_kw"], prob["prior_val"]
    def make(x_init):
        x = cuqi.implicitprior.RegularizedGaussian(prob["mu_lib"], **{fam: val}, constraint="nonnegativity", geometry=n, name="x")
        ys = [cuqi.distribution.Gaussian(model @ x, **{f2: v2}, name=f"y{j}") for j, (model, (f2, v2)) in enumerate(zip(prob["mods"], prob["noise"]))]
        post = cuqi.distribution.JointDistribution(x, *ys)(**{f"y{j}": dd.copy() for j, dd in enumerate(prob["ds"])})
        kw = dict(maxit=200000, stepsize=step, abstol=abstol, adaptive=False)
        if case["iface"] == "exp":
            sm = cuqi.experimental.mcmc.RegularizedLinearRTO(post, initial_point=x_init, **kw); sm.initialize(); return sm
        sm = cuqi.sampler.RegularizedLinearRTO(post, x0=x_init, **kw)
        sm.maxit = 200000                                        # the legacy constructor pins maxit=100
        return sm
    kindo, res = core.outcome(make, near.copy(), refusal=_BUILD_REFUSALS)
    if kindo == "refused":
        ctx.refused("build:regrto", res); ctx.count("build_refused"); return
    if kindo == "crashed":
        raise res
    # reference: non-negative least squares of the whitened stacked system (any square roots give the same objective)
    Ls = [np.linalg.cholesky(Pj).T for Pj in prob["Ps"]] + [np.linalg.cholesky(prob["P0"]).T]
    Mref = np.vstack([L @ A for L, A in zip(Ls[:-1], prob["As"])] + [Ls[-1]])
    bref = np.concatenate([L @ dd for L, dd in zip(Ls[:-1], prob["ds"])] + [Ls[-1] @ prob["mu"]])
    x_star, _ = nnls(Mref, bref, maxiter=50 * n + 200)
    class _W:                                                     # FISTA is not CGLS: nothing to watch
        calls = []
        def diverged(self): return []
    kindo, res = core.outcome(_far_transition, cuqi, case, make, np.abs(far), None, np.abs(near), refusal=())
    ctx.count("far_state_draws_checked")
    if kindo != "value":
        ctx.violation("far_state_step_raised", {**cfg, "exc": type(res).__name__}, detail=f"a transition from a current state of norm {np.linalg.norm(far):.3g} raised {res!r}")
        ctx.nontrivial(); return
    x_start, x, w, sm = res
    bound = 10.0 * abstol / (step * float(lam[0])) + 1e3 * EPS * float(np.linalg.norm(far)) * float(lam[-1] / lam[0])
    ctx.note("far_reg_err_over_bound", float(np.linalg.norm(x - x_star)) / bound)
    if not np.all(np.isfinite(x)) or np.linalg.norm(x - x_star) > bound:
        ctx.violation("far_state_draw_off", cfg, detail=f"RegularizedLinearRTO zero perturbation from |x0|={np.linalg.norm(far):.3g}: |x - nnls| = {np.linalg.norm(x - x_star):.3g} > {bound:.3g} "
                                                         f"(abstol {abstol:.3g}, step*lambda_min {step * lam[0]:.3g})")
    ctx.nontrivial()

def run_case(case, ctx):
    if case["kind"] == "far":
        _run_far(case, ctx)
    elif case["kind"] == "reuse":
        (_run_reuse_rto if case["sampler"] == "rto" else _run_reuse_ugla)(case, ctx)
    elif case["kind"] == "rto":
        _run_rto(case, ctx)
    else:
        _run_ugla(case, ctx)

# --------------------------------------------------------------------------- reference self test

def selftest(ctx):
    rs = np.random.RandomState(12345)
    for trial in range(20):
        n = int(rs.randint(2, 7))
        k = int(rs.randint(1, 4))
        As = [rs.standard_normal((int(rs.randint(1, 7)), n)) for _ in range(k)]
        Ps = [np.linalg.inv(_spd(rs, A.shape[0], 0.5)) for A in As]
        ds = [rs.standard_normal(A.shape[0]) for A in As]
        P0 = np.linalg.inv(_spd(rs, n, 2.0)); mu = rs.standard_normal(n)
        m1, C1, H, rhs = G.posterior(As, Ps, ds, P0, mu)
        m2, C2 = G.posterior_kalman(As, Ps, ds, P0, mu)
        if not (np.allclose(m1, m2, rtol=1e-9, atol=1e-11) and np.allclose(C1, C2, rtol=1e-9, atol=1e-11)):
            ctx.inconclusive("reference: information form and covariance form of the posterior disagree")
        # maximiser of the log posterior: gradient vanishes at the mean
        grad = -P0 @ (m1 - mu) + sum(A.T @ P @ (d - A @ m1) for A, P, d in zip(As, Ps, ds))
        if np.max(np.abs(grad)) > 1e-8 * max(1.0, np.max(np.abs(rhs))):
            ctx.inconclusive("reference: posterior mean is not a stationary point of the log posterior")
    # the four input forms describe the same Gaussian
    for trial in range(10):
        n = int(rs.randint(2, 6))
        Cv = _spd(rs, n, 1.3)
        P = np.linalg.inv(Cv)
        w, V = np.linalg.eigh(Cv)
        Rs = (V * np.sqrt(w)) @ V.T                       # symmetric sqrt of cov
        Rp = np.linalg.cholesky(P).T                      # R^T R = P
        for fam, val in (("cov", Cv), ("prec", P), ("sqrtcov", Rs), ("sqrtprec", Rp), ("sqrtprec", _orth(rs, n) @ Rp)):
            if not np.allclose(G.precision_from_form(fam, val, n), P, rtol=1e-9, atol=1e-11):
                ctx.inconclusive(f"reference: precision_from_form({fam}) inconsistent")
        for fam, val, Pd in (("cov", 2.0, np.eye(n) / 2), ("prec", np.arange(1, n + 1.0), np.diag(np.arange(1, n + 1.0))),
                             ("sqrtcov", 2.0, np.eye(n) / 4), ("sqrtprec", np.arange(1, n + 1.0), np.diag(np.arange(1, n + 1.0) ** 2))):
            if not np.allclose(G.precision_from_form(fam, val, n), Pd):
                ctx.inconclusive(f"reference: scalar/vector {fam} inconsistent")
    # UGLA: the local Gaussian is tangent to the smoothed Laplace prior at x_k (equal gradients there),
    # checked against central finite differences of (1/b) sum sqrt(t^2+beta)
    for trial in range(10):
        N = int(rs.randint(3, 7)); bc = BCS[trial % 3]
        D = S.diff_op(N, bc, 1, 1)
        xk, loc = rs.standard_normal(N), rs.standard_normal(N)
        b, beta = 0.3, 1e-2
        P0 = G.ugla_prior_precision(D, xk, loc, b, beta)
        g_gauss = P0 @ (xk - loc)
        f = lambda x: np.sum(np.sqrt((D @ (x - loc)) ** 2 + beta)) / b
        g_fd = np.array([(f(xk + 1e-6 * e) - f(xk - 1e-6 * e)) / 2e-6 for e in np.eye(N)])
        if not (np.allclose(g_gauss, g_fd, rtol=1e-5, atol=1e-6) and np.allclose(g_gauss, G.smoothed_l1_gradient(D, xk, loc, b, beta))):
            ctx.inconclusive("reference: UGLA local Gaussian is not tangent to the smoothed Laplace prior")
