"""C14 - chains are continuous, resumable from a checkpoint, and recorded faithfully.

Workload: every sampler of the stateful interface (cuqi.experimental.mcmc: MH, CWMH, PCN, ULA, MALA,
NUTS adaptive/fixed, LinearRTO, RegularizedLinearRTO, UGLA, Conjugate, ConjugateApprox, Direct),
HybridGibbs, every sampler of the stateless interface (cuqi.sampler.*) and the legacy Gibbs sampler,
on small targets they accept, with N, M <= 12, burn-in 0..N-1 (and more), with/without warm-up.

Monitors (all observe real executions of the tree under test):
 * a recording callback (copy of the state + index + the position of the global random stream),
 * a runtime contract on the real ``step`` / ``single_update`` methods: counts transitions, copies the
   state each transition produced and diffs every instance attribute across the transition
   (anything that changed must be in _STATE_KEYS | _HISTORY_KEYS or a per-sampler list of caches that
   are recomputed before use),
 * split-vs-unsplit runs under the identical random stream,
 * for *every* position p of the sampling phase: save_checkpoint at p in the uninterrupted run (from the user
   callback), a freshly constructed sampler of the same configuration, the state handed over by one of three
   routes (load_checkpoint into an uninitialised / an initialised sampler, set_state(get_state())), continue
   from the stream position of p; the dictionary get_state() returned at p must not change afterwards,
 * batches written by sample(..., batch_size=b) are full, consecutive and in order; burnthin() is a slice,
 * stateless interface: returned chain == [x0, states returned by the transitions][Nb:], callback count /
   index / state, x0 untouched, a second call and a call without callback repeat the chain,
 * refused / aborted requests (malformed N, second warm-up, wrong-type checkpoint, unknown state key, double
   initialize, sample without target, a user callback that raises once) interleaved with valid calls in both
   interfaces and both Gibbs drivers: the sampler must be attribute-for-attribute unchanged and the continued
   run must equal its twin without those requests on the same stream,
 * reinitialize() versus a freshly constructed + initialised sampler (attribute by attribute and by the
   chain it then produces).
Oracle: chain bookkeeping in vlib/refs/c14_chain.py (no cuqi import).
"""
import os, pickle, shutil, tempfile, functools
import numpy as np
from vlib import core, contracts
from vlib.refs import c14_chain as R

PROPERTY = "C14"
RULE = ("enumeration of (interface, sampler, target kind, parameter variant, lazy/explicit initialisation, warm-up) "
        "x sampled (dim, N, M, burn-in, earlier samples, tune frequency, batch size, seeds); every stateful case "
        "checkpoints at every position 0..N+M-1 of the "
        "sampling phase. A case is non-trivial when at least one chain comparison (split/checkpoint/callback/"
        "burn-in) was made on a chain with >= 2 distinct states; distinct = distinct descriptors")
ASSUMPTIONS = [
    "identical random stream = identical state of numpy's global generator (all samplers draw from it by attribute "
    "lookup) and scipy.linalg.interpolative reseeded before every sampler initialisation",
    "chains are compared with rtol 1e-9 (bitwise agreement is counted separately)",
    "attributes that change in a transition but are recomputed from saved state before they are read "
    "(NUTS._num_tree_node/_current_alpha_ratio, UGLA._L2/_L2mu/_b_tild) are documented derived caches",
    "legacy Gibbs documents no initial point in its chain and HybridGibbs offers neither callback nor checkpoint; "
    "those clauses are not judged there",
]
REQUIRED_COUNTERS = {
    "quick": {"split_chain_compared": 150, "checkpoint_continuation_compared": 1200, "callback_state_compared": 5000,
              "step_attr_diff_checked": 10000, "reinit_attr_compared": 1500, "stateless_chain_compared": 70,
              "gibbs_split_compared": 150, "saved_state_unaltered_checked": 1200, "gibbs_burnthin_compared": 1500,
              "refused_call_aftermath_compared": 2000, "refusal_twin_chain_compared": 300,
              "long_stateless_callbacks_compared": 2500, "long_stateful_callbacks_compared": 1800},
    "thorough": {"split_chain_compared": 1200, "checkpoint_continuation_compared": 14000, "callback_state_compared": 50000,
                 "step_attr_diff_checked": 150000, "reinit_attr_compared": 15000, "stateless_chain_compared": 600,
                 "gibbs_split_compared": 1300, "saved_state_unaltered_checked": 14000, "gibbs_burnthin_compared": 12000,
                 "refused_call_aftermath_compared": 15000, "refusal_twin_chain_compared": 2500,
                 "long_stateless_callbacks_compared": 10000, "long_stateful_callbacks_compared": 7000},
}
BUDGET_S = {"quick": 240.0, "thorough": 2400.0}

RTOL, ATOL = 1e-9, 1e-12

# attributes that a transition may change although they are neither state nor history: they are
# recomputed from the saved state before being read (see ASSUMPTIONS)
DERIVED_CACHES = {
    "NUTS": {"_num_tree_node", "_current_alpha_ratio"},
    "UGLA": {"_L2", "_L2mu", "_b_tild"},
}

# --------------------------------------------------------------------------- configuration tables

STATEFUL = {
    # sampler: list of (target kind, variant) pairs; variant selects constructor arguments
    "MH": [("gauss", 0), ("gauss", 1), ("userdef", 0), ("post_lin", 1), ("post_nonlin", 0)],
    "CWMH": [("gauss", 0), ("gauss", 1), ("userdef", 0), ("post_lin", 1)],
    "PCN": [("post_lin", 0), ("post_lin", 1), ("post_nonlin", 0), ("post_nonlin", 1)],
    "ULA": [("gauss", 0), ("userdef", 1), ("post_lin", 0)],
    "MALA": [("gauss", 0), ("userdef", 1), ("post_lin", 0)],
    "NUTS": [("gauss", 0), ("gauss", 1), ("userdef", 0), ("userdef", 1), ("post_lin", 0), ("post_lin", 1)],
    "LinearRTO": [("post_lin", 0), ("post_gmrf", 1), ("post_multi", 0)],
    "RegularizedLinearRTO": [("post_reg", 0), ("post_reg", 1), ("post_reggmrf", 0), ("post_reggmrf", 1)],
    "UGLA": [("post_lmrf", 0), ("post_lmrf", 1)],
    "Conjugate": [("conj_cov", 0), ("conj_prec", 0), ("conj_gmrf", 0), ("conj_reg", 0)],
    "ConjugateApprox": [("conj_lmrf", 0)],
    "Direct": [("gauss", 0), ("gamma", 0), ("laplace", 0), ("gmrf", 0)],
}
STATELESS = {
    "MH": [("gauss", 0), ("userdef", 1), ("post_lin", 0)],
    "CWMH": [("gauss", 0), ("userdef", 1), ("post_lin", 0)],
    "pCN": [("post_lin", 0), ("post_nonlin", 1)],
    "ULA": [("gauss", 0), ("userdef", 1)],
    "MALA": [("gauss", 0), ("post_lin", 1)],
    "NUTS": [("gauss", 0), ("userdef", 1), ("post_lin", 2)],
    "LinearRTO": [("post_lin", 0), ("post_gmrf", 1)],
    "RegularizedLinearRTO": [("post_reg", 0), ("post_reg", 1)],
    "UGLA": [("post_lmrf", 0)],
}
HYBRID = ["rto_conj", "rto_conj_steps", "mh_conj", "cwmh_conj", "pcn_conj", "ula_conj", "mala_conj", "nuts_conj",
          "ugla_conjapprox", "regrto_conj", "direct_pair"]
LEGACY_GIBBS = ["rto_conj", "cwmh_conj", "mh_conj", "ugla_conjapprox", "regrto_conj"]


def cases(tier, seed):
    rnd = core.rng_for(seed, PROPERTY, tier)
    reps = 8 if tier == "quick" else 70
    out = []
    for name, variants in STATEFUL.items():
        for (tk, var) in variants:
            for rep in range(reps):
                N, M = rnd.randint(1, 8), rnd.randint(1, 6)
                if tier == "thorough" and rnd.random() < 0.4:
                    N, M = rnd.randint(6, 12), rnd.randint(1, 12)
                out.append({"kind": "stateful", "sampler": name, "target": tk, "variant": var,
                            "dim": rnd.choice([1, 2, 3, 5]), "N": N, "M": M,
                            "Nb": rnd.choice([0, 0, 1, 3, 7, 10, 13]), "lazy": rnd.random() < 0.35,
                            "x0": rnd.random() < 0.6, "tune_freq": rnd.choice([0.1, 0.1, 0.25, 0.5]),
                            "pre": rnd.choice([0, 0, 0, 2, 3]), "Nt": rnd.choice([1, 2, 3]),
                            "batch": rnd.choice([0, 0, 1, 2, 3]),
                            "rep": rep})
    for name, variants in STATELESS.items():
        for (tk, var) in variants:
            for rep in range(reps):
                adapt = rnd.random() < 0.4
                N = rnd.randint(10, 14) if adapt else rnd.randint(1, 12)
                Nb = rnd.choice([0, 0, 1, 2, N - 1, N, N + 3])
                out.append({"kind": "stateless", "sampler": name, "target": tk, "variant": var,
                            "dim": rnd.choice([1, 2, 3, 5]), "N": N, "Nb": Nb, "adapt": adapt,
                            "x0": rnd.random() < 0.7, "Nt": rnd.choice([1, 2, 3]), "rep": rep})
    for strat in HYBRID:
        for rep in range(reps):
            out.append({"kind": "hybrid", "strategy": strat, "N": rnd.randint(1, 6), "M": rnd.randint(1, 5),
                        "Nb": rnd.choice([0, 0, 2, 5]), "dim": rnd.choice([3, 5, 8]), "rep": rep})
    for strat in LEGACY_GIBBS:
        for rep in range(reps):
            out.append({"kind": "legacy_gibbs", "strategy": strat, "N": rnd.randint(1, 6), "M": rnd.randint(1, 5),
                        "Nb": rnd.choice([0, 0, 1, 3]), "dim": rnd.choice([3, 5, 8]), "rep": rep})
    # ---- long chains: progress display / periodic logic switches behaviour at lengths >= 200 (Ns//100 > 1, 0.1*N ...)
    lreps = 1 if tier == "quick" else 4
    LONG = [200, 201, 250, 399, 400, 1000, 1200]
    SHORTER = [200, 250, 399]
    for name, variants in STATELESS.items():
        for adapt in (False, True):
            for rep in range(lreps):
                tk, var = variants[rnd.randrange(len(variants))]
                total = rnd.choice(SHORTER if name in ("NUTS", "RegularizedLinearRTO", "UGLA") else LONG)
                Nb = rnd.choice([0, 7, 100, total // 2, total - 10])
                if name == "NUTS" and Nb == 0:
                    Nb = 50
                out.append({"kind": "stateless", "long": True, "sampler": name, "target": tk, "variant": var,
                            "dim": rnd.choice([1, 2]), "N": total - Nb, "Nb": Nb, "adapt": adapt,
                            "x0": rnd.random() < 0.5, "Nt": 1, "rep": rep})
    for name, variants in STATEFUL.items():
        for rep in range(lreps):
            tk, var = variants[rnd.randrange(len(variants))]
            total = rnd.choice(SHORTER if name in ("NUTS", "RegularizedLinearRTO", "UGLA") else LONG)
            Nb = rnd.choice([0, 10, 100, total // 2, total - 1])
            out.append({"kind": "stateful_long", "sampler": name, "target": tk, "variant": var, "dim": rnd.choice([1, 2]),
                        "N": total - Nb, "Nb": Nb, "x0": rnd.random() < 0.5, "tune_freq": rnd.choice([0.1, 0.01, 0.33]),
                        "batch": rnd.choice([0, 7, 100, 128]), "rep": rep})
    for strat in ("rto_conj", "mh_conj"):
        for rep in range(lreps):
            total = rnd.choice(SHORTER)
            out.append({"kind": "hybrid", "long": True, "strategy": strat, "N": total - 60, "M": 60,
                        "Nb": rnd.choice([0, 100, 205]), "dim": 3, "rep": rep})
    for strat in ("rto_conj", "cwmh_conj"):
        for rep in range(lreps):
            total = rnd.choice(SHORTER)
            out.append({"kind": "legacy_gibbs", "long": True, "strategy": strat, "N": total - 60, "M": 60,
                        "Nb": rnd.choice([0, 100, 205]), "dim": 3, "rep": rep})
    return out


def crash_config(case):
    return {k: case[k] for k in ("kind", "sampler", "target", "strategy") if k in case}

# --------------------------------------------------------------------------- targets

def _spd(rs, n):
    Q, _ = np.linalg.qr(rs.standard_normal((n, n)))
    return (Q * rs.uniform(0.3, 2.0, n)) @ Q.T


def _linear_parts(rs, n, m=None):
    m = m or n + 1
    A = rs.standard_normal((m, n)) / np.sqrt(n) + (np.eye(m, n) if m >= n else 0)
    xt = np.abs(rs.standard_normal(n))
    data = A @ xt + 0.05 * rs.standard_normal(m)
    return A, data


def build_target(kind, variant, dim, rs):
    """Small well-posed target of the requested kind; returns (target, dim)."""
    import cuqi
    D = cuqi.distribution
    n = dim
    if kind == "gauss":
        mean = rs.standard_normal(n)
        cov = rs.uniform(0.3, 2.0, n) if variant == 0 else _spd(rs, n)
        return D.Gaussian(mean, cov, name="x"), n
    if kind == "userdef":
        mu = rs.standard_normal(n)
        a = float(rs.uniform(0.05, 0.3))
        logpdf = lambda x: float(-0.5 * np.sum((np.asarray(x) - mu) ** 2) - a * np.sum(np.asarray(x) ** 4))
        grad = lambda x: -(np.asarray(x) - mu) - 4 * a * np.asarray(x) ** 3
        return D.UserDefinedDistribution(dim=n, logpdf_func=logpdf, gradient_func=grad, name="x"), n
    if kind == "gamma":
        return D.Gamma(float(rs.uniform(1.5, 4)), float(rs.uniform(0.5, 3)), name="x"), 1
    if kind == "laplace":
        return D.Laplace(rs.standard_normal(n), float(rs.uniform(0.3, 2)), name="x"), n
    if kind == "gmrf":
        n = max(n, 3)
        return D.GMRF(rs.standard_normal(n), float(rs.uniform(1, 10)), bc_type="zero", name="x"), n
    if kind in ("post_lin", "post_gmrf", "post_reg", "post_reggmrf", "post_lmrf", "post_multi", "post_nonlin"):
        if kind in ("post_gmrf", "post_reggmrf", "post_lmrf"):
            n = max(n, 3)
        A, data = _linear_parts(rs, n)
        if kind == "post_nonlin":
            fwd = lambda x: A @ (np.asarray(x) + 0.1 * np.asarray(x) ** 3)
            model = cuqi.model.Model(fwd, range_geometry=A.shape[0], domain_geometry=n)
        else:
            model = cuqi.model.LinearModel(A)
        if kind in ("post_lin", "post_multi", "post_nonlin"):
            pm = rs.standard_normal(n) * 0.5 if variant >= 1 or kind == "post_nonlin" else np.zeros(n)
            x = D.Gaussian(pm, float(rs.uniform(0.3, 1.5)), name="x")
        elif kind == "post_gmrf":
            x = D.GMRF(np.zeros(n), float(rs.uniform(1, 10)), bc_type="zero", name="x")
        elif kind == "post_reg":
            x = cuqi.implicitprior.RegularizedGaussian(0.5 * np.ones(n), float(rs.uniform(0.05, 0.5)),
                                                       constraint="nonnegativity", name="x")
        elif kind == "post_reggmrf":
            x = cuqi.implicitprior.RegularizedGMRF(np.zeros(n), float(rs.uniform(1, 10)), constraint="nonnegativity", name="x")
        else:
            x = D.LMRF(0, float(rs.uniform(0.05, 0.5)), geometry=n, name="x")
        s2 = float(rs.uniform(0.01, 0.1))
        if kind == "post_multi":
            A2, data2 = _linear_parts(rs, n, n)
            y1 = D.Gaussian(model @ x, s2, name="y1")
            y2 = D.Gaussian(cuqi.model.LinearModel(A2) @ x, 2 * s2, name="y2")
            return D.JointDistribution(x, y1, y2)(y1=data, y2=data2), n
        y = D.Gaussian(model(x), s2, name="y")
        return D.JointDistribution(x, y)(y=data), n
    if kind.startswith("conj_"):
        m = max(n, 2)
        s = D.Gamma(float(rs.uniform(1, 3)), float(rs.uniform(1e-3, 1.0)), name="s")
        obs = rs.standard_normal(m)
        if kind == "conj_cov":
            y = D.Gaussian(np.zeros(m), lambda s: 1 / s, name="y")
        elif kind == "conj_prec":
            y = D.Gaussian(np.zeros(m), prec=lambda s: s, name="y")
        elif kind == "conj_gmrf":
            m = max(m, 3); obs = rs.standard_normal(m)
            y = D.GMRF(np.zeros(m), lambda s: s, bc_type="zero", name="y")
        elif kind == "conj_reg":
            y = cuqi.implicitprior.RegularizedGaussian(np.zeros(m), lambda s: 1 / s, constraint="nonnegativity", name="y")
            obs = np.abs(obs) * (rs.uniform(size=m) < 0.7)
        elif kind == "conj_lmrf":
            m = max(m, 3); obs = rs.standard_normal(m)
            y = D.LMRF(0, lambda s: 1 / s, geometry=m, name="y")
        else:
            raise KeyError(kind)
        return D.Posterior(y.to_likelihood(obs), s), 1
    raise KeyError(kind)

# --------------------------------------------------------------------------- sampler factories

def _dim_for(name, dim):
    # both CWMH implementations index the proposal draw component-wise and raise IndexError on a
    # one-dimensional target (the draw is 0-dimensional): not a target they accept
    return max(dim, 2) if name == "CWMH" else dim


def stateful_factory(case, rs):
    """Returns make(callback) -> new sampler of the case's configuration (same target object)."""
    import cuqi
    Mx = cuqi.experimental.mcmc
    name, var = case["sampler"], case["variant"]
    target, n = build_target(case["target"], var, _dim_for(name, case["dim"]), rs)
    x0 = None
    if case["x0"]:
        x0 = rs.standard_normal(n) * 0.5
        if name in ("Conjugate", "ConjugateApprox") or case["target"] == "gamma":
            x0 = np.abs(x0) + 0.5
        if case["target"] in ("post_reg", "post_reggmrf"):
            x0 = np.abs(x0)
    kw = {}
    if name == "MH":
        kw["scale"] = [0.8, 0.15][var % 2]
        if var == 1:
            kw["proposal"] = cuqi.distribution.Gaussian(np.zeros(n), _spd(rs, n), name="prop")
    elif name == "CWMH":
        kw["scale"] = 0.7 if var == 0 else rs.uniform(0.2, 1.0, n)
    elif name == "PCN":
        kw["scale"] = [0.6, 0.2][var % 2]
    elif name in ("ULA", "MALA"):
        kw["scale"] = [0.2, 0.02][var % 2] if case["target"] != "post_lin" else 0.01
    elif name == "NUTS":
        kw["max_depth"] = [3, 5, 2][var % 3]
        if var % 2 == 1:
            kw["step_size"] = float(rs.uniform(0.05, 0.4))
        if var == 0 and case["target"] == "gauss":
            kw["opt_acc_rate"] = 0.8
    elif name == "LinearRTO":
        if var == 1:
            kw.update(maxit=25, tol=1e-8)
    elif name == "RegularizedLinearRTO":
        if var == 1:
            kw.update(stepsize=5e-4, maxit=40, adaptive=False)
        else:
            kw.update(maxit=60)
    elif name == "UGLA":
        if var == 1:
            kw.update(maxit=20, tol=1e-6, beta=1e-4)
    cls = getattr(Mx, name)
    x0_keep = None if x0 is None else x0.copy()
    def make(callback=None):
        return cls(target, initial_point=x0, callback=callback, **kw)
    return make, cls, x0, x0_keep, n


def stateless_factory(case, rs):
    import cuqi
    S = cuqi.sampler
    name, var = case["sampler"], case["variant"]
    target, n = build_target(case["target"], var, _dim_for(name, case["dim"]), rs)
    x0 = None
    if case["x0"]:
        x0 = rs.standard_normal(n) * 0.5
        if case["target"] in ("post_reg", "post_reggmrf"):
            x0 = np.abs(x0)
    kw = {}
    if name == "MH":
        kw["scale"] = [0.8, 0.15][var % 2]
    elif name == "CWMH":
        kw["scale"] = 0.7 if var == 0 else rs.uniform(0.2, 1.0, n)
    elif name == "pCN":
        kw["scale"] = [0.6, 0.2][var % 2]
    elif name in ("ULA", "MALA"):
        kw["scale"] = [0.2, 0.02][var % 2] if case["target"] != "post_lin" else 0.01
    elif name == "NUTS":
        kw["max_depth"] = [3, 5, 4][var % 3]
        kw["adapt_step_size"] = [False, float(rs.uniform(0.05, 0.4)), True][var % 3]
    elif name == "RegularizedLinearRTO":
        if var == 1:
            kw.update(stepsize=5e-4, abstol=1e-8, adaptive=False)
    cls = getattr(S, name)
    def make(callback=None):
        return cls(target, x0=x0, callback=callback, **kw)
    return make, cls, x0, n, kw

# --------------------------------------------------------------------------- common helpers

_AUX_PATCHED = []


def _reseed_aux():
    """scipy's interpolative decomposition has a private generator (used by estimate_spectral_norm):
    reseed it (scipy < 1.15) or hand a fixed generator to every call made from the RTO modules (newer scipy)."""
    try:
        import scipy.linalg.interpolative as sli
        if hasattr(sli, "seed"):
            sli.seed("default")
        elif not _AUX_PATCHED:
            _AUX_PATCHED.append(True)
            import importlib
            for modname in ("cuqi.experimental.mcmc._rto", "cuqi.sampler._rto"):
                mod = importlib.import_module(modname)
                orig = getattr(mod, "estimate_spectral_norm", None)
                if orig is not None:
                    setattr(mod, "estimate_spectral_norm", (lambda o: (lambda A, *a, **k: o(A, *a, **{**k, "rng": 12345})))(orig))
    except Exception:  # noqa
        pass


def _seed(s):
    _reseed_aux()
    np.random.seed(int(s) % (2 ** 32))


class Recorder:
    """Recording callback: copies the state, keeps the index and the position of the global stream."""
    def __init__(self, on_call=None):
        self.states, self.indices, self.rng_states = [], [], []
        self.kinds = []
        self.on_call = on_call
    def __call__(self, sample, index):
        self.states.append(R.column(sample))
        self.indices.append(index)
        self.kinds.append(type(sample).__name__)
        self.rng_states.append(np.random.get_state())
        if self.on_call is not None:
            self.on_call(len(self.states) - 1, index)


class StepWatch:
    """Runtime contract on cls.step: per instance, copy the produced state and diff the attributes."""
    def __init__(self, cls, ctx, cfg):
        self.cls, self.ctx, self.cfg = cls, ctx, cfg
        self.log = contracts.ContractLog()
        self.produced = {}          # id(instance) -> list of states
        self.allowed = set(cls._STATE_KEYS) | set(cls._HISTORY_KEYS) | DERIVED_CACHES.get(cls.__name__, set())
        self._cm = None
    def _snap(self, inst, args, kwargs):
        return R.snapshot(vars(inst))
    def _post(self, inst, args, kwargs, result, before):
        self.produced.setdefault(id(inst), []).append(R.column(inst.current_point))
        after = R.snapshot(vars(inst))
        self.ctx.count("step_attr_diff_checked")
        bad = [k for k in R.changed_keys(before, after) if k not in self.allowed]
        if bad:
            self.ctx.violation("unsaved_attribute_changed_by_step", {**self.cfg, "attributes": ",".join(sorted(bad))},
                               detail=f"step() changed attributes {sorted(bad)} which are neither in _STATE_KEYS "
                                      f"{sorted(self.cls._STATE_KEYS)} nor in _HISTORY_KEYS nor recomputed caches: a "
                                      "checkpoint cannot restore them")
        return None
    def __enter__(self):
        self._cm = contracts.ensure(self.cls, "step", self._post, self.log, snapshot=self._snap)
        self._cm.__enter__()
        return self
    def __exit__(self, *a):
        return self._cm.__exit__(*a)


def _cmp_chain(ctx, a, b):
    """True when the two chains agree (shape and values, rtol 1e-9)."""
    if a.shape != b.shape:
        return False
    if a.size == 0:
        return True
    if np.array_equal(a, b):
        ctx.count("chain_comparisons_bitwise_equal")
        return True
    return ctx.close(a, b, rtol=RTOL, atol=ATOL)


def _first_diff(a, b):
    if a.shape != b.shape:
        return f"shape {a.shape} vs {b.shape}"
    for k in range(a.shape[1]):
        if not np.allclose(a[:, k], b[:, k], rtol=RTOL, atol=ATOL, equal_nan=True):
            return f"first difference at position {k}: {a[:, k][:4].tolist()} vs {b[:, k][:4].tolist()}"
    return "no difference"


def _n_distinct(chain):
    if chain.size == 0:
        return 0
    return len({chain[:, k].tobytes() for k in range(chain.shape[1])})


def _stateful_chain(s):
    n = len(s._samples) if getattr(s, "_samples", None) is not None else 0
    if n == 0:
        return np.zeros((0, 0))
    return R.as_chain(s.get_samples().samples)

# --------------------------------------------------------------------------- refused / aborted requests

class _Boom(Exception):
    """Raised once by the harness callback: a user callback that fails."""


def _after_refusal(ctx, cfg, label, snap, call):
    """Make a request that should be refused (any exception counts) with the random stream put back
    afterwards; the sampler must be exactly as before. Returns True when the twin comparison (same run
    without the request) stays meaningful."""
    st = np.random.get_state()
    before = snap()
    kind_, val = core.outcome(call, refusal=(Exception,))
    np.random.set_state(st)
    after = snap()
    bad = R.changed_keys(before, after)
    if kind_ == "value":
        ctx.count("refusal_candidate_accepted")
        return not bad
    ctx.refused("aftermath:" + label, val)
    ctx.count("refused_call_aftermath_compared")
    if bad:
        ctx.violation("refused_call_changed_sampler", {**cfg, "request": label, "attributes": ",".join(bad)},
                      detail=f"the refused request {label} ({type(val).__name__}: {core.short(str(val), 120)}) left the sampler changed in {bad}: "
                             "the recorded chain / state are no longer those of the run without that request")
        return False
    return True


def _snap_obj(obj, ignore=()):
    return lambda: {k: v for k, v in R.snapshot(vars(obj)).items() if k not in ignore}


# --------------------------------------------------------------------------- stateful interface

def run_stateful(case, ctx):
    rs = core.np_rng(ctx.seed, PROPERTY, core.canon(case))
    make, cls, x0, x0_keep, n = stateful_factory(case, rs)
    cfg = {"interface": "stateful", "sampler": case["sampler"], "target": case["target"], "variant": case["variant"]}
    N, M, Nb, lazy = case["N"], case["M"], case["Nb"], case["lazy"]
    total = N + M
    S_init, S_warm, S_run, S_fresh, S_re = (int(v) for v in rs.randint(1, 2 ** 31 - 1, 5))
    tmp = tempfile.mkdtemp(prefix="verif_c14_")
    try:
        with StepWatch(cls, ctx, cfg) as watch:
            _run_stateful_inner(case, ctx, cfg, make, cls, x0, x0_keep, watch, tmp,
                                N, M, Nb, lazy, total, S_init, S_warm, S_run, S_fresh, S_re)
    finally:
        shutil.rmtree(tmp, ignore_errors=True)


def _prepare(s, Nb, lazy, S_init, S_warm, tune_freq, pre=0):
    """Bring a new sampler to the start of its sampling phase (optionally: earlier samples, then warm-up)."""
    if not lazy:
        _seed(S_init)
        s.initialize()
    if pre:
        _seed(S_init + 7)
        s.sample(pre)
    if Nb:
        _seed(S_warm)
        s.warmup(Nb, tune_freq=tune_freq)


def _run_stateful_inner(case, ctx, cfg, make, cls, x0, x0_keep, watch, tmp, N, M, Nb, lazy, total,
                        S_init, S_warm, S_run, S_fresh, S_re):
    tf = case["tune_freq"]
    pre = case.get("pre", 0)
    off = pre + Nb                       # number of states recorded before the sampling phase under test
    # ---------------- U: the uninterrupted run, checkpointed at every position of the sampling phase
    saved_state, rng_at, paths, raw_state = {}, {}, {}, {}
    def on_call(k, index):
        p = index + 1 - off
        if p >= 1 and p < total and U_holder:
            u = U_holder[0]
            paths[p] = os.path.join(tmp, f"ckpt_{p}.pickle")
            u.save_checkpoint(paths[p])
            raw_state[p] = u.get_state()
            saved_state[p] = {kk: (np.array(v, copy=True) if isinstance(v, np.ndarray) else v)
                              for kk, v in raw_state[p]["state"].items()}
            rng_at[p] = np.random.get_state()
    U_holder = []
    recU = Recorder(on_call)
    U = make(recU)
    U_holder.append(U)
    _prepare(U, Nb, lazy, S_init, S_warm, tf, pre)
    if not (lazy and off == 0):
        paths[0] = os.path.join(tmp, "ckpt_0.pickle")
        U.save_checkpoint(paths[0])
        raw_state[0] = U.get_state()
        saved_state[0] = {kk: (np.array(v, copy=True) if isinstance(v, np.ndarray) else v)
                          for kk, v in raw_state[0]["state"].items()}
    _seed(S_run)
    if 0 in paths:
        rng_at[0] = np.random.get_state()
    ret = U.sample(total)
    if ret is not U:
        ctx.violation("sample_does_not_return_sampler", cfg, detail=f"sample() returned {type(ret).__name__}")
    chainU_all = _stateful_chain(U)
    producedU = watch.produced.get(id(U), [])

    # ---- recorded chain: length, callback, order, no later alteration
    want_len = off + total
    ctx.count("chain_length_checked")
    if chainU_all.shape[1] != want_len:
        ctx.violation("chain_length", {**cfg, "phase": "warmup+sample" if off else "sample"},
                      detail=f"requested {pre} + {Nb} warm-up + {total} samples, get_samples() holds {chainU_all.shape[1]}")
        return
    ctx.count("callback_count_checked")
    if len(recU.states) != len(producedU) or len(producedU) != want_len:
        ctx.violation("callback_count", cfg,
                      detail=f"{len(producedU)} transitions (step calls) for {want_len} requested states, callback invoked {len(recU.states)} times")
    else:
        for k in range(want_len):
            ctx.count("callback_state_compared")
            if recU.indices[k] != k:
                ctx.violation("callback_index", {**cfg, "phase": "sample" if (k < pre or k >= off) else "warmup"},
                              detail=f"callback number {k} received index {recU.indices[k]}; its state is entry {k} of the chain")
                break
            if not np.array_equal(recU.states[k], producedU[k]):
                ctx.violation("callback_state", {**cfg, "phase": "sample" if (k < pre or k >= off) else "warmup"},
                              detail=f"callback {k} received {recU.states[k][:4].tolist()}, transition {k} produced {producedU[k][:4].tolist()}")
                break
    if len(producedU) == want_len:
        ref = np.stack(producedU, axis=1) if producedU else np.zeros((0, 0))
        ctx.count("recorded_vs_transitions_compared")
        if not (ref.shape == chainU_all.shape and np.array_equal(ref, chainU_all)):
            ctx.violation("recorded_chain_differs_from_transitions", cfg,
                          detail="get_samples() is not the ordered list of the states the transitions produced "
                                 "(an entry was altered later, dropped or reordered): " + _first_diff(chainU_all, ref))
    if x0 is not None:
        ctx.count("initial_point_unmutated_checked")
        if not np.array_equal(x0, x0_keep):
            ctx.violation("initial_point_mutated", cfg, detail=f"initial_point array changed from {x0_keep.tolist()} to {x0.tolist()}")
    # a state obtained with get_state() during the run is a saved state: later transitions must not alter it
    for p in sorted(raw_state):
        ctx.count("saved_state_unaltered_checked")
        a_ = R.snapshot({k: (np.asarray(v) if isinstance(v, np.ndarray) else v) for k, v in raw_state[p]["state"].items()})
        b_ = R.snapshot({k: (np.asarray(v) if isinstance(v, np.ndarray) else v) for k, v in saved_state[p].items()})
        bad_ = R.changed_keys(b_, a_)
        if bad_:
            ctx.violation("saved_state_altered_by_later_transitions", {**cfg, "keys": ",".join(bad_)},
                          detail=f"entries {bad_} of the dictionary returned by get_state() at position {p} changed while the run continued")
            break
    chainU = chainU_all[:, off:]
    # burn-in / thinning of the recorded chain is the documented way to discard warm-up in this interface
    if want_len >= 2:
        Nt = case.get("Nt", 1)
        for b in sorted({0, off, want_len - 1} - {want_len}):
            kind3, bt = core.outcome(U.get_samples().burnthin, b, Nt)
            ctx.count("burnthin_compared")
            if kind3 != "value":
                ctx.violation("burnthin_refused", cfg, detail=f"burnthin({b},{Nt}) on a chain of {want_len} raised {bt!r}")
            elif not np.array_equal(R.as_chain(bt.samples), chainU_all[:, b::Nt]):
                ctx.violation("burnthin_not_slice", cfg, detail=f"get_samples().burnthin({b},{Nt}) on a chain of {want_len} is not chain[:, {b}::{Nt}]")
    distinct = _n_distinct(chainU)

    # ---------------- SPL: N then M on the same stream
    recS = Recorder()
    Sp = make(recS)
    _prepare(Sp, Nb, lazy, S_init, S_warm, tf, pre)
    _seed(S_run)
    Sp.sample(N)
    lenN = len(Sp._samples)
    bsz = case.get("batch", 0)
    if bsz:
        bdir = os.path.join(tmp, "batches")
        Sp.sample(M, batch_size=bsz, sample_path=bdir)
    else:
        Sp.sample(M)
    chainS_all = _stateful_chain(Sp)
    if bsz and chainS_all.shape[1] == off + total:
        # batches written to disk are a record of the chain too: full batches, consecutive states, in order
        import glob
        files = sorted(glob.glob(os.path.join(bdir, "batch_*.npz")))
        ctx.count("batch_record_compared")
        blocks = [np.load(f)["samples"] for f in files]
        got_b = np.concatenate([np.asarray(b, dtype=float).reshape(len(b), -1) for b in blocks], axis=0).T if blocks else np.zeros((chainS_all.shape[0], 0))
        nfull = (M // bsz) * bsz
        exp_b = chainS_all[:, off + N: off + N + nfull]
        if len(files) != M // bsz or got_b.shape != exp_b.shape or not np.array_equal(got_b, exp_b):
            ctx.violation("batch_record_differs", {**cfg, "batch_size": bsz},
                          detail=f"sample({M}, batch_size={bsz}) wrote {len(files)} batch files holding {got_b.shape[1]} states; "
                                 f"expected the first {nfull} states of that call in order")
    ctx.count("split_chain_compared")
    if lenN != off + N:
        ctx.violation("chain_length", {**cfg, "phase": "first_part"}, detail=f"after sample({pre}), warmup({Nb}) and sample({N}) the chain holds {lenN}")
    if not _cmp_chain(ctx, chainS_all, chainU_all):
        ctx.violation("split_run_differs", {**cfg, "warmup": bool(Nb)},
                      detail=f"sample({N}); sample({M}) differs from sample({N + M}) on the same stream (Nb={Nb}): " + _first_diff(chainS_all, chainU_all))
    elif recS.indices != list(range(off + total)):
        ctx.violation("callback_index", {**cfg, "phase": "second_sample_call"},
                      detail=f"indices over sample({pre}); warmup({Nb}); sample({N}); sample({M}) were {recS.indices}")
    if distinct >= 2:
        ctx.nontrivial("split:" + case["sampler"])

    # ---------------- checkpoint at every position p, fresh sampler, continue
    for p in sorted(paths):
        if p not in rng_at:
            continue
        recF = Recorder()
        F = make(recF)
        _seed(S_fresh + p)                      # whatever initialisation draws happen, they are not those of U
        route = ("file_lazy", "file_initialized", "set_state")[p % 3]
        if route != "file_lazy":
            F.initialize()
        if route == "set_state":
            import copy as _copy
            kind_, val = core.outcome(F.set_state, _copy.deepcopy({"metadata": raw_state[p]["metadata"], "state": saved_state[p]}))
        else:
            kind_, val = core.outcome(F.load_checkpoint, paths[p])
        ctx.count("checkpoint_route_" + route)
        if kind_ != "value":
            ctx.violation("checkpoint_not_loadable", {**cfg, "exc": type(val).__name__},
                          detail=f"load_checkpoint at position {p} into a fresh sampler raised {val!r}")
            break
        with open(paths[p], "rb") as fh:
            payload = pickle.load(fh)
        ctx.count("checkpoint_payload_checked")
        keys = set(payload.get("state", {}).keys())
        if keys != set(cls._STATE_KEYS):
            ctx.violation("checkpoint_payload_keys", cfg, detail=f"payload keys {sorted(keys)} != _STATE_KEYS {sorted(cls._STATE_KEYS)}")
        got = R.snapshot({k: (np.asarray(v) if isinstance(v, np.ndarray) else v) for k, v in F.get_state()["state"].items()})
        exp = R.snapshot({k: (np.asarray(v) if isinstance(v, np.ndarray) else v) for k, v in saved_state[p].items()})
        bad = R.changed_keys(exp, got)
        if bad:
            ctx.violation("checkpoint_roundtrip", {**cfg, "keys": ",".join(bad)},
                          detail=f"state entries {bad} of the fresh sampler after load_checkpoint(position {p}) differ from get_state() of the saved run")
        _reseed_aux()
        np.random.set_state(rng_at[p])
        F.sample(total - p)
        chainF = _stateful_chain(F)
        ctx.count("checkpoint_continuation_compared")
        ctx.count("checkpoint_continuation_states_compared", total - p)
        tail = chainU[:, p:]
        if not _cmp_chain(ctx, chainF, tail):
            ctx.violation("checkpoint_continuation_differs", {**cfg, "warmup": bool(Nb), "position": "first" if p == 0 else "later", "route": route},
                          detail=f"fresh sampler + load_checkpoint at position {p} of {total} (Nb={Nb}) continues differently from the "
                                 f"uninterrupted run: " + _first_diff(chainF, tail))
            break
        if recF.indices != list(range(total - p)):
            ctx.violation("callback_index", {**cfg, "phase": "after_checkpoint"},
                          detail=f"fresh sampler continued from position {p}: callback indices {recF.indices}")
            break
        if distinct >= 2:
            ctx.nontrivial(f"ckpt:{case['sampler']}:{'first' if p == 0 else 'later'}")

    # ---------------- refused / aborted requests between sample(N) and the continuation: twin of U
    recB = Recorder()
    B = make(recB)
    _prepare(B, Nb, lazy, S_init, S_warm, tf, pre)
    _seed(S_run)
    B.sample(N)
    snapB = _snap_obj(B)
    other_cls = "MH" if cls.__name__ != "MH" else "ULA"
    wrong = os.path.join(tmp, "wrong_type.pickle")
    with open(wrong, "wb") as fh:
        pickle.dump({"metadata": {"sampler_type": other_cls}, "state": {"current_point": np.full(np.shape(B.current_point), 7.0)}}, fh)
    cur = B.get_state()
    requests = [
        ("sample(2.5)", lambda: B.sample(2.5)),
        ("sample('3')", lambda: B.sample("3")),
        ("warmup(1.5)", lambda: B.warmup(1.5)),
        ("load_checkpoint(other sampler type)", lambda: B.load_checkpoint(wrong)),
        ("load_checkpoint(missing file)", lambda: B.load_checkpoint(os.path.join(tmp, "does_not_exist.pickle"))),
        ("set_state(other sampler type)", lambda: B.set_state({"metadata": {"sampler_type": other_cls}, "state": {"current_point": np.full(np.shape(B.current_point), 7.0)}})),
        ("set_state(unknown key first)", lambda: B.set_state({"metadata": cur["metadata"], "state": {"no_such_key": 1, **cur["state"]}})),
        ("set_history(unknown key first)", lambda: B.set_history({"metadata": cur["metadata"], "history": {"no_such_key": 1}})),
        ("initialize() twice", lambda: B.initialize()),
    ]
    twin_ok = True
    for label, call in requests:
        twin_ok = _after_refusal(ctx, cfg, label, snapB, call) and twin_ok
    # a user callback that raises once aborts sample(): the transitions made so far are recorded, nothing else
    j = min(M - 1, case["rep"] % 3)
    calls = {"n": 0}
    def boom(sample, index):
        recB(sample, index)
        calls["n"] += 1
        if calls["n"] == j + 1:
            raise _Boom()
    B.callback = boom
    kind_, val = core.outcome(B.sample, M + 1, refusal=(_Boom,))
    B.callback = recB
    ctx.count("aborted_by_callback_checked")
    if kind_ == "value":
        ctx.violation("callback_exception_swallowed", cfg, detail="an exception raised by the user callback did not leave sample()")
        twin_ok = False
    elif kind_ == "crashed":
        raise val
    elif len(B._samples) != off + N + j + 1:
        twin_ok = False
        ctx.violation("aborted_sample_record", cfg,
                      detail=f"sample({M + 1}) aborted by the callback of its transition {j}: {j + 1} transitions were made, the chain grew from {off + N} to {len(B._samples)}")
    if twin_ok:
        B.sample(M - (j + 1))
        chainB = _stateful_chain(B)
        ctx.count("refusal_twin_chain_compared")
        if not _cmp_chain(ctx, chainB, chainU_all):
            ctx.violation("run_with_refused_requests_differs", {**cfg, "warmup": bool(Nb)},
                          detail=f"sample({N}); refused requests; sample aborted by its callback after {j + 1} transitions; sample({M - j - 1}) "
                                 f"differs from sample({N + M}) on the same stream: " + _first_diff(chainB, chainU_all))
        elif recB.indices != list(range(off + total)):
            ctx.violation("callback_index", {**cfg, "phase": "after_refused_requests"}, detail=f"indices {recB.indices}")
    # sample before the required set-up (no target) is refused; once the target is set the run is the usual one
    T0 = make(None)
    _seed(S_fresh); T0.sample(min(total, 3))
    try:
        B0 = type(T0)(initial_point=T0.initial_point if x0 is None else x0, **{k: getattr(T0, k) for k in ()})
    except Exception:  # noqa - constructor insists on a target: nothing to interleave
        B0 = None
    if B0 is not None and case["variant"] == 0 and cls.__name__ in ("LinearRTO", "UGLA", "Conjugate", "ConjugateApprox", "Direct", "RegularizedLinearRTO"):
        # (only samplers whose configuration here is the default apart from target and initial point)
        if cls.__name__ == "RegularizedLinearRTO":
            B0.maxit = T0.maxit
        if _after_refusal(ctx, cfg, "sample() without target", _snap_obj(B0), lambda: B0.sample(2)):
            B0.target = T0.target
            if x0 is None:
                B0.initial_point = None
            _seed(S_fresh); B0.sample(min(total, 3))
            ctx.count("refusal_twin_chain_compared")
            if not _cmp_chain(ctx, _stateful_chain(B0), _stateful_chain(T0)):
                ctx.violation("run_with_refused_requests_differs", {**cfg, "request": "sample() without target"},
                              detail="sampler built without target, sample() refused, target set, sample(): differs from the sampler built with the target: "
                                     + _first_diff(_stateful_chain(B0), _stateful_chain(T0)))

    # ---------------- reinitialize() versus a freshly constructed and initialised sampler
    cb_shared = Recorder()
    U.callback = cb_shared
    _seed(S_re)
    U.reinitialize()
    fresh = make(cb_shared)
    _seed(S_re)
    fresh.initialize()
    a, b = R.snapshot(vars(U)), R.snapshot(vars(fresh))
    ctx.count("reinit_attr_compared", len(set(a) | set(b)))
    bad = R.changed_keys(b, a)
    if bad:
        ctx.violation("reinitialize_differs_from_fresh", {**cfg, "attributes": ",".join(bad), "after_warmup": bool(Nb)},
                      detail=f"after reinitialize() attributes {bad} differ from those of a freshly constructed + initialised "
                             f"sampler of the same configuration: " +
                             "; ".join(f"{k}: {core.short(getattr(U, k, '<missing>'), 60)} vs {core.short(getattr(fresh, k, '<missing>'), 60)}" for k in bad[:4]))
    if bad == ["_max_depth"] and cls.__name__ == "NUTS":
        # compensate the one listed defect so that the behavioural comparison below still judges everything else
        U.max_depth = fresh.max_depth
        bad = []
    for attr in ("target", "callback"):
        if getattr(U, attr) is not getattr(fresh, attr):
            ctx.violation("reinitialize_differs_from_fresh", {**cfg, "attributes": attr}, detail=f"{attr} object replaced by reinitialize()")
    if bad:
        return
    k = min(total, 4)
    _seed(S_re + 1); U.sample(k)
    _seed(S_re + 1); fresh.sample(k)
    ca, cb = _stateful_chain(U), _stateful_chain(fresh)
    ctx.count("reinit_chain_compared")
    if not _cmp_chain(ctx, ca, cb):
        ctx.violation("reinitialized_sampler_runs_differently", {**cfg, "after_warmup": bool(Nb)},
                      detail=f"after reinitialize() sample({k}) differs from a fresh sampler's on the same stream: " + _first_diff(ca, cb))
    elif _n_distinct(ca) >= 2:
        ctx.nontrivial("reinit:" + case["sampler"])
    ctx.note("N_M_Nb_pre_lazy", [N, M, Nb, pre, lazy])
    ctx.note("distinct_states_in_chain", distinct)
    ctx.note("callback_arg_type", sorted(set(recU.kinds)))

def run_stateful_long(case, ctx):
    """Long warm-up + sampling run: progress display, tuning intervals and batching must not disturb the
    bookkeeping (one callback per transition, in order, with the stored state)."""
    import glob
    rs = core.np_rng(ctx.seed, PROPERTY, core.canon(case))
    c2 = dict(case); c2.setdefault("lazy", True)
    make, cls, x0, x0_keep, n = stateful_factory(c2, rs)
    cfg = {"interface": "stateful", "sampler": case["sampler"], "target": case["target"], "variant": case["variant"], "length": "long"}
    N, Nb, bsz = case["N"], case["Nb"], case["batch"]
    total = N + Nb
    rec = Recorder(); rec_rng = rec.rng_states
    produced = []
    log = contracts.ContractLog()
    def post(inst, args, kwargs, result, snap):
        produced.append(R.column(inst.current_point))
        return None
    tmp = tempfile.mkdtemp(prefix="verif_c14_")
    try:
        s = make(rec)
        _seed(int(rs.randint(1, 2 ** 31 - 1)))
        with contracts.ensure(cls, "step", post, log):
            if Nb:
                s.warmup(Nb, tune_freq=case["tune_freq"])
            if bsz:
                s.sample(N, batch_size=bsz, sample_path=os.path.join(tmp, "b"))
            else:
                s.sample(N)
        chain = _stateful_chain(s)
        ctx.count("chain_length_checked")
        if chain.shape[1] != total or len(produced) != total:
            ctx.violation("chain_length", {**cfg, "phase": "warmup+sample" if Nb else "sample"},
                          detail=f"warmup({Nb}) + sample({N}): {len(produced)} transitions, get_samples() holds {chain.shape[1]}")
            return
        ctx.count("callback_count_checked")
        if len(rec.states) != total:
            ctx.violation("callback_count", cfg, detail=f"warmup({Nb}) + sample({N}) = {total} transitions, callback invoked {len(rec.states)} times "
                                                          f"(indices seen: {rec.indices[:6]}...{rec.indices[-3:]})")
            return
        if rec.indices != list(range(total)):
            k = next(i for i in range(total) if rec.indices[i] != i)
            ctx.violation("callback_index", {**cfg, "phase": "warmup" if k < Nb else "sample"},
                          detail=f"callback number {k} of {total} received index {rec.indices[k]}")
            return
        ref = np.stack(produced, axis=1)
        cbs = np.stack(rec.states, axis=1)
        if not np.array_equal(cbs, ref):
            ctx.violation("callback_state", cfg, detail="callback states differ from the states the transitions produced: " + _first_diff(cbs, ref))
            return
        ctx.count("recorded_vs_transitions_compared")
        if not np.array_equal(chain, ref):
            ctx.violation("recorded_chain_differs_from_transitions", cfg, detail=_first_diff(chain, ref))
            return
        ctx.count("long_stateful_callbacks_compared", total)
        if bsz:
            files = sorted(glob.glob(os.path.join(tmp, "b", "batch_*.npz")))
            blocks = [np.load(f)["samples"] for f in files]
            got_b = np.concatenate([np.asarray(b, dtype=float).reshape(len(b), -1) for b in blocks], axis=0).T if blocks else np.zeros((chain.shape[0], 0))
            nfull = (N // bsz) * bsz
            ctx.count("batch_record_compared")
            if len(files) != N // bsz or got_b.shape != (chain.shape[0], nfull) or not np.array_equal(got_b, chain[:, Nb:Nb + nfull]):
                ctx.violation("batch_record_differs", {**cfg, "batch_size": bsz},
                              detail=f"sample({N}, batch_size={bsz}) wrote {len(files)} files holding {got_b.shape[1]} states, expected the first {nfull} in order")
        if _n_distinct(chain) >= 2:
            ctx.nontrivial("long:" + case["sampler"])
        ctx.note("long_total_Nb_batch", [total, Nb, bsz])
    finally:
        shutil.rmtree(tmp, ignore_errors=True)


# --------------------------------------------------------------------------- stateless interface

class UpdateWatch:
    """Contract on the real single_update of a legacy sampler: copy what each transition returned."""
    def __init__(self, cls):
        self.cls = cls
        self.log = contracts.ContractLog()
        self.produced = []
        self.active = hasattr(cls, "single_update")
        self._cm = None
    def _post(self, inst, args, kwargs, result, snap):
        self.produced.append(R.column(result[0]))
        return None
    def __enter__(self):
        if self.active:
            self._cm = contracts.ensure(self.cls, "single_update", self._post, self.log)
            self._cm.__enter__()
        return self
    def __exit__(self, *a):
        if self._cm is not None:
            return self._cm.__exit__(*a)
        return False


def run_stateless(case, ctx):
    import cuqi
    rs = core.np_rng(ctx.seed, PROPERTY, core.canon(case))
    make, cls, x0, n, kw = stateless_factory(case, rs)
    name = case["sampler"]
    cfg = {"interface": "stateless", "sampler": name, "target": case["target"], "variant": case["variant"],
           "method": "sample_adapt" if case["adapt"] else "sample"}
    N, Nb = case["N"], case["Nb"]
    S_run = int(rs.randint(1, 2 ** 31 - 1))
    rec = Recorder()
    s = make(rec)
    x0_eff = R.column(s.x0)
    x0_keep = None if x0 is None else x0.copy()
    scale0 = kw.get("scale")
    method = "sample_adapt" if case["adapt"] else "sample"
    with UpdateWatch(cls) as watch:
        _seed(S_run)
        kind_, val = core.outcome(getattr(s, method), N, Nb)
    if kind_ == "refused":
        ctx.refused(f"{name}.{method}(N={'>=10' if N >= 10 else '<10'},Nb={'0' if Nb == 0 else '>0'})", val)
        ctx.count("refusal_observed")
        return
    if kind_ == "crashed":
        ctx.violation("crash", {**cfg, "exc": type(val).__name__}, detail=repr(val))
        return
    total = N + Nb
    ret = R.as_chain(val.samples if isinstance(val, cuqi.samples.Samples) else val)
    if total == 1 and ret.shape[0] == 1 and ret.size == n:
        ret = ret.reshape(n, 1)
    # ---- length
    ctx.count("chain_length_checked")
    if ret.shape != (n, N):
        ctx.violation("chain_length", {**cfg, "burnin": "0" if Nb == 0 else ">0"},
                      detail=f"{method}(N={N}, Nb={Nb}) returned a chain of shape {ret.shape}, requested ({n}, {N})")
        return
    # ---- callback: once per transition, state + index in the chain
    T = total - 1
    ctx.count("callback_count_checked")
    ok_cb = True
    if len(rec.states) != T or (watch.active and len(watch.produced) != T):
        ok_cb = False
        ctx.violation("callback_count", cfg,
                      detail=f"{method}(N={N}, Nb={Nb}): chain of {total} states = {T} transitions"
                             + (f" ({len(watch.produced)} single_update calls)" if watch.active else "")
                             + f", callback invoked {len(rec.states)} times")
    else:
        for k in range(T):
            ctx.count("callback_state_compared")
            if rec.indices[k] != k + 1:
                ok_cb = False
                ctx.violation("callback_index", cfg, detail=f"callback number {k} (state {k + 1} of the chain incl. x0) received index {rec.indices[k]}")
                break
            if watch.active and not np.array_equal(rec.states[k], watch.produced[k]):
                ok_cb = False
                ctx.violation("callback_state", cfg, detail=f"callback {k} received {rec.states[k][:4].tolist()}, the transition returned {watch.produced[k][:4].tolist()}")
                break
    # ---- returned chain == [x0, transition states][Nb:]
    trans = watch.produced if (watch.active and len(watch.produced) == T) else (rec.states if len(rec.states) == T else None)
    if trans is not None:
        exp = R.expected_stateless_chain(x0_eff, trans, Nb)
        ctx.count("stateless_chain_compared")
        ctx.count("stateless_chain_states_compared", exp.shape[1])
        if not (exp.shape == ret.shape and np.array_equal(exp, ret)):
            if R.is_previous_overwritten_pattern(ret, x0_eff, trans, Nb):
                ctx.violation("previous_state_overwritten", {"interface": "stateless", "sampler": name},
                              detail=f"{method}(N={N}, Nb={Nb}): every transition overwrote the stored previous state: returned chain is "
                                     f"[c1..cT,cT][Nb:] instead of [x0,c1..cT][Nb:] (entries altered after the callback saw them; x0 lost)")
            else:
                ctx.violation("returned_chain_differs_from_transitions", {**cfg, "burnin": "0" if Nb == 0 else ">0"},
                              detail=f"{method}(N={N}, Nb={Nb}): returned chain != [x0, states produced by the transitions][Nb:]: " + _first_diff(ret, exp))
        if _n_distinct(exp) >= 2 or (T >= 1 and Nb >= 1):
            ctx.nontrivial("stateless:" + name)
    if x0 is not None:
        ctx.count("initial_point_unmutated_checked")
        if not np.array_equal(x0, x0_keep):
            ctx.violation("initial_point_mutated", cfg, detail=f"x0 array changed from {x0_keep.tolist()} to {x0.tolist()}")
    if case.get("long"):
        if ok_cb and trans is not None:
            ctx.count("long_stateless_callbacks_compared", T)
        ctx.note("long_total_Nb_method", [total, Nb, method])
        return
    # ---- refused / aborted requests leave a stateless sampler exactly as it was
    diag = ("iteration_list", "num_tree_node_list", "epsilon_list", "epsilon_bar_list", "_num_tree_node")  # per-call diagnostics
    if name == "UGLA":
        diag += ("_L1", "_L2", "_L2mu", "_b_tild", "_m", "_shift")  # rebuilt from x0 at the start of every call
    if case["adapt"]:
        diag += ("scale",)                     # sample_adapt documents that the adapted scale stays on the object
    snapS = _snap_obj(s, ignore=diag)
    def _raising(sample, index):
        raise _Boom()
    def _aborted():
        s.callback = _raising
        try:
            return getattr(s, method)(max(N, 2), Nb)
        finally:
            s.callback = rec
    for label, call in (("sample(2.5)", lambda: getattr(s, method)(2.5, Nb)), ("sample(-1)", lambda: getattr(s, method)(-1, 0)),
                        ("sample(0)", lambda: getattr(s, method)(0, 0)), ("sample(N, Nb=1.5)", lambda: getattr(s, method)(N, 1.5)),
                        ("sample('3')", lambda: getattr(s, method)("3")), ("callback raises", _aborted)):
        _after_refusal(ctx, cfg, label, snapS, call)
    # ---- stateless: a second call on the same object starts again from x0 and, without adaptation, repeats the chain
    if method == "sample":
        _seed(S_run)
        kind4, val4 = core.outcome(getattr(s, method), N, Nb)
        if kind4 == "value":
            ret4 = R.as_chain(val4.samples if isinstance(val4, cuqi.samples.Samples) else val4)
            if ret4.size == ret.size:
                ret4 = ret4.reshape(ret.shape)
            ctx.count("second_call_compared")
            if not _cmp_chain(ctx, ret4, ret):
                ctx.violation("second_call_differs", cfg, detail=f"sample({N},{Nb}) called twice on the same sampler with the same stream gives different chains: " + _first_diff(ret4, ret))
        else:
            ctx.violation("second_call_refused", {**cfg, "exc": type(val4).__name__}, detail=repr(val4))
    # ---- the callback is an observer: same stream without a callback gives the same chain
    s2 = make(None)
    if scale0 is not None:
        s2.scale = scale0
    _seed(S_run)
    kind2, val2 = core.outcome(getattr(s2, method), N, Nb)
    if kind2 == "value":
        ret2 = R.as_chain(val2.samples if isinstance(val2, cuqi.samples.Samples) else val2)
        if ret2.size == ret.size:
            ret2 = ret2.reshape(ret.shape)
        ctx.count("rerun_without_callback_compared")
        if not _cmp_chain(ctx, ret2, ret):
            ctx.violation("chain_depends_on_callback", cfg, detail="same stream, same configuration, callback=None gives a different chain: " + _first_diff(ret2, ret))
    # ---- burn-in/thinning of the returned chain
    if isinstance(val, cuqi.samples.Samples) and N >= 2:
        Nt = case["Nt"]
        for b in sorted({0, 1 % N, N - 1}):
            kind3, bt = core.outcome(val.burnthin, b, Nt)
            ctx.count("burnthin_compared")
            if kind3 != "value":
                ctx.violation("burnthin_refused", cfg, detail=f"burnthin({b},{Nt}) on a chain of {N} raised {bt!r}")
                continue
            if not np.array_equal(R.as_chain(bt.samples), ret[:, b::Nt]):
                ctx.violation("burnthin_not_slice", cfg, detail=f"burnthin({b},{Nt}) on a chain of {N} is not chain[:, {b}::{Nt}]")
            if not np.array_equal(R.as_chain(val.samples).reshape(ret.shape), ret):
                ctx.violation("burnthin_mutates", cfg, detail="burnthin altered the original chain")
    ctx.note("N_Nb_method", [N, Nb, method])

# --------------------------------------------------------------------------- Gibbs (both interfaces)

def _gibbs_joint(strategy, dim, rs):
    """Hierarchical joint d (prior precision/scale), l (noise precision), x, y and observed data."""
    import cuqi
    D = cuqi.distribution
    n = max(dim, 3)
    A, data = _linear_parts(rs, n)
    model = cuqi.model.LinearModel(A)
    d = D.Gamma(1.0, float(rs.uniform(1e-3, 1e-1)), name="d")
    l = D.Gamma(1.0, float(rs.uniform(1e-3, 1e-1)), name="l")
    if strategy == "ugla_conjapprox":
        x = D.LMRF(0, lambda d: 1 / d, geometry=n, name="x")
    elif strategy == "regrto_conj":
        x = cuqi.implicitprior.RegularizedGaussian(np.zeros(n), lambda d: 1 / d, constraint="nonnegativity", name="x")
    elif strategy in ("rto_conj", "rto_conj_steps"):
        x = D.GMRF(np.zeros(n), lambda d: d, bc_type="zero", name="x")
    else:
        x = D.Gaussian(np.zeros(n), lambda d: 1 / d, name="x")
    y = D.Gaussian(model @ x, lambda l: 1 / l, name="y")
    return D.JointDistribution(d, l, x, y)(y=data), n


def _hybrid_strategy(strategy, n, rs_vals):
    import cuqi
    Mx = cuqi.experimental.mcmc
    x0 = rs_vals["x0"]
    xs = {
        "rto_conj": lambda: Mx.LinearRTO(maxit=15),
        "rto_conj_steps": lambda: Mx.LinearRTO(maxit=15, initial_point=x0.copy()),
        "mh_conj": lambda: Mx.MH(scale=0.3, initial_point=x0.copy()),
        "cwmh_conj": lambda: Mx.CWMH(scale=0.3, initial_point=x0.copy()),
        "pcn_conj": lambda: Mx.PCN(scale=0.4, initial_point=x0.copy()),
        "ula_conj": lambda: Mx.ULA(scale=1e-3, initial_point=x0.copy()),
        "mala_conj": lambda: Mx.MALA(scale=1e-3, initial_point=x0.copy()),
        "nuts_conj": lambda: Mx.NUTS(max_depth=3, initial_point=x0.copy()),
        "ugla_conjapprox": lambda: Mx.UGLA(),
        "regrto_conj": lambda: Mx.RegularizedLinearRTO(maxit=30, stepsize=1e-3, initial_point=np.abs(x0)),
    }
    dsamp = Mx.ConjugateApprox if strategy == "ugla_conjapprox" else Mx.Conjugate
    steps = {"x": 2, "d": 1, "l": 3} if strategy == "rto_conj_steps" else None
    return {"x": xs[strategy](), "d": dsamp(), "l": Mx.Conjugate()}, steps


def run_hybrid(case, ctx):
    import cuqi
    Mx = cuqi.experimental.mcmc
    rs = core.np_rng(ctx.seed, PROPERTY, core.canon(case))
    strategy = case["strategy"]
    cfg = {"interface": "stateful", "sampler": "HybridGibbs", "strategy": strategy}
    N, M, Nb = case["N"], case["M"], case["Nb"]
    S_c, S_w, S_run = (int(v) for v in rs.randint(1, 2 ** 31 - 1, 3))
    if strategy == "direct_pair":
        D = cuqi.distribution
        a = D.Gaussian(np.zeros(2), 1.0, name="a")
        b = D.Gaussian(lambda a: a, 0.5, geometry=2, name="b")
        joint = D.JointDistribution(a, b)
        def build():
            return Mx.HybridGibbs(joint, {"a": Mx.MH(scale=0.5), "b": Mx.Direct()})
    else:
        joint, n = _gibbs_joint(strategy, case["dim"], rs)
        vals = {"x0": rs.standard_normal(n) * 0.3}
        def build():
            strat, steps = _hybrid_strategy(strategy, n, vals)
            return Mx.HybridGibbs(joint, strat, steps) if steps else Mx.HybridGibbs(joint, strat)
    produced = {}
    log = contracts.ContractLog()
    def post(inst, args, kwargs, result, snap):
        produced.setdefault(id(inst), []).append({k: R.column(v) for k, v in inst.current_samples.items()})
        return None
    def go(parts):
        _seed(S_c)
        g = build()
        if Nb:
            _seed(S_w); g.warmup(Nb)
        _seed(S_run)
        lens = []
        for k in parts:
            r = g.sample(k)
            if r is not g:
                ctx.violation("sample_does_not_return_sampler", cfg, detail=f"sample() returned {type(r).__name__}")
            lens.append({p: len(v) for p, v in g.samples.items()})
        return g, {p: R.as_chain(v.samples) for p, v in g.get_samples().items()}, lens
    with contracts.ensure(Mx.HybridGibbs, "step", post, log):
        kind_, val = core.outcome(go, [N + M])
        if kind_ == "refused" and "direct" in strategy:
            ctx.refused("HybridGibbs direct_pair", val); ctx.count("refusal_observed"); return
        if kind_ != "value":
            raise val
        gU, chU, _ = val
        gS, chS, lens = go([N, M])
        # twin with refused requests between sample(N) and sample(M)
        _seed(S_c)
        gB = build()
        if Nb:
            _seed(S_w); gB.warmup(Nb)
        _seed(S_run)
        gB.sample(N)
        def snapG():
            d = R.snapshot(vars(gB))
            for pn, sm in gB.samplers.items():
                d.update({f"{pn}.{k}": v for k, v in R.snapshot(vars(sm)).items()})
            return d
        twin_ok = True
        for label, call in (("sample(2.5)", lambda: gB.sample(2.5)), ("sample('3')", lambda: gB.sample("3")),
                            ("warmup(1.5)", lambda: gB.warmup(1.5)), ("warmup(2, tune_freq='a')", lambda: gB.warmup(2, tune_freq="a"))):
            twin_ok = _after_refusal(ctx, cfg, label, snapG, call) and twin_ok
        if twin_ok:
            gB.sample(M)
            chB = {p: R.as_chain(v.samples) for p, v in gB.get_samples().items()}
            for p in sorted(chB):
                ctx.count("refusal_twin_chain_compared")
                if not _cmp_chain(ctx, chB[p], chU[p]):
                    ctx.violation("run_with_refused_requests_differs", {**cfg, "variable": p},
                                  detail=f"HybridGibbs sample({N}); refused requests; sample({M}) differs from sample({N + M}) in '{p}': " + _first_diff(chB[p], chU[p]))
    want = Nb + N + M
    names = sorted(chU)
    for p in names:
        ctx.count("chain_length_checked")
        if chU[p].shape[1] != want or chS[p].shape[1] != want or lens[0][p] != Nb + N:
            ctx.violation("chain_length", {**cfg, "variable": p},
                          detail=f"requested warmup {Nb} + {N} + {M}: unsplit {chU[p].shape[1]}, split {chS[p].shape[1]}, after first part {lens[0][p]}")
            return
    # recorded chain == ordered states produced by the sweeps (no later alteration)
    for g, ch, tag in ((gU, chU, "unsplit"), (gS, chS, "split")):
        prod = produced.get(id(g), [])
        ctx.count("recorded_vs_transitions_compared")
        if len(prod) != want:
            ctx.violation("transition_count", {**cfg, "run": tag}, detail=f"{len(prod)} sweeps for {want} requested states")
            continue
        for p in names:
            ref = np.stack([st[p] for st in prod], axis=1)
            ctx.count("callback_state_compared", want)
            if not (ref.shape == ch[p].shape and np.array_equal(ref, ch[p])):
                ctx.violation("recorded_chain_differs_from_transitions", {**cfg, "variable": p},
                              detail=f"{tag}: get_samples()['{p}'] is not the ordered list of states the sweeps produced: " + _first_diff(ch[p], ref))
    # burn-in removal / thinning of the returned JointSamples: every member keeps sweep states b, b+Nt, ...
    prodU = produced.get(id(gU), [])
    if len(prodU) == want and want >= 2:
        js = gU.get_samples()
        for b in sorted({0, Nb, want - 1}):
            for Nt in (1, 2, 3, 5):
                kind3, bt = core.outcome(js.burnthin, b, Nt)
                if kind3 != "value":
                    ctx.violation("burnthin_refused", {**cfg, "container": type(js).__name__},
                                  detail=f"{type(js).__name__}.burnthin({b},{Nt}) on chains of {want} raised {bt!r}")
                    continue
                for p in names:
                    ref = np.stack([st[p] for st in prodU], axis=1)[:, b::Nt]
                    ctx.count("gibbs_burnthin_compared")
                    got = R.as_chain(bt[p].samples) if p in bt else np.zeros((0, 0))
                    if not (got.shape == ref.shape and np.array_equal(got, ref)):
                        ctx.violation("burnthin_not_slice", {**cfg, "container": type(js).__name__, "thinning": "1" if Nt == 1 else ">1"},
                                      detail=f"{type(js).__name__}.burnthin({b},{Nt}) on a chain of {want}: '{p}' keeps {got.shape[1] if got.ndim == 2 else '?'} states, "
                                             f"requested the {ref.shape[1]} sweep states {b}, {b}+{Nt}, ...: " + _first_diff(got, ref))
                        break
    ok = True
    for p in names:
        ctx.count("gibbs_split_compared")
        if not _cmp_chain(ctx, chS[p], chU[p]):
            ok = False
            ctx.violation("split_run_differs", {**cfg, "variable": p, "warmup": bool(Nb)},
                          detail=f"HybridGibbs sample({N}); sample({M}) differs from sample({N + M}) (Nb={Nb}) in '{p}': " + _first_diff(chS[p], chU[p]))
    if ok and any(_n_distinct(chU[p][:, Nb:]) >= 2 for p in names):
        ctx.nontrivial("hybrid:" + strategy)
    ctx.note("N_M_Nb", [N, M, Nb])


def _legacy_strategy(strategy):
    import cuqi
    S = cuqi.sampler
    xs = {"rto_conj": S.LinearRTO, "cwmh_conj": functools.partial(S.CWMH, scale=0.3),
          "mh_conj": functools.partial(S.MH, scale=0.3), "ugla_conjapprox": S.UGLA,
          "regrto_conj": functools.partial(S.RegularizedLinearRTO, stepsize=1e-3)}
    return {"x": xs[strategy], "d": S.ConjugateApprox if strategy == "ugla_conjapprox" else S.Conjugate, "l": S.Conjugate}


def run_legacy_gibbs(case, ctx):
    import cuqi
    rs = core.np_rng(ctx.seed, PROPERTY, core.canon(case))
    strategy = case["strategy"]
    cfg = {"interface": "stateless", "sampler": "Gibbs", "strategy": strategy}
    N, M, Nb = case["N"], case["M"], case["Nb"]
    S_run = int(rs.randint(1, 2 ** 31 - 1))
    joint, n = _gibbs_joint(strategy, case["dim"], rs)
    produced = {}
    log = contracts.ContractLog()
    def post(inst, args, kwargs, result, snap):
        produced.setdefault(id(inst), []).append({k: R.column(v) for k, v in result.items()})
        return None
    def go(parts):
        g = cuqi.sampler.Gibbs(joint, _legacy_strategy(strategy))
        _seed(S_run)
        outs = []
        for i, k in enumerate(parts):
            r = g.sample(k, Nb) if i == 0 else g.sample(k)
            outs.append({p: R.as_chain(v.samples).copy() for p, v in r.items()})
        return g, outs, r
    with contracts.ensure(cuqi.sampler.Gibbs, "step", post, log):
        gU, outU, retU = go([N + M])
        gS, outS, _ = go([N, M])
        # twin with refused requests (second warm-up, malformed N) between sample(N, Nb) and sample(M)
        gB = cuqi.sampler.Gibbs(joint, _legacy_strategy(strategy))
        _seed(S_run)
        gB.sample(N, Nb)
        snapG = _snap_obj(gB, ignore=("samples_warmup",))   # the warm-up record is rebuilt by every call (not part of the chain)
        reqs = [("sample(2.5)", lambda: gB.sample(2.5)), ("sample(-1)", lambda: gB.sample(-1)), ("sample('3')", lambda: gB.sample("3"))]
        if Nb:
            reqs.insert(0, ("second warm-up sample(3, Nb=2)", lambda: gB.sample(3, 2)))
            reqs.append(("second warm-up sample(1, Nb=1)", lambda: gB.sample(1, 1)))
        twin_ok = True
        for label, call in reqs:
            twin_ok = _after_refusal(ctx, cfg, label, snapG, call) and twin_ok
        if twin_ok:
            rB = gB.sample(M)
            for p in sorted(rB):
                ctx.count("refusal_twin_chain_compared")
                cB = R.as_chain(rB[p].samples)
                if not _cmp_chain(ctx, cB, outU[0][p]):
                    ctx.violation("run_with_refused_requests_differs", {**cfg, "variable": p},
                                  detail=f"Gibbs sample({N},{Nb}); refused requests; sample({M}) differs from sample({N + M},{Nb}) in '{p}': " + _first_diff(cB, outU[0][p]))
    names = sorted(outU[0])
    for p in names:
        ctx.count("chain_length_checked")
        if outU[0][p].shape[1] != N + M or outS[0][p].shape[1] != N or outS[1][p].shape[1] != N + M:
            ctx.violation("chain_length", {**cfg, "variable": p},
                          detail=f"sample({N + M},{Nb}) -> {outU[0][p].shape[1]}; sample({N},{Nb}) -> {outS[0][p].shape[1]}; then sample({M}) -> {outS[1][p].shape[1]}")
            return
    for g, out, tag in ((gU, outU[-1], "unsplit"), (gS, outS[-1], "split")):
        prod = produced.get(id(g), [])
        ctx.count("recorded_vs_transitions_compared")
        if len(prod) != Nb + N + M:
            ctx.violation("transition_count", {**cfg, "run": tag}, detail=f"{len(prod)} sweeps for {Nb}+{N + M} requested states")
            continue
        for p in names:
            ref = np.stack([st[p] for st in prod[Nb:]], axis=1)
            ctx.count("callback_state_compared", N + M)
            if not (ref.shape == out[p].shape and np.array_equal(ref, out[p])):
                ctx.violation("recorded_chain_differs_from_transitions", {**cfg, "variable": p},
                              detail=f"{tag}: returned chain of '{p}' is not the ordered list of post-burn-in states the sweeps produced: " + _first_diff(out[p], ref))
    prodU = produced.get(id(gU), [])
    if len(prodU) == Nb + N + M and N + M >= 2:
        for b in sorted({0, 1, N + M - 1}):
            for Nt in (1, 2, 3, 5):
                for p in names:
                    kind3, bt = core.outcome(retU[p].burnthin, b, Nt)
                    ctx.count("gibbs_burnthin_compared")
                    ref = np.stack([st[p] for st in prodU[Nb:]], axis=1)[:, b::Nt]
                    if kind3 != "value":
                        ctx.violation("burnthin_refused", {**cfg, "container": "dict"}, detail=f"burnthin({b},{Nt}) of '{p}' on a chain of {N + M} raised {bt!r}")
                    elif not (R.as_chain(bt.samples).shape == ref.shape and np.array_equal(R.as_chain(bt.samples), ref)):
                        ctx.violation("burnthin_not_slice", {**cfg, "container": "dict", "thinning": "1" if Nt == 1 else ">1"},
                                      detail=f"burnthin({b},{Nt}) of '{p}' on a chain of {N + M} does not keep the post-burn-in sweep states {b}, {b}+{Nt}, ...")
    ok = True
    for p in names:
        ctx.count("gibbs_split_compared")
        if not np.array_equal(outS[1][p][:, :N], outS[0][p]):
            ok = False
            ctx.violation("recorded_entry_altered", {**cfg, "variable": p}, detail=f"the first {N} entries of '{p}' changed when {M} more samples were drawn")
        if not _cmp_chain(ctx, outS[1][p], outU[0][p]):
            ok = False
            ctx.violation("split_run_differs", {**cfg, "variable": p, "warmup": bool(Nb)},
                          detail=f"Gibbs sample({N},{Nb}); sample({M}) differs from sample({N + M},{Nb}) in '{p}': " + _first_diff(outS[1][p], outU[0][p]))
    if ok and any(_n_distinct(outU[0][p]) >= 2 for p in names):
        ctx.nontrivial("legacy_gibbs:" + strategy)
    ctx.note("N_M_Nb", [N, M, Nb])

# --------------------------------------------------------------------------- entry points

def run_case(case, ctx):
    kind = case["kind"]
    if kind == "stateful":
        run_stateful(case, ctx)
    elif kind == "stateful_long":
        run_stateful_long(case, ctx)
    elif kind == "stateless":
        run_stateless(case, ctx)
    elif kind == "hybrid":
        run_hybrid(case, ctx)
    elif kind == "legacy_gibbs":
        run_legacy_gibbs(case, ctx)
    else:
        raise KeyError(kind)


def selftest(ctx):
    # the stream-position device: restoring the global state reproduces the draws of every API family
    np.random.seed(123)
    st = np.random.get_state()
    a = (np.random.randn(3), np.random.rand(2), np.random.exponential(1, size=1), np.random.gamma(2.0, 1.0, 2), np.random.normal(0, 1, 2))
    np.random.set_state(st)
    b = (np.random.randn(3), np.random.rand(2), np.random.exponential(1, size=1), np.random.gamma(2.0, 1.0, 2), np.random.normal(0, 1, 2))
    if not all(np.array_equal(x, y) for x, y in zip(a, b)):
        ctx.inconclusive("numpy global state does not reproduce the stream")
    # fingerprints: value based, copy-insensitive, sensitive to a single changed entry
    import scipy.sparse as sp
    v = {"a": np.arange(4.0), "b": [np.ones(2), 3], "c": sp.eye(3, format="csr"), "d": 1, "e": "unset", "f": None}
    w = {"a": np.arange(4.0).copy(), "b": [np.ones(2), 3.0], "c": sp.eye(3, format="csc"), "d": 1.0, "e": "unset", "f": None}
    if R.changed_keys(R.snapshot(v), R.snapshot(w)):
        ctx.inconclusive("fingerprint is not copy-insensitive: " + str(R.changed_keys(R.snapshot(v), R.snapshot(w))))
    w["a"][2] += 1e-13; w["b"][0][1] = 2; w["c"] = sp.eye(3, format="csr") * 2; w["e"] = 1.0; w["f"] = 0
    if R.changed_keys(R.snapshot(v), R.snapshot(w)) != ["a", "b", "c", "e", "f"]:
        ctx.inconclusive("fingerprint misses a change: " + str(R.changed_keys(R.snapshot(v), R.snapshot(w))))
    # chain bookkeeping
    x0 = np.array([0.0, 1.0]); tr = [np.array([1.0, 1.0]), np.array([2.0, 1.0]), np.array([2.0, 5.0])]
    e = R.expected_stateless_chain(x0, tr, 1)
    if e.shape != (2, 3) or not np.array_equal(e[:, 0], tr[0]) or not np.array_equal(e[:, -1], tr[-1]):
        ctx.inconclusive("expected_stateless_chain wrong")
    shifted = np.stack(tr + [tr[-1]], axis=1)
    if not R.is_previous_overwritten_pattern(shifted[:, 1:], x0, tr, 1) or R.is_previous_overwritten_pattern(e, x0, tr, 1):
        ctx.inconclusive("aliasing pattern recogniser wrong")
