"""C16 - solvers return points that satisfy the optimality conditions of their problem.

Workload (generated, well-posed by construction; reference models in vlib/refs/c16_ref.py):
  cgls / pcgls  random m x n problems (over/under-determined/square, cond <= 1e3, dense ndarray, scipy
                sparse, callable (x, flag)), shift 0 / > 0, zero / random start, four kinds of sparse
                preconditioner (incl. non-symmetric), explicit-inverse and spsolve paths of PCGLS
  fista         ISTA/FISTA with the shipped ProximalL1 / ProjectNonnegative / ProjectBox, several
                regularisation strengths, step {0.5, 0.99}/||A||^2, matrix and callable operator
  lm            Levenberg-Marquardt on six small non-linear least-squares families, dense and sparse Jacobians, three
                residual scalings, far starts and warm starts (1e-9 from a minimiser); explicit-matrix probe
  wrap          L_BFGS_B / minimize / maximize / LS around scipy, every documented method, with a recording
                pass-through on the scipy entry point the wrapper looks up at call time
  cg_floor      CGLS / PCGLS with tol = 1e-14 / 1e-16 (below the attainable accuracy) started 1e-2 / 1e-6 from the solution:
                a run that stops before maxit must still return the solution
  views         CGLS / PCGLS / FISTA / ISTA with function operators that return their argument, a numpy view of it (slice,
                truncation, reversal, reshape) or one re-used buffer, LM with residual/Jacobian functions writing into re-used
                buffers: must equal the matrix form / stay stationary; b, x0, A, P bitwise unchanged; solve() twice agrees
  prox          the three shipped maps against a brute-force 1-D grid argmin and their variational inequality
Monitors/oracles: residual of the optimality system recomputed independently at the returned point of
converged runs (iteration count < maxit; otherwise the run is inconclusive), dense reference solutions,
matrix form == callable form, start independence, prox-call trace of FISTA, verbatim comparison with the
recorded scipy result.
"""
import numpy as np
import scipy.sparse as sps
from vlib import core
from vlib.refs import c16_ref as R

PROPERTY = "C16"
RULE = ("discrete axes enumerated (solver x shape x shift x operator form x start x preconditioner kind/path; prox kind x "
        "ISTA/FISTA x step fraction x shape; NLS family x sparse/dense Jacobian; wrapper x scipy method x gradient given/not x "
        "kwargs variant; prox map x array shape x bound form), continuous ones (sizes, spectra, data, starts, tolerances) drawn "
        "from the seed; a case is non-trivial when at least one run converged (iterations < maxit) on a problem whose start is "
        "not already optimal and the deciding residual / verbatim comparison was evaluated; distinct = distinct descriptors")
ASSUMPTIONS = ["a run counts as 'run to convergence' only if the solver stopped before maxit by its own stopping rule",
               "maximize: info['func'/'grad'] are compared with scipy's values up to sign (the documentation does not say which sign is reported)",
               "numpy.linalg (svd, solve, lstsq, pinv), scipy nnls / bvls are trusted as references"]
REQUIRED_COUNTERS = {
    "quick": {"normal_eq_checked": 300, "normal_eq_checked_CGLS": 150, "normal_eq_checked_PCGLS_explicit_sym": 40,
              "normal_eq_checked_PCGLS_explicit_nonsym": 40, "normal_eq_checked_PCGLS_spsolve_sym": 40,
              "normal_eq_checked_PCGLS_spsolve_nonsym": 40, "ne_reference_solution_checked": 230,
              "operator_form_identity_checked": 120, "iteration_count_checked": 75, "start_independence_checked": 45,
              "fista_fixed_point_checked": 65, "fista_fixed_point_checked_FISTA": 30, "fista_fixed_point_checked_ISTA": 30,
              "fista_objective_probes": 13000, "fista_step_trace_checked": 9000, "lm_stationarity_checked": 18,
              "lm_stationarity_checked_dense": 8, "lm_stationarity_checked_sparse": 8, "wrapper_result_fields_checked": 450,
              "wrapper_forwarded_args_checked": 100, "wrapper_optimality_checked": 45, "prox_grid_checked": 1600,
              "prox_vi_checked": 8000, "cg_floor_stopped_runs_checked": 120, "cg_far_residual_checked": 30, "wrapper_vs_scipy_checked": 120, "view_callable_identity_checked": 35, "arguments_unchanged_checked": 80, "solver_reuse_checked": 35, "wrapper_unreported_field_checked": 10},
    "thorough": {"normal_eq_checked": 900, "normal_eq_checked_CGLS": 450, "normal_eq_checked_PCGLS_explicit_sym": 110,
                 "normal_eq_checked_PCGLS_explicit_nonsym": 110, "normal_eq_checked_PCGLS_spsolve_sym": 110,
                 "normal_eq_checked_PCGLS_spsolve_nonsym": 110, "ne_reference_solution_checked": 700,
                 "operator_form_identity_checked": 340, "iteration_count_checked": 230, "start_independence_checked": 130,
                 "fista_fixed_point_checked": 200, "fista_fixed_point_checked_FISTA": 100, "fista_fixed_point_checked_ISTA": 100,
                 "fista_objective_probes": 40000, "fista_step_trace_checked": 30000, "lm_stationarity_checked": 60,
                 "lm_stationarity_checked_dense": 30, "lm_stationarity_checked_sparse": 30, "wrapper_result_fields_checked": 1300,
                 "wrapper_forwarded_args_checked": 280, "wrapper_optimality_checked": 140, "prox_grid_checked": 5000,
                 "prox_vi_checked": 25000, "cg_floor_stopped_runs_checked": 500, "cg_far_residual_checked": 120, "wrapper_vs_scipy_checked": 400, "view_callable_identity_checked": 140, "arguments_unchanged_checked": 300, "solver_reuse_checked": 140, "wrapper_unreported_field_checked": 30}}
BUDGET_S = {"quick": 600.0, "thorough": 2400.0}

MIN_METHODS = [None, "BFGS", "CG", "L-BFGS-B", "TNC", "SLSQP", "Newton-CG", "trust-constr", "Nelder-Mead", "Powell", "COBYLA"]
BOUND_METHODS = [None, "L-BFGS-B", "TNC", "SLSQP", "trust-constr"]

# --------------------------------------------------------------------------- cases

def cases(tier, seed):
    rg = core.rng_for(seed, PROPERTY, "cases", tier)
    quick = tier == "quick"
    out = []
    nmax = 35 if quick else 120

    def dims(shape, hi):
        if shape == "over":
            n = rg.randint(2, hi); m = n + rg.randint(1, hi)
        elif shape == "under":
            m = rg.randint(2, hi); n = m + rg.randint(1, hi)
        else:
            n = m = rg.randint(2, hi)
        return m, n

    # ---- CGLS
    for rep in range(4 if quick else 12):
        for shape in ("over", "under", "square"):
            for shift in ("zero", "pos"):
                for mat in ("dense", "sparse"):
                    for x0 in ("zero", "random"):
                        m, n = dims(shape, nmax)
                        out.append({"kind": "cgls", "shape": shape, "shift": shift, "mat": mat, "x0": x0, "m": m, "n": n,
                                    "cond": rg.choice([10, 100, 1000]), "tol": rg.choice([1e-6, 1e-8, 1e-10]),
                                    "shiftval": rg.choice([0.01, 0.3, 5.0]), "scale": rg.choice([1e-3, 1.0, 1.0, 30.0]), "rep": rep})
                        _units(out[-1], rg)
    out.append({"kind": "cgls", "shape": "over", "shift": "zero", "mat": "dense", "x0": "solution", "m": 9, "n": 4,
                "cond": 10, "tol": 1e-8, "shiftval": 0.3, "scale": 1.0, "rep": 0})
    # ---- CGLS / PCGLS with a tolerance below the attainable accuracy, started near the solution
    for rep in range(1 if quick else 4):
        for solver in ("CGLS", "PCGLS"):
            for tol in (1e-14, 1e-16):
                for offset in (1e-2, 1e-6):
                    for size in ("tiny", "small"):
                        out.append({"kind": "cg_floor", "solver": solver, "tol": tol, "offset": offset, "size": size, "rep": rep})
    # ---- callables that return views of their argument / the same preallocated buffer; solver objects used twice
    for rep in range(2 if quick else 8):
        for solver in ("CGLS", "PCGLS", "FISTA", "ISTA"):
            for op in ("identity", "slice", "truncate", "reverse", "reshape", "buffer"):
                out.append({"kind": "views", "solver": solver, "op": op, "n": rg.randint(4, 41), "shift": rg.choice(["zero", "pos"]),
                            "prox": rg.choice(["l1", "nonneg", "box"]), "x0": rg.choice(["zero", "random"]), "rep": rep})
        for op in ("identity_view", "buffer_r", "buffer_J", "buffer_both", "cached_J"):
            for name in (("linear",) if op in ("identity_view", "cached_J") else R.NLS_NAMES):
                out.append({"kind": "views", "solver": "LM", "op": op, "problem": name, "sparse": False, "rep": rep})
    # ---- start far from the solution / zero solution / start at the exact solution: no refusal, stopping rule honoured
    for rep in range(1 if quick else 4):
        for solver in ("CGLS", "PCGLS"):
            for form in ("matrix", "callable"):
                for shift in ("zero", "pos"):
                    for tol, logF in ((1e-6, 3), (1e-6, 5), (1e-9, 5), (1e-9, 8), (1e-12, 7), (1e-12, 9), (1e-12, 11)):
                        out.append({"kind": "cg_far", "solver": solver, "form": form, "shift": shift, "variant": "far", "tol": tol, "logF": logF, "rep": rep})
                    for tol in (1e-6, 1e-12):
                        out.append({"kind": "cg_far", "solver": solver, "form": form, "shift": shift, "variant": "zero_solution", "tol": tol,
                                    "logF": rg.choice([0, 3]), "rep": rep})
                    if shift == "zero":
                        out.append({"kind": "cg_far", "solver": solver, "form": form, "shift": shift, "variant": "exact_start", "tol": 1e-8, "logF": 0, "rep": rep})
    # ---- PCGLS
    for rep in range(2 if quick else 6):
        for shape in ("over", "under", "square"):
            for shift in ("zero", "pos"):
                for pkind in ("diag", "spd", "upper", "general"):
                    for path in ("explicit", "spsolve"):
                        m, n = dims(shape, nmax)
                        out.append({"kind": "pcgls", "shape": shape, "shift": shift, "pkind": pkind, "path": path,
                                    "mat": rg.choice(["dense", "sparse"]), "x0": rg.choice(["zero", "random"]), "m": m, "n": n,
                                    "cond": rg.choice([10, 100, 1000]), "tol": rg.choice([1e-6, 1e-8, 1e-10]),
                                    "shiftval": rg.choice([0.01, 0.3, 5.0]), "scale": rg.choice([1e-3, 1.0, 1.0, 30.0]), "rep": rep})
                        _units(out[-1], rg, precond=True)
    # ---- FISTA / ISTA
    fmax = 14 if quick else 30
    for rep in range(2 if quick else 6):
        for prox in ("l1", "nonneg", "box"):
            for adaptive in (True, False):
                for frac in (0.5, 0.99):
                    for shape in ("over", "under"):
                        for mat in ("dense", "sparse"):
                            m, n = dims(shape, fmax)
                            out.append({"kind": "fista", "prox": prox, "adaptive": adaptive, "frac": frac, "shape": shape, "mat": mat,
                                        "m": m, "n": n, "cond": rg.choice([3, 10, 30]), "lam": rg.choice([0.01, 0.1, 1.0, 1.0, 10.0]),
                                        "box": rg.choice(["default", "scalar", "array"]), "x0": rg.choice(["zero", "random"]),
                                        "abstol": rg.choice([1e-7, 1e-9]), "rep": rep})
                            _units(out[-1], rg)
    # ---- LM
    for rep in range(4 if quick else 14):
        for name in R.NLS_NAMES:
            for sparse in (False, True):
                out.append({"kind": "lm", "problem": name, "sparse": sparse, "gradtol": rg.choice([1e-6, 1e-8, 1e-10]),
                            "nu0": rg.choice([1e-3, 1e-1]),
                            "scale": rg.choice([1e-8, 1e-6, 1e-4, 1e-3, 0.03, 1.0, 1.0, 1.0, 20.0, 1e3, 1e6, 1e8]), "rep": rep})
    for rep in range(1 if quick else 3):
        for name in R.NLS_NAMES:
            out.append({"kind": "lm", "problem": name, "sparse": bool(rep % 2), "gradtol": 1e-8, "nu0": 1e-3, "scale": 1.0, "warm": True, "rep": rep})
    for rep in range(6 if quick else 20):
        for name in R.NLS_NAMES:
            out.append({"kind": "lm", "problem": name, "sparse": bool(rep % 2), "gradtol": rg.choice([1e-6, 1e-8]), "nu0": rg.choice([1e-3, 1e-3, 1e-1]),
                        "scale": rg.choice([1e-3, 1.0, 1.0, 1.0, 1e3]), "far": True, "rep": rep})
    for sparse in (False, True):
        out.append({"kind": "lm_explicit", "sparse": sparse})
    # ---- scipy wrappers
    for rep in range(2 if quick else 6):
        for solver in ("minimize", "maximize"):
            for method in MIN_METHODS:
                for grad in (True, False):
                    out.append({"kind": "wrap", "solver": solver, "method": method, "grad": grad, "fn": rg.choice(R.SMOOTH_NAMES),
                                "variant": rg.choice(["plain", "plain", "tol", "maxiter"]), "x0type": rg.choice(["ndarray", "cuqi"]), "rep": rep})
            for method in BOUND_METHODS:
                out.append({"kind": "wrap", "solver": solver, "method": method, "grad": rg.choice([True, False]), "fn": "quad",
                            "variant": "bounds", "x0type": rg.choice(["ndarray", "cuqi"]), "rep": rep})
        for fn in R.SMOOTH_NAMES:
            for grad in (True, False):
                for variant in ("plain", "maxiter", "bounds", "factr") + (("wronggrad",) if grad else ()):
                    out.append({"kind": "wrap", "solver": "L_BFGS_B", "method": None, "grad": grad, "fn": fn, "variant": variant,
                                "x0type": rg.choice(["ndarray", "cuqi"]), "rep": rep})
        # every documented pass-through keyword, once at a value equal to scipy's default and once at another value
        for kw in ("m", "factr", "pgtol", "epsilon", "maxiter", "maxfun", "bounds"):
            for level in ("def", "non"):
                out.append({"kind": "wrap", "solver": "L_BFGS_B", "method": None, "grad": kw != "epsilon", "fn": rg.choice(R.SMOOTH_NAMES),
                            "variant": f"kw:{kw}:{level}", "x0type": rg.choice(["ndarray", "cuqi"]), "rep": rep})
        for solver in ("minimize", "maximize"):
            for kw in ("tol", "options", "bounds", "callback"):
                for level in ("def", "non"):
                    out.append({"kind": "wrap", "solver": solver, "method": rg.choice([None, "BFGS", "L-BFGS-B", "SLSQP", "TNC"]) if kw != "bounds" else rg.choice(BOUND_METHODS),
                                "grad": rg.choice([True, False]), "fn": rg.choice(R.SMOOTH_NAMES) if kw != "bounds" else "quad",
                                "variant": f"kw:{kw}:{level}", "x0type": rg.choice(["ndarray", "cuqi"]), "rep": rep})
        for name in R.NLS_NAMES:
            for method in ("trf", "dogbox", "lm"):
                for jac in (True, False):
                    out.append({"kind": "wrap", "solver": "LS", "method": method, "grad": jac, "fn": name,
                                "variant": rg.choice(["linear", "linear", "soft_l1", "huber"]) if method != "lm" else "linear",
                                "x0type": rg.choice(["ndarray", "cuqi"]), "rep": rep})
    # ---- projections / prox
    for rep in range(2 if quick else 6):
        for op in ("l1", "nonneg", "box"):
            for shape in ("scalar", "vector", "matrix"):
                for variant in (("g_small", "g_one", "g_large") if op == "l1" else ("plain",) if op == "nonneg" else
                                ("default", "scalar", "array", "lower_only", "upper_only", "degenerate")):
                    out.append({"kind": "prox", "op": op, "shape": shape, "variant": variant, "rep": rep})
    return out

SCALES = (-12, -8, -6, -4, -3, 0, 3, 6, 8)

def _units(case, rg, precond=False):
    """scale axis: operator and data (and preconditioner) in other units, jointly or separately, by 10^k"""
    mode = rg.choice(["none", "joint", "joint", "A_only", "b_only"])
    ka = kb = 0
    if mode == "joint":
        ka = kb = rg.choice(SCALES)
    elif mode == "A_only":
        ka = rg.choice((-6, -4, -3, 3, 6, 8))       # x scales like 10^-ka: keep ||x||*tol below 1
    elif mode == "b_only":
        kb = rg.choice(SCALES)
    case["ka"], case["kb"] = ka, kb
    if precond:
        case["kp"] = rg.choice((-6, -3, 0, 0, 3, 6))
    if kb - ka >= 3 and "tol" in case:
        case["tol"] = 1e-10
        case["scale"] = min(case["scale"], 1.0)
        case["cond"] = min(case["cond"], 100)

def crash_config(case):
    return {k: case[k] for k in ("kind", "solver", "method", "shape", "shift", "mat", "pkind", "path", "prox", "adaptive", "size", "op",
                                 "problem", "sparse", "op", "variant") if k in case}

# --------------------------------------------------------------------------- helpers

def _norm(v):
    return float(np.linalg.norm(np.asarray(v, dtype=float).ravel()))

def _mk_callable(A, log):
    def f(x, flag):
        log.append((flag, np.shape(x)))
        if flag == 2:
            return A.T @ x
        return A @ x          # any other flag is recorded and judged afterwards
    return f

def _problem(case, rs):
    m, n = case["m"], case["n"]
    if case["mat"] == "dense":
        A = R.dense_matrix(rs, m, n, float(case["cond"]))
    else:
        A = R.sparse_matrix(rs, m, n, float(case["cond"]))
    b = rs.standard_normal(m) * float(rs.uniform(0.5, 4.0)) * float(case.get("scale", 1.0))
    return A, b

# --------------------------------------------------------------------------- CGLS / PCGLS

def _run_ne(case, ctx):
    import cuqi
    from cuqi.solver._solver import CGLS, PCGLS
    rs = core.np_rng(ctx.seed, PROPERTY, core.canon(case))
    pc = case["kind"] == "pcgls"
    A, b = _problem(case, rs)
    # units: operator, data (and preconditioner) scaled jointly or separately by powers of ten
    sa, sb, sp_ = 10.0 ** int(case.get("ka", 0)), 10.0 ** int(case.get("kb", 0)), 10.0 ** int(case.get("kp", 0))
    if sa != 1.0:
        A = A * sa
    b = b * sb
    xunit = (sb / sa) * float(case["scale"])
    m, n = A.shape
    Ad = R.dense(A)
    sv = R.svals(A)
    shift = 0.0 if case["shift"] == "zero" else float(case["shiftval"]) * float(sv[0] ** 2)
    tol = float(case["tol"])
    maxit = 25 * max(m, n) + 400
    P = (R.preconditioner(rs, n, case["pkind"]) * sp_).tocsc() if pc else None
    Pd = None if P is None else P.toarray()
    if case["x0"] == "zero":
        x0 = np.zeros(n)
    elif case["x0"] == "solution":
        x0 = np.zeros(n); b = np.zeros(m)          # start == solution exactly (relative rule degenerates to 0 <= 0)
    else:
        x0 = rs.standard_normal(n) * float(rs.uniform(0.3, 3.0)) * xunit
    x0b = x0 + rs.standard_normal(n) * 2.0 * xunit
    cfg0 = {"solver": "PCGLS" if pc else "CGLS", "shape": case["shape"], "shift": case["shift"], "mat": case["mat"],
            "scaled": bool(sa != 1.0 or sb != 1.0 or sp_ != 1.0)}
    if pc:
        cfg0.update({"pkind": case["pkind"], "path": case["path"]})
    cat = "CGLS" if not pc else "PCGLS_%s_%s" % (case["path"], "sym" if case["pkind"] in ("diag", "spd") else "nonsym")
    nA = float(sv[0])
    nP, nPi = (1.0, 1.0) if Pd is None else (float(np.linalg.norm(Pd, 2)), float(np.linalg.norm(np.linalg.inv(Pd), 2)))

    def solve(Aform, start):
        if not pc:
            return CGLS(Aform, b.copy(), start.copy(), maxit, tol, shift).solve()
        old = cuqi.config.MAX_DIM_INV
        try:
            if case["path"] == "spsolve":
                cuqi.config.MAX_DIM_INV = 1
            s = PCGLS(Aform, b.copy(), start.copy(), P.copy(), maxit, tol, shift)
            if (case["path"] == "spsolve") == bool(getattr(s, "_explicitPinv", None)):
                ctx.note("pinv_path_unexpected", case["path"])
            return s.solve()
        finally:
            cuqi.config.MAX_DIM_INV = old

    def judge(form, start, x, k):
        """Optimality of one run. Returns (usable, errbound) where usable means converged and consistent."""
        cfg = dict(cfg0, form=form)
        x = np.asarray(x, dtype=float)
        if x.shape != (n,) or not np.all(np.isfinite(x)):
            ctx.violation("solution_malformed", cfg, detail=f"shape {x.shape}, finite={bool(np.all(np.isfinite(x)))} (m={m}, n={n})")
            return False, None
        g = R.ne_residual(Ad, b, x, shift, Pd)
        g0 = R.ne_residual(Ad, b, start, shift, Pd)
        if int(k) >= maxit:
            # cond <= 1e3 and maxit = 25*max(m,n)+400: CG terminates long before in any correct implementation
            if _norm(g0) > 0:
                ctx.violation("no_progress" if _norm(g) >= _norm(g0) else "no_convergence", cfg,
                              detail=f"m={m} n={n} cond={case['cond']} tol={tol} units A*{sa:g} b*{sb:g}: after maxit={maxit} (= 25*max(m,n)+400) iterations the "
                                     f"normal-equation residual is {_norm(g):.3e}, at the start it was {_norm(g0):.3e}; CG on a problem of this size "
                                     f"and condition terminates within a few multiples of its dimension")
            ctx.inconclusive(f"{cfg0['solver']} reached maxit={maxit} (m={m}, n={n}, cond={case['cond']}, tol={tol})")
            ctx.count("not_converged")
            return False, None
        if _norm(x) * tol >= 1:
            ctx.inconclusive("stopped by the ||x||*tol >= 1 rule"); return False, None
        scale = nPi * nPi * nA * nA * nP * max(_norm(x), _norm(start)) + nPi * nA * _norm(b) + nPi * shift * _norm(x)
        drift = 1e3 * R.EPS * (int(k) + 1) * scale
        bound = 1.01 * tol * _norm(g0) + drift
        ctx.count("normal_eq_checked")
        ctx.count("normal_eq_checked_" + cat)
        _track(ctx, "max_k_over_dim", int(k) / max(m, n))
        ctx.note("ne_resid/bound", [_norm(g), bound])
        if _norm(g) <= bound:
            _track(ctx, "max_ne_excess_over_tol_in_drift_units", (_norm(g) - tol * _norm(g0)) / (R.EPS * (int(k) + 1) * max(scale, 1e-300)))
        if _norm(g) > bound:
            if shift > 0:
                gu = R.ne_residual(Ad, b, x, 0.0, Pd); gu0 = R.ne_residual(Ad, b, start, 0.0, Pd)
                cfg["solves_unshifted"] = bool(_norm(gu) <= 1.01 * tol * _norm(gu0) + drift)
            ctx.violation("normal_equations_residual", cfg,
                          detail=f"m={m} n={n} shift={shift:.4g} tol={tol} k={k}: ||{'P^-T(' if pc else '('}A^T(b-Ax)-s x)|| = {_norm(g):.4e} > "
                                 f"tol*initial = {tol*_norm(g0):.4e} (+ round-off allowance {drift:.2e})")
            return False, None
        xs, lam, unique = R.ne_solution(Ad, b, shift, start, Pd)
        kappa = (nPi * nA) ** 2 / lam + (shift * nPi * nPi / lam)
        errbound = 2.0 * nPi * bound / lam + 100 * R.EPS * kappa * nPi * nP * (_norm(xs) + _norm(start) + _norm(b) / nA)
        ctx.count("ne_reference_solution_checked")
        _track(ctx, "max_ref_err_over_bound", _norm(x - xs) / errbound)
        if _norm(x - xs) > errbound:
            ctx.violation("reference_solution_mismatch", dict(cfg, unique=unique),
                          detail=f"m={m} n={n} shift={shift:.4g}: ||x - x_ref|| = {_norm(x-xs):.4e} > {errbound:.4e} "
                                 f"(x_ref = {'solve(A^T A + sI, A^T b)' if unique else 'x0 + P^-1 pinv(A P^-1)(b - A x0)'})")
            return False, None
        return True, errbound

    forms = {"matrix": A}
    log = []
    forms["callable"] = _mk_callable(A, log)
    res = {}
    for form, Af in forms.items():
        x, k = solve(Af, x0)
        res[form] = (np.asarray(x, dtype=float), int(k)) + judge(form, x0, x, k)
    # operator given as matrix or as function: identical
    (xm, km, okm, ebm), (xc, kc, okc, ebc) = res["matrix"], res["callable"]
    ctx.count("operator_form_identity_checked")
    if km != kc or xm.shape != xc.shape or _norm(xm - xc) > 1e-10 * (_norm(xm) + _norm(x0)):
        ctx.violation("operator_form_mismatch", cfg0,
                      detail=f"matrix form: k={km}, callable form: k={kc}, ||dx|| = {_norm(xm-xc) if xm.shape==xc.shape else 'shape'}")
    bad = [f for f in log if f[0] not in (1, 2) or f[1] != ((n,) if f[0] == 1 else (m,))]
    ctx.count("callable_protocol_calls_checked", len(log))
    if bad or not log:
        ctx.violation("callable_protocol", cfg0, detail=f"operator called with (flag, shape) = {bad[:3]} (m={m}, n={n}); {len(log)} calls")
    # the reported iteration count is what decides 'converged' above: it must be the number of forward applications - 1
    nfw = sum(1 for f in log if f[0] == 1)
    ctx.count("iteration_count_checked")
    if nfw != kc + 1:
        ctx.violation("iteration_count_inconsistent", cfg0, detail=f"returned k={kc}, but the operator was applied forward {nfw} times (1 initial + one per iteration)")
    # the other storage format of the same matrix
    Aalt = sps.csr_matrix(Ad) if case["mat"] == "dense" else Ad
    xa, ka = solve(Aalt, x0)
    judge("csr_of_dense" if case["mat"] == "dense" else "dense_of_sparse", x0, xa, ka)
    # another start
    if case["x0"] != "solution":
        xb, kb = solve(A, x0b)
        okb, ebb = judge("matrix", x0b, xb, kb)
        unique = (m >= n) or shift > 0
        if okm and okb and unique:
            ctx.count("start_independence_checked")
            if _norm(xm - np.asarray(xb)) > ebm + ebb:
                ctx.violation("start_dependence", cfg0, detail=f"two starts give solutions {_norm(xm-xb):.3e} apart (> {ebm+ebb:.3e})")
    if okm and (case["x0"] != "solution"):
        ctx.nontrivial()
    ctx.note("k_matrix", km)

def _run_cg_floor(case, ctx):
    """tol below what floating point can deliver, start close to the solution: whenever the solver stops before maxit
    (i.e. by one of its own rules) the returned point must still be the solution."""
    from cuqi.solver._solver import CGLS, PCGLS
    rs = core.np_rng(ctx.seed, PROPERTY, core.canon(case))
    tol, maxit = float(case["tol"]), 300
    nprob = 60
    for _ in range(nprob):
        n = int(rs.randint(2, 5)) if case["size"] == "tiny" else int(rs.randint(5, 25))
        m = n + int(rs.randint(1, 10))
        A = R.dense_matrix(rs, m, n, float(rs.choice([3.0, 30.0])))
        b = rs.standard_normal(m)
        xs = np.linalg.lstsq(A, b, rcond=None)[0]
        x0 = xs + float(case["offset"]) * rs.standard_normal(n)
        if case["solver"] == "CGLS":
            x, k = CGLS(A, b.copy(), x0.copy(), maxit, tol).solve()
        else:
            x, k = PCGLS(A, b.copy(), x0.copy(), R.preconditioner(rs, n, "diag"), maxit, tol).solve()
        x = np.asarray(x, dtype=float)
        ctx.count("cg_floor_runs")
        if int(k) >= maxit:
            ctx.count("cg_floor_reached_maxit")         # not 'run to convergence': nothing to decide
            continue
        ctx.count("cg_floor_stopped_runs_checked")
        err = _norm(x - xs) if x.shape == xs.shape else np.inf
        if err <= 1e-6 * (1 + _norm(xs)):
            _track(ctx, "max_cg_floor_err", err / (1 + _norm(xs)))
        else:
            rule = "xnorm" if (np.all(np.isfinite(x)) and _norm(x) * tol >= 1) else "other"
            ctx.violation("garbage_after_convergence", {"solver": case["solver"], "tol": "below_floor", "stop_rule": rule},
                          detail=f"{case['solver']} m={m} n={n} tol={tol} start {case['offset']:g} from the solution: stopped after k={k} < maxit={maxit} "
                                 f"with ||x|| = {_norm(x):.3e}, ||x - x_ref|| = {err:.3e} (||x_ref|| = {_norm(xs):.3e})")
    ctx.nontrivial()

def _run_cg_far(case, ctx):
    """Start 1e3..1e11 times larger than the solution (F*tol <= 0.1, so the ||x||*tol >= 1 exit stays out of play), zero
    solution from a non-zero start, start at the exact solution: solve() must return (no refusal) a point that honours
    the stopping rule ||(P^-T)(A^T(b-Ax)-s x)|| <= tol * (the same at x0)."""
    from cuqi.solver._solver import CGLS, PCGLS
    rs = core.np_rng(ctx.seed, PROPERTY, core.canon(case))
    solver, variant, tol = case["solver"], case["variant"], float(case["tol"])
    cfg = {"solver": solver, "form": case["form"], "shift": case["shift"], "start": variant}
    n = int(rs.randint(3, 25)); m = n + int(rs.randint(0, 15))
    if variant == "exact_start":
        for _ in range(50):
            A = rs.randint(-3, 4, size=(m, n)).astype(float)
            if np.linalg.matrix_rank(A) == n and np.linalg.cond(A) < 1e3:
                break
        xs = rs.randint(-4, 5, size=n).astype(float)
        b = A @ xs                                   # exact in floating point (small integers)
        x0 = xs.copy()
    else:
        A = R.dense_matrix(rs, m, n, float(rs.choice([3.0, 30.0])))
        if variant == "zero_solution":
            b = np.zeros(m)
            x0 = rs.standard_normal(n) * 10.0 ** int(case["logF"])
        else:
            b = A @ rs.standard_normal(n) + 0.1 * rs.standard_normal(m)
    sv = R.svals(A)
    shift = 0.0 if case["shift"] == "zero" else 0.3 * float(sv[0] ** 2)
    P = R.preconditioner(rs, n, "spd") if solver == "PCGLS" else None
    Pd = None if P is None else P.toarray()
    if variant == "far":
        xref = np.linalg.solve(A.T @ A + shift * np.eye(n), A.T @ b)
        d = rs.standard_normal(n); d /= _norm(d)
        x0 = xref + (10.0 ** int(case["logF"])) * _norm(xref) * d
    maxit = 25 * max(m, n) + 400
    log = []
    Af = A if case["form"] == "matrix" else _mk_callable(A, log)
    mk = (lambda: CGLS(Af, b.copy(), x0.copy(), maxit, tol, shift)) if solver == "CGLS" else (lambda: PCGLS(Af, b.copy(), x0.copy(), P.copy(), maxit, tol, shift))
    kind_, val = core.outcome(lambda: mk().solve(), refusal=Exception)
    ctx.count("cg_far_runs")
    if kind_ != "value":
        ctx.violation("refused_on_solvable_problem", dict(cfg, exc=type(val).__name__),
                      detail=f"{solver} m={m} n={n} cond<=30 tol={tol} ||x0||/||x*|| = 1e{case['logF']}: solve() raised {val!r} instead of returning the "
                             f"normal-equations solution")
        return
    x, k = val
    x = np.asarray(x, dtype=float)
    if x.shape != (n,) or not np.all(np.isfinite(x)):
        ctx.violation("solution_malformed", cfg, detail=f"shape {x.shape} / non-finite"); return
    if int(k) >= maxit:
        ctx.inconclusive(f"{solver} reached maxit from a far start (tol={tol}, F=1e{case['logF']})"); ctx.count("not_converged"); return
    if _norm(x) * tol >= 1:
        ctx.inconclusive("stopped by the ||x||*tol >= 1 rule"); return
    g, g0 = R.ne_residual(A, b, x, shift, Pd), R.ne_residual(A, b, x0, shift, Pd)
    nA = float(sv[0]); nP, nPi = (1.0, 1.0) if Pd is None else (float(np.linalg.norm(Pd, 2)), float(np.linalg.norm(np.linalg.inv(Pd), 2)))
    scale = nPi * nPi * nA * nA * nP * max(_norm(x), _norm(x0)) + nPi * nA * _norm(b) + nPi * shift * _norm(x)
    bound = 1.01 * tol * _norm(g0) + 1e3 * R.EPS * (int(k) + 1) * scale
    ctx.count("cg_far_residual_checked")
    if _norm(g) <= bound:
        _track(ctx, "max_cg_far_resid_over_bound", _norm(g) / bound if bound > 0 else 0.0)
    else:
        ctx.violation("normal_equations_residual", dict(cfg, solves_unshifted=False),
                      detail=f"{solver} m={m} n={n} tol={tol} start {variant} F=1e{case['logF']}: residual {_norm(g):.3e} > tol*initial {tol*_norm(g0):.3e} (+{bound-1.01*tol*_norm(g0):.1e})")
        return
    if variant == "exact_start" and not np.array_equal(x, xs):
        ctx.violation("reference_solution_mismatch", dict(cfg, unique=True), detail=f"started at the exact solution, returned a point {_norm(x-xs):.3e} away")
    ctx.nontrivial()

def _view_operator(op, n, rs):
    """(matrix, callable) of the same linear map; the callable returns its argument, a numpy VIEW of it, or one and the
    same preallocated buffer on every call - all of which a user-supplied forward/adjoint function may legitimately do."""
    I = np.eye(n)
    if op in ("identity", "reshape"):
        M = I
        if op == "identity":
            f = lambda v, flag: v
        else:
            f = lambda v, flag: v.reshape(1, -1)[0]
    elif op == "reverse":
        M = I[::-1].copy()
        f = lambda v, flag: v[::-1]
    elif op in ("slice", "truncate"):
        M = (I[::2] if op == "slice" else I[: max(2, (2 * n) // 3)]).copy()
        mm = M.shape[0]
        bufn = np.zeros(n)
        def f(v, flag):
            if flag == 1:
                return v[::2] if op == "slice" else v[:mm]
            bufn[:] = 0.0                       # adjoint: zero padding, written into a re-used buffer
            if op == "slice":
                bufn[::2] = v
            else:
                bufn[:mm] = v
            return bufn
    elif op == "buffer":
        mm = n + int(rs.randint(0, 10))
        M = R.dense_matrix(rs, mm, n, 30.0)
        bm, bn = np.zeros(mm), np.zeros(n)
        def f(v, flag):
            if flag == 1:
                np.dot(M, v, out=bm); return bm
            np.dot(M.T, v, out=bn); return bn
    else:
        raise ValueError(op)
    return M, f

def _run_views(case, ctx):
    """User callables that return views / re-used buffers must give what the matrix form gives; arguments stay untouched;
    a solver object can be solved twice."""
    import scipy.sparse as sps_
    from cuqi.solver import FISTA, LM, ProximalL1, ProjectNonnegative, ProjectBox
    from cuqi.solver._solver import CGLS, PCGLS
    rs = core.np_rng(ctx.seed, PROPERTY, core.canon(case))
    solver, op = case["solver"], case["op"]
    cfg = {"solver": solver, "operator": op}
    if solver == "LM":
        name = case["problem"]
        pb = R.nls_problem(name, rs)
        if op == "identity_view":
            n = pb.n
            Ic = np.eye(n)
            pbv = R.NLS("identity", (lambda x: x), (lambda x: Ic), pb.x0 + 1.0, n, n)
            rf, Jf, pb = (lambda x: x), (lambda x: Ic), pbv          # r returns its argument itself, J one cached array
        else:
            rbuf, Jbuf = np.zeros(pb.m), np.zeros((pb.m, pb.n))
            Jconst = pb.J(pb.x0).copy()
            def r_b(x):
                np.copyto(rbuf, pb.r(x)); return rbuf
            def J_b(x):
                np.copyto(Jbuf, pb.J(x)); return Jbuf
            rf = r_b if op in ("buffer_r", "buffer_both") else pb.r
            Jf = J_b if op in ("buffer_J", "buffer_both") else ((lambda x: Jconst) if op == "cached_J" else pb.J)
        x0 = pb.x0.copy(); x0_snap = x0.copy()
        with np.errstate(all="ignore"):
            ka, va = core.outcome(lambda: LM(pb.r, pb.x0.copy(), pb.J, maxit=3000, gradtol=1e-8, sparse=False).solve())
            obj = LM(rf, x0, Jf, maxit=3000, gradtol=1e-8, sparse=False)
            kb, vb = core.outcome(obj.solve)
            kc, vc = core.outcome(obj.solve)
        ctx.count("views_runs")
        if "refused" in (ka, kb, kc) or "crashed" in (ka, kb, kc):
            if ka == "value":
                ctx.violation("view_callable_mismatch", dict(cfg, what="exception"), detail=f"fresh-array functions: value; {op}: {vb!r} / {vc!r}")
            else:
                ctx.refused("LM", va)
            return
        ctx.count("arguments_unchanged_checked")
        if not np.array_equal(x0, x0_snap):
            ctx.violation("argument_modified", dict(cfg, argument="x0"), detail="x0 was modified by LM.solve()")
        (xa, ia), (xb, ib), (xc_, ic) = va, vb, vc
        xa, xb, xc_ = (np.array(v, dtype=float, copy=True).ravel() for v in (xa, xb, xc_))
        ctx.count("solver_reuse_checked")
        if not (np.array_equal(xb, xc_, equal_nan=True) and ib["nfev"] == ic["nfev"]):
            ctx.violation("solver_reuse_mismatch", cfg, detail=f"second solve() on the same LM object: nfev {ib['nfev']} -> {ic['nfev']}, ||dx|| = {_norm(xb-xc_):.3e}")
        ctx.count("view_callable_identity_checked")
        g0 = _norm(pb.J(pb.x0).T @ pb.r(pb.x0))
        gb = _norm(pb.J(xb).T @ pb.r(xb)) if np.all(np.isfinite(xb)) else np.inf
        same = ia["nfev"] == ib["nfev"] and np.all(np.isfinite(xb)) and _norm(xa - xb) <= 1e-9 * (1 + _norm(xa))
        if not same:
            ctx.count("lm_buffer_trajectory_differs")      # recorded only: the property speaks about the returned point
        if not np.all(np.isfinite(xb)):
            ctx.violation("nonfinite_solution", dict(cfg, stopped_before_maxit=bool(ib["nfev"] < 3000)),
                          detail=f"{pb.name}: functions returning {op}: LM returned {xb.tolist()} (fresh arrays: {xa.tolist()})")
        elif ib["nfev"] < 3000:
            Jb, rb = pb.J(xb), pb.r(xb)
            nJ = max(float(np.linalg.norm(Jb, 2)), float(np.linalg.norm(pb.J(pb.x0), 2)))
            allow = 1e-8 * g0 * (1 + 1e-6) + 1e-5 * nJ * _norm(rb) + 1e-10 * nJ * _norm(pb.r(pb.x0))
            ctx.count("lm_stationarity_checked")
            if gb > allow:
                ctx.violation("not_stationary", dict(cfg, stagnated=False),
                              detail=f"{pb.name}: functions returning {op}: nfev={ib['nfev']} x={xb.tolist()} ||J^T r||/||J0^T r0|| = {gb/g0:.3e} "
                                     f"(fresh arrays: nfev={ia['nfev']} x={xa.tolist()})")
        ctx.nontrivial()
        return

    n = int(case["n"])
    M, f = _view_operator(op, n, rs)
    m = M.shape[0]
    b = rs.standard_normal(m) * 2.0
    x0 = np.zeros(n) if case["x0"] == "zero" else rs.standard_normal(n)
    b_snap, x0_snap, M_snap = b.copy(), x0.copy(), M.copy()
    smax = float(R.svals(M)[0])
    if solver in ("CGLS", "PCGLS"):
        shift = 0.0 if case["shift"] == "zero" else 0.3 * smax ** 2
        tol, maxit = 1e-9, 25 * max(m, n) + 400
        P = R.preconditioner(rs, n, "general") if solver == "PCGLS" else None
        P_snap = None if P is None else P.toarray().copy()
        mk = (lambda A_: CGLS(A_, b, x0, maxit, tol, shift)) if solver == "CGLS" else (lambda A_: PCGLS(A_, b, x0, P, maxit, tol, shift))
        def optimal(x, k):
            Pd = None if P is None else P_snap
            g, g0 = R.ne_residual(M_snap, b_snap, x, shift, Pd), R.ne_residual(M_snap, b_snap, x0_snap, shift, Pd)
            return k < maxit and _norm(g) <= 1.01 * tol * _norm(g0) + 1e-12 * (_norm(b_snap) + _norm(x)) * max(1.0, smax) ** 2
    else:
        kind = case["prox"]
        lam = 0.3
        t = 0.9 / smax ** 2
        abstol, maxit = 1e-9, 30000
        lo, hi = (-0.3, 0.4) if kind == "box" else (None, None)
        prox = (lambda z, g: ProximalL1(z, lam * g)) if kind == "l1" else (lambda z, g: ProjectNonnegative(z)) if kind == "nonneg" else \
            (lambda z, g: ProjectBox(z, lo, hi))
        cfg["prox"] = kind
        P, P_snap = None, None
        mk = lambda A_: FISTA(A_, b, x0, prox, maxit=maxit, stepsize=t, abstol=abstol, adaptive=(solver == "FISTA"))
        def optimal(x, k):
            return k < maxit and _norm(x - R.prox_grad_map(M_snap, b_snap, x, t, kind, lam, lo, hi)) <= 10 * abstol + 1e-11 * (1 + _norm(x))
    xm, km = mk(M).solve()
    obj = mk(f)
    xf, kf = obj.solve()
    xf = np.array(xf, dtype=float, copy=True)
    xf2, kf2 = obj.solve()
    xm, xf2 = np.asarray(xm, dtype=float), np.asarray(xf2, dtype=float)
    ctx.count("views_runs")
    ctx.count("arguments_unchanged_checked", 3 + (P is not None))
    for nm, now, snap in (("b", b, b_snap), ("x0", x0, x0_snap), ("A", M, M_snap)) + ((("P", P.toarray(), P_snap),) if P is not None else ()):
        if not np.array_equal(now, snap):
            ctx.violation("argument_modified", dict(cfg, argument=nm), detail=f"{nm} was modified by {solver}.solve() (max change {np.max(np.abs(now-snap)):.3e})")
    ctx.count("solver_reuse_checked")
    if int(kf) != int(kf2) or not np.array_equal(xf, xf2, equal_nan=True):
        ctx.violation("solver_reuse_mismatch", cfg, detail=f"second solve() on the same object: k {kf} -> {kf2}, ||dx|| = {_norm(xf-xf2) if xf.shape==xf2.shape else 'shape'}")
    okm, okf = optimal(xm, int(km)), bool(np.all(np.isfinite(xf))) and optimal(xf, int(kf))
    if int(km) >= maxit:
        ctx.inconclusive(f"{solver} reached maxit on a view operator ({op})"); return
    ctx.count("view_callable_identity_checked")
    if int(km) != int(kf) or xm.shape != xf.shape or not (_norm(xm - xf) <= 1e-9 * (1 + _norm(xm))):
        ctx.violation("view_callable_mismatch", dict(cfg, still_optimal=bool(okf)),
                      detail=f"n={n} m={m}: matrix form k={km}; function form returning {op}: k={kf}, ||dx|| = "
                             f"{_norm(xm-xf) if xm.shape==xf.shape else 'shape'}; function-form result optimal: {okf}")
    elif not okf:
        ctx.violation("not_a_fixed_point" if solver in ("FISTA", "ISTA") else "normal_equations_residual", dict(cfg, form="view_callable"),
                      detail=f"n={n} m={m} operator {op}: returned point does not satisfy the optimality condition")
    if okm:
        ctx.nontrivial()

def _track(ctx, key, value):
    """keep the running maximum of a margin statistic in the notes (diagnostic only)"""
    try:
        v = float(value)
    except Exception:  # noqa
        return
    if not np.isfinite(v):
        return
    old = ctx.notes.get(key)
    if old is None or v > old:
        ctx.notes[key] = v

# --------------------------------------------------------------------------- FISTA

def _run_fista(case, ctx):
    from cuqi.solver import FISTA, ProximalL1, ProjectNonnegative, ProjectBox
    rs = core.np_rng(ctx.seed, PROPERTY, core.canon(case))
    A, b = _problem(case, rs)
    m, n = A.shape
    Ad = R.dense(A)
    sv = R.svals(A)
    L = float(sv[0] ** 2)
    t = float(case["frac"]) / L
    kind = case["prox"]
    lam, lo, hi = 1.0, None, None
    if kind == "l1":
        lam = float(case["lam"]) * float(np.max(np.abs(Ad.T @ b))) * 0.3 if case["lam"] != 1.0 else 1.0
    elif kind == "box":
        if case["box"] == "scalar":
            lo, hi = -0.2, 0.35
        elif case["box"] == "array":
            lo = -rs.uniform(0.0, 0.5, n); hi = lo + rs.uniform(0.05, 1.0, n)
    abstol = float(case["abstol"])
    maxit = 20000 if ctx.tier == "quick" else 60000
    x0 = np.zeros(n) if case["x0"] == "zero" else rs.standard_normal(n)
    cfg0 = {"solver": "FISTA" if case["adaptive"] else "ISTA", "prox": kind, "frac": case["frac"], "shape": case["shape"], "mat": case["mat"]}
    # The solver gets the problem in other units: A_s = sa*A, b_s = sb*b, hence x_s = (sb/sa) x, t_s = t/sa^2,
    # lam_s = sa*sb*lam, bounds and abstol scaled like x.  Everything is judged after mapping back to the unscaled units.
    sa, sb = 10.0 ** int(case.get("ka", 0)), 10.0 ** int(case.get("kb", 0))
    xs_ = sb / sa
    scaled = (sa != 1.0 or sb != 1.0)
    if scaled and kind == "box" and lo is None:
        lo, hi = 0.0, 1.0                         # the default box is [0,1] in absolute units: pass it explicitly when scaled
    A_s, Ad_s, b_s = (A * sa if scaled else A), Ad * sa, b * sb
    t_s, lam_s, abstol_s, x0_s = float(case["frac"]) / float(R.svals(A_s)[0] ** 2) if scaled else t, lam * sa * sb, abstol * xs_, x0 * xs_
    lo_s, hi_s = (None if lo is None else np.asarray(lo) * xs_), (None if hi is None else np.asarray(hi) * xs_)
    cfg0["scaled"] = bool(scaled)

    def shipped(z, g):
        if kind == "l1":
            return ProximalL1(z, lam_s * g)
        if kind == "nonneg":
            return ProjectNonnegative(z)
        if lo_s is None:
            return ProjectBox(z)
        return ProjectBox(z, lo_s, hi_s)
    plog = []
    def recording(z, g):
        zc = np.array(z, dtype=float, copy=True)
        p = shipped(z, g)
        plog.append((zc, g, np.array(p, dtype=float, copy=True)))
        return p
    alog = []
    def Acall(x, flag):
        alog.append((flag, np.array(x, dtype=float, copy=True)))
        return A_s.T @ x if flag == 2 else A_s @ x
    bare = ProximalL1 if (kind == "l1" and lam_s == 1.0) else shipped

    def F(x):
        return R.objective(Ad, b, x, kind, lam, lo, hi)

    def judge(form, x, k):
        cfg = dict(cfg0, form=form)
        x = np.asarray(x, dtype=float)
        if x.shape != (n,) or not np.all(np.isfinite(x)):
            ctx.violation("solution_malformed", cfg, detail=f"shape {x.shape}"); return False
        if kind != "l1":                           # feasibility is exact in the units the solver worked in
            lo_chk = 0.0 if lo_s is None else lo_s
            hi_chk = (np.inf if kind == "nonneg" else 1.0) if hi_s is None else hi_s
            if np.any(x < lo_chk) or np.any(x > hi_chk):
                ctx.violation("solution_infeasible", cfg, detail=f"returned point violates the constraint of {kind}"); return False
        x = x / xs_                                # back to the unscaled units
        if kind != "l1" and scaled:
            x = R.prox_ref(kind, x, lo=lo, hi=hi)  # removes the last-bit excursions caused by the unit conversion only
        tt = t_s * sa * sa
        if abs(tt - t) > 1e-9 * t:
            raise RuntimeError("harness: step size scaling inconsistent")
        if int(k) >= maxit:
            ctx.inconclusive(f"{cfg0['solver']} reached maxit={maxit} ({kind}, {case['shape']}, frac={case['frac']}, abstol={abstol})")
            ctx.count("not_converged")
            return False
        Tx = R.prox_grad_map(Ad, b, x, t, kind, lam, lo, hi)
        res = _norm(x - Tx)
        bound = 10 * abstol + 1e-11 * (1 + _norm(x))
        ctx.count("fista_fixed_point_checked")
        ctx.count("fista_fixed_point_checked_" + cfg0["solver"])
        _track(ctx, "max_fixed_point_resid_over_abstol", res / abstol)
        if res > bound:
            ctx.violation("not_a_fixed_point", cfg,
                          detail=f"m={m} n={n} t={t:.4g} lam={lam:.4g}: ||x - prox(x - t A^T(Ax-b), t)|| = {res:.4e} > {bound:.2e} after k={k} < maxit")
            return False
        Fx = F(x)
        if not np.isfinite(Fx):
            ctx.violation("solution_infeasible", cfg, detail=f"returned point violates the constraint of {kind}"); return False
        # objective against random feasible perturbations (slack from the residual of the gradient mapping)
        worst = 0.0
        for j in range(200):
            sc = (1e-4, 1e-3, 1e-2, 1e-1, 1.0)[j % 5]
            d = rs.standard_normal(n) * sc
            if j % 3 == 0:
                mask = np.zeros(n); mask[rs.randint(n)] = 1.0; d = d * mask
            z = x + d
            if kind != "l1":
                z = R.prox_ref(kind, z, lo=lo, hi=hi)
            slack = 10 * (abstol / t) * (_norm(z - x) + abstol) + 1e-12 * (1 + abs(Fx))
            worst = max(worst, (Fx - F(z)) / slack)
        ctx.count("fista_objective_probes", 200)
        _track(ctx, "max_objective_excess_over_slack", worst)
        if worst > 1.0:
            ctx.violation("not_a_minimiser", cfg, detail=f"m={m} n={n}: a feasible perturbation lowers 1/2||Ax-b||^2+g(x) by {worst:.3g} x the allowed slack")
            return False
        xr, okr = R.constrained_reference(Ad, b, kind, lam, lo, hi)
        if okr:
            ctx.count("fista_reference_objective_checked")
            slack = 10 * (abstol / t) * (_norm(xr - x) + abstol) + 1e-9 * (1 + abs(Fx))
            if Fx - F(xr) > slack:
                ctx.violation("not_a_minimiser", dict(cfg, against="reference"),
                              detail=f"m={m} n={n}: objective {Fx:.10g} exceeds that of the independent minimiser {F(xr):.10g} by more than {slack:.2e}")
                return False
            if m >= n:
                mu = float(sv[-1] ** 2)
                eb = 20 * (2 / mu + t) * abstol / t + 1e-6 * (1 + _norm(xr))
                ctx.count("fista_reference_solution_checked")
                _track(ctx, "max_fista_ref_err_over_bound", _norm(x - xr) / eb)
                if _norm(x - xr) > eb:
                    ctx.violation("reference_solution_mismatch", cfg, detail=f"||x - x_ref|| = {_norm(x-xr):.3e} > {eb:.3e}")
                    return False
        return True

    xm, km = FISTA(A_s, b_s.copy(), x0_s.copy(), bare, maxit=maxit, stepsize=t_s, abstol=abstol_s, adaptive=case["adaptive"]).solve()
    okm = judge("matrix", xm, km)
    xc, kc = FISTA(Acall, b_s.copy(), x0_s.copy(), recording, maxit=maxit, stepsize=t_s, abstol=abstol_s, adaptive=case["adaptive"]).solve()
    okc = judge("callable", xc, kc)
    xm, xc = np.asarray(xm, dtype=float), np.asarray(xc, dtype=float)
    ctx.count("operator_form_identity_checked")
    if int(km) != int(kc) or xm.shape != xc.shape or _norm(xm - xc) > 1e-10 * (xs_ + _norm(xm)):
        ctx.violation("operator_form_mismatch", cfg0, detail=f"matrix form k={km}, callable form k={kc}")
    # ---- trace of the callable run: every step is prox(y - t A^T(Ay-b), t)
    fw = [a for a in alog if a[0] == 1]
    bw = [a for a in alog if a[0] == 2]
    badflag = [a[0] for a in alog if a[0] not in (1, 2)]
    if badflag or len(fw) != len(plog) or len(bw) != len(plog) or len(plog) != int(kc):
        ctx.violation("fista_step_trace", dict(cfg0, what="call_counts"),
                      detail=f"k={kc}, prox calls={len(plog)}, forward={len(fw)}, adjoint={len(bw)}, bad flags={badflag[:3]}")
    else:
        nck = 0
        idx = range(len(plog)) if len(plog) <= 400 else sorted(set(list(range(200)) + list(range(len(plog) - 200, len(plog)))))
        for i in idx:
            z, g, p = plog[i]
            y = fw[i][1]
            zref = y - t_s * (Ad_s.T @ (Ad_s @ y - b_s))
            nck += 1
            if g != t_s:
                ctx.violation("fista_step_trace", dict(cfg0, what="prox_parameter"), detail=f"step {i}: prox called with {g!r}, stepsize is {t_s!r}"); break
            if not ctx.close(z, zref, rtol=1e-11, atol=1e-13 * xs_):
                ctx.violation("fista_step_trace", dict(cfg0, what="gradient_step"), detail=f"step {i}: prox argument differs from y - t A^T(Ay-b) by {_norm(z-zref):.3e}"); break
            if i == 0 and not np.array_equal(y, x0_s):
                ctx.violation("fista_step_trace", dict(cfg0, what="start"), detail="first gradient is not evaluated at x0"); break
            if (not case["adaptive"]) and i + 1 < len(plog) and not np.array_equal(fw[i + 1][1], p):
                ctx.violation("fista_step_trace", dict(cfg0, what="ista_iterate"), detail=f"step {i+1} of ISTA does not start from the previous prox output"); break
        ctx.count("fista_step_trace_checked", nck)
        if not np.array_equal(xc, plog[-1][2]):
            ctx.violation("fista_step_trace", dict(cfg0, what="returned_point"), detail="returned point is not the last prox output")
    if (okm or okc) and _norm(x0 - R.prox_grad_map(Ad, b, x0, t, kind, lam, lo, hi)) > 1e3 * abstol:
        ctx.nontrivial()
    ctx.note("k", [int(km), int(kc)])

# --------------------------------------------------------------------------- LM

def _run_lm(case, ctx):
    from cuqi.solver import LM
    rs = core.np_rng(ctx.seed, PROPERTY, core.canon(case))
    cfg = {"solver": "LM", "problem": case.get("problem", "explicit"), "sparse": case["sparse"]}
    if case["kind"] == "lm_explicit":
        # matrix given instead of a callable: documented as callable only -> refused, or a correct answer
        A = R.dense_matrix(rs, 7, 3, 10.0); x0 = rs.standard_normal(3)
        Af = sps.csr_matrix(A) if case["sparse"] else A
        kind, val = core.outcome(lambda: LM(Af, x0.copy(), Af, maxit=200, sparse=case["sparse"]).solve())
        ctx.count("lm_explicit_probe")
        if kind == "refused":
            ctx.refused("LM explicit matrix", val); ctx.nontrivial(); return
        if kind == "crashed":
            ctx.violation("crash", dict(cfg, exc=type(val).__name__), detail=repr(val)); return
        x, info = val
        x = np.asarray(x, dtype=float).ravel()
        if info["nfev"] < 200 and (x.shape != (3,) or _norm(A.T @ (A @ x)) > 1e-6 * _norm(A.T @ (A @ x0))):
            ctx.violation("not_stationary", cfg, detail="explicit-matrix LM returned a non-stationary point of ||Ax||^2")
        return
    pb0 = R.nls_problem(case["problem"], rs)
    c = float(case["scale"])
    pb = R.NLS(pb0.name, (lambda x: c * pb0.r(x)), (lambda x: c * pb0.J(x)), pb0.x0, pb0.n, pb0.m)
    far = bool(case.get("far"))
    maxit = 10000 if far else 3000
    gradtol = float(case["gradtol"])
    evals = []
    def rfun(x):
        evals.append(np.array(x, dtype=float, copy=True))
        return pb.r(np.asarray(x, dtype=float))
    Jf = (lambda x: sps.csr_matrix(pb.J(np.asarray(x, dtype=float)))) if case["sparse"] else (lambda x: pb.J(np.asarray(x, dtype=float)))
    x0 = pb.x0.copy()
    if case.get("warm"):
        # start within 1e-9 of a minimiser (found by scipy, trusted): a legitimate input of an iterative solver
        import scipy.optimize as so
        ref = so.least_squares(pb.r, x0, jac=pb.J, method="trf", xtol=1e-15, ftol=1e-15, gtol=1e-15, max_nfev=5000)
        x0 = np.asarray(ref.x, dtype=float) + 1e-9 * rs.standard_normal(pb.n)
        cfg["start"] = "warm"
    elif far:
        # awkward start: every parameter 0.5 .. 2 decades away from a minimiser, in either direction
        import scipy.optimize as so
        ref = so.least_squares(pb.r, x0, jac=pb.J, method="trf", xtol=1e-15, ftol=1e-15, gtol=1e-15, max_nfev=5000)
        xs_ = np.asarray(ref.x, dtype=float)
        Jscale = float(np.linalg.norm(pb.J(xs_), 2))
        for _try in range(30):
            dec = rs.choice([-1.0, 1.0], size=pb.n) * rs.uniform(0.5, 2.0, pb.n)
            base = np.where(np.abs(xs_) < 0.05, 0.05 * rs.choice([-1.0, 1.0], size=pb.n), xs_)
            cand = base * 10.0 ** dec
            with np.errstate(all="ignore"):
                rc, Jc = pb.r(cand), pb.J(cand)
                gc = _norm(Jc.T @ rc)
            # well-posed start: finite, and not on a numerically flat plateau (gradient not lost to under/overflow)
            if np.all(np.isfinite(rc)) and np.all(np.isfinite(Jc)) and gc >= 1e-6 * Jscale * _norm(rc) > 0:
                x0 = cand
                cfg["start"] = "far"
                break
    with np.errstate(all="ignore"):
        kind_, val_ = core.outcome(lambda: LM(rfun, x0.copy(), Jf, maxit=maxit, gradtol=gradtol, nu0=float(case["nu0"]), sparse=case["sparse"]).solve())
    if kind_ == "refused":
        ctx.refused("LM (%s start)" % cfg.get("start", "near"), val_); ctx.count("lm_refused"); return
    if kind_ == "crashed":
        ctx.violation("crash", dict(cfg, exc=type(val_).__name__), detail=repr(val_)); return
    x, info = val_
    x = np.asarray(x, dtype=float).ravel()
    nfev = int(info["nfev"])
    if x.shape != (pb.n,):
        ctx.violation("solution_malformed", cfg, detail=f"shape {x.shape}"); return
    if not np.all(np.isfinite(x)):
        # where had the iteration been before? (trace of the points at which the residual was evaluated)
        g0_ = _norm(pb.J(x0).T @ pb.r(x0))
        fin = [e for e in evals if np.all(np.isfinite(e))]
        # LM keeps the evaluated point with the smallest sum of squares (steps are accepted iff they do not increase it)
        kept = min(fin, key=lambda e: _norm(pb.r(e))) if fin else None
        best = _norm(pb.J(kept).T @ pb.r(kept)) / g0_ if kept is not None else np.inf
        stat = kept is not None and _norm(pb.J(kept).T @ pb.r(kept)) <= 1e-7 * np.linalg.norm(pb.J(kept), 2) * _norm(pb.r(pb.x0))   # pb.x0 = the far start: scale of the problem
        ctx.count("lm_nonfinite_return")
        ctx.violation("nonfinite_solution", dict(cfg, gradtol_attained=bool(best <= gradtol), kept_point_stationary=bool(stat),
                                                 stopped_before_maxit=bool(nfev < maxit)),
                      detail=f"{pb.name}: LM returned {x.tolist()} after {nfev} iterations (maxit {maxit}); the evaluated point with the smallest sum of squares has "
                             f"||J^T r||/||J0^T r0|| = {best:.3e}, gradtol = {gradtol}")
        return
    J0, r0, J1, r1 = pb.J(x0), pb.r(x0), pb.J(x), pb.r(x)
    g0, g1 = _norm(J0.T @ r0), _norm(J1.T @ r1)
    bound = gradtol * g0 * (1 + 1e-6) + 1e3 * R.EPS * np.linalg.norm(J1, 2) * _norm(r1)
    if nfev >= maxit:
        # maxit on a 2..8-parameter well-posed fit.  Harmless if the iterate sits at the floating-point floor of the gradient
        # (gradtol not attainable); otherwise LM failed where a reference solver (scipy, same start) succeeds -> reported.
        nJ = max(float(np.linalg.norm(J1, 2)), float(np.linalg.norm(pb.J(pb.x0), 2)))
        fp_tol = 1e-5 * nJ * _norm(r1) + 1e-10 * nJ * _norm(pb.r(pb.x0))
        if g1 <= max(bound, fp_tol):
            ctx.count("lm_maxit_at_fp_floor"); return
        import scipy.optimize as so
        with np.errstate(all="ignore"):
            kr, ref = core.outcome(lambda: so.least_squares(pb.r, x0.copy(), jac=pb.J, method="lm", xtol=1e-12, ftol=1e-12, gtol=1e-12, max_nfev=20000),
                                   refusal=Exception)
        ref_ok = kr == "value" and ref.status > 0 and np.all(np.isfinite(ref.x)) and \
            _norm(pb.J(ref.x).T @ pb.r(ref.x)) <= 1e-6 * g0
        # stalled = the last 500 residual evaluations brought no improvement at all (e.g. the same rejected step retried for ever);
        # merely slow progress along a flat valley is not judged unless the cause is LM's own absolute damping floor (below)
        fs = [(_norm(pb.r(e)) if np.all(np.isfinite(e)) else np.inf) for e in evals]
        stalled = len(fs) > 1000 and min(fs[-500:]) >= min(fs[:-500])
        floor_dom_ = bool(float(case["nu0"]) > float(np.linalg.norm(J1, 2)) ** 2)
        if ref_ok and not (stalled or floor_dom_):
            ctx.count("lm_slow_but_progressing")
            ctx.inconclusive(f"LM reached maxit on {pb.name}, still making progress"); ctx.count("not_converged"); return
        if ref_ok:
            ctx.count("lm_maxit_judged")
            # LM's lower cut-off nu0 of the damping is an absolute number: does it dominate the Gauss-Newton matrix here?
            floor_dom = bool(float(case["nu0"]) > float(np.linalg.norm(J1, 2)) ** 2)
            ctx.violation("no_convergence", dict(cfg, reference_converges=True, damping_floor_dominates=floor_dom, stalled=bool(stalled)),
                          detail=f"{pb.name} scale={c:g} start={x0.tolist()}: LM used all maxit={maxit} iterations and returned {x.tolist()} with "
                                 f"||J^T r||/||J0^T r0|| = {g1/g0:.3e} (gradtol {gradtol}); scipy least_squares(method='lm') from the same start "
                                 f"reaches {np.asarray(ref.x).tolist()} in {ref.nfev} evaluations")
            return
        ctx.inconclusive(f"LM reached maxit on {pb.name} (reference did not converge either)"); ctx.count("not_converged"); return
    ctx.count("lm_stationarity_checked")
    ctx.count("lm_stationarity_checked_" + ("sparse" if case["sparse"] else "dense"))
    ctx.note("lm ||J^T r||/||J0^T r0||, gradtol, nfev", [g1 / g0, gradtol, nfev])
    if g1 > bound:
        # LM may stop before maxit without attaining the *relative* gradtol when no further decrease of the sum of squares is
        # representable (its damping overflowed after every step had been rejected / had vanished).  That is observable in the
        # trace: the last trial points coincide with the returned point.  Then stationarity is judged at floating-point level
        # on the problem scale: ||J^T r|| <= 1e-5 ||J|| ||r|| + 1e-10 ||J|| ||r(far start)||  (sqrt(eps)-level: a decrease of
        # ||g||^2 / (4||J||^2) below the rounding error of 1/2||r||^2 cannot be seen by any acceptance test).
        stagnated = len(evals) >= 200 and all(np.array_equal(e, x) for e in evals[-20:])
        nJ = max(float(np.linalg.norm(J1, 2)), float(np.linalg.norm(pb.J(pb.x0), 2)))
        fp_tol = 1e-5 * nJ * _norm(r1) + 1e-10 * nJ * _norm(pb.r(pb.x0))
        if stagnated:
            _track(ctx, "max_lm_fp_floor_ratio", g1 / fp_tol)
        if stagnated and g1 <= fp_tol:
            ctx.count("lm_stopped_at_fp_floor")
            ctx.nontrivial("lm_fp_floor")
            return
        ctx.violation("not_stationary", dict(cfg, stagnated=bool(stagnated),
                                             damping_floor_dominates=bool(float(case["nu0"]) > float(np.linalg.norm(J1, 2)) ** 2)),
                      detail=f"{pb.name}: ||J^T r|| / ||J0^T r0|| = {g1/g0:.3e} > gradtol = {gradtol} after {nfev} < maxit iterations"
                             f" (||J^T r|| = {g1:.3e}, floating-point floor allowance {fp_tol:.3e}, trace stagnated: {stagnated})")
        return
    # returned point must be one the residual was evaluated at, and the sum of squares did not increase
    ctx.count("lm_trace_checked")
    if not any(np.array_equal(x, e) for e in evals):
        ctx.violation("lm_returned_point_not_evaluated", cfg, detail="returned x is not among the points at which the residual was evaluated")
    if nfev > 0 and not case.get("warm"):
        ctx.nontrivial()

# --------------------------------------------------------------------------- scipy wrappers

class _Rec:
    def __init__(self, real):
        self.real, self.calls = real, []
    def __call__(self, *a, **k):
        entry = {"args": a, "kwargs": dict(k)}
        self.calls.append(entry)
        try:
            res = self.real(*a, **k)
        except BaseException as e:  # noqa
            entry["raised"] = e
            raise
        entry["result"] = res
        return res

def _same(a, b):
    if a is b:
        return True
    try:
        if isinstance(a, (np.ndarray, list, tuple)) or isinstance(b, (np.ndarray, list, tuple)) or sps.issparse(a) or sps.issparse(b):
            a2 = a.toarray() if sps.issparse(a) else np.asarray(a)
            b2 = b.toarray() if sps.issparse(b) else np.asarray(b)
            return a2.shape == b2.shape and bool(np.array_equal(a2, b2, equal_nan=True)) if a2.dtype.kind in "fc" else bool(np.array_equal(a2, b2))
        return bool(a == b)
    except Exception:  # noqa
        return False

def _neg(v):
    try:
        return -np.asarray(v) if isinstance(v, (list, tuple, np.ndarray)) else -v
    except Exception:  # noqa
        return None

def _run_wrap(case, ctx):
    import scipy.optimize as so
    import cuqi
    import cuqi.solver._solver as S
    from cuqi.array import CUQIarray
    rs = core.np_rng(ctx.seed, PROPERTY, core.canon(case))
    solver, method, variant = case["solver"], case["method"], case["variant"]
    cfg = {"solver": solver, "method": method, "grad": case["grad"], "variant": variant}

    def wrap_x0(v):
        return CUQIarray(v, geometry=cuqi.geometry.Continuous1D(len(v))) if case["x0type"] == "cuqi" else v

    probes = None
    if solver == "LS":
        pb = R.nls_problem(case["fn"], rs)
        func, jac = pb.r, (pb.J if case["grad"] else None)
        x0 = wrap_x0(pb.x0.copy())
        tol, maxit = float(rs.choice([1e-6, 1e-9])), int(rs.choice([300, 1000]))
        obj = S.LS(func, x0, jacfun=jac, method=method, loss=variant, tol=tol, maxit=maxit)
        target, attr = S, "least_squares"
    else:
        fn = R.smooth_function(case["fn"], rs)
        n = fn.n
        sign = -1.0 if solver == "maximize" else 1.0
        if solver == "maximize":
            func = lambda x: -fn.f(x)
            grad = (lambda x: -fn.g(x)) if case["grad"] else None
        else:
            func, grad = fn.f, (fn.g if case["grad"] else None)
        x0 = wrap_x0(fn.x0.copy())
        probes = [fn.x0 + rs.standard_normal(n) for _ in range(3)]
        kwargs = {}
        bounds = None
        if variant == "bounds":
            c = fn.xstar if fn.xstar is not None else fn.x0
            bounds = [(float(c[i] + 0.2), float(c[i] + 2.5)) if i % 2 == 0 else (float(c[i] - 3.0), float(c[i] + 3.0)) for i in range(n)]
            x0 = wrap_x0(np.array([0.5 * (l + h) for l, h in bounds]))
            kwargs["bounds"] = bounds
        kwv = variant.split(":") if variant.startswith("kw:") else None
        cb_log = []
        if kwv and kwv[1] == "bounds":
            if kwv[2] == "def":
                kwargs["bounds"] = None
            else:
                c = fn.xstar if fn.xstar is not None else fn.x0
                bounds = [(float(c[i] + 0.2), float(c[i] + 2.5)) if i % 2 == 0 else (float(c[i] - 3.0), float(c[i] + 3.0)) for i in range(n)]
                x0 = wrap_x0(np.array([0.5 * (l + h) for l, h in bounds]))
                kwargs["bounds"] = bounds
        if kwv and solver == "L_BFGS_B" and kwv[1] != "bounds":
            kwargs[kwv[1]] = {"m": (10, 4), "factr": (1e7, 1e3), "pgtol": (1e-5, 1e-9), "epsilon": (1e-8, 1e-6), "maxiter": (15000, 3),
                              "maxfun": (15000, 7)}[kwv[1]][0 if kwv[2] == "def" else 1]
        if kwv and solver != "L_BFGS_B" and kwv[1] != "bounds":
            if kwv[1] == "tol":
                kwargs["tol"] = None if kwv[2] == "def" else 1e-9
            elif kwv[1] == "options":
                kwargs["options"] = {} if kwv[2] == "def" else {"maxiter": 4}
            else:
                kwargs["callback"] = None if kwv[2] == "def" else (lambda xk, *a_: cb_log.append(1))
        if solver == "L_BFGS_B":
            if variant == "maxiter":
                kwargs["maxiter"] = 1
            elif variant == "factr":
                kwargs.update({"factr": 10.0, "pgtol": 1e-10, "m": 7})
            elif variant == "wronggrad":
                grad = lambda x: -fn.g(x)
            obj = S.L_BFGS_B(func, x0, gradfunc=grad, **kwargs)
            target, attr = S, "fmin_l_bfgs_b"
        else:
            if variant == "tol":
                kwargs["tol"] = 1e-10
            elif variant == "maxiter":
                kwargs["options"] = {"maxiter": 2}
            cls = S.maximize if solver == "maximize" else S.minimize
            obj = cls(func, x0, gradfunc=grad, method=method, **kwargs)
            target, attr = so, "minimize"

    # spy on the scipy entry point the wrapper is documented to use - if it is there.  Which entry point the library really
    # calls is its own business: no spy firing is a lost observation; the public-boundary comparison below decides anyway.
    have_spy = hasattr(target, attr)
    rec = _Rec(getattr(target, attr)) if have_spy else _Rec(None)
    if have_spy:
        setattr(target, attr, rec)
    try:
        kind, val = core.outcome(obj.solve, refusal=Exception)
    finally:
        if have_spy:
            setattr(target, attr, rec.real)
    ctx.count("wrapper_runs")
    _public_boundary(ctx, cfg, case, solver, method, variant, kind, val,
                     dict(func=func, grad=(jac if solver == "LS" else grad), x0=x0, kwargs=(None if solver == "LS" else kwargs),
                          ls=(None if solver != "LS" else dict(tol=tol, maxit=maxit)), wrap_x0=wrap_x0))
    if len(rec.calls) == 0:
        ctx.count("wrapper_spy_lost")
        return
    if len(rec.calls) != 1:
        ctx.violation("wrapper_callout_count", cfg, detail=f"{len(rec.calls)} calls of scipy's {attr} observed, expected 1 ({kind}: {val!r})")
        return
    call = rec.calls[0]
    a, kw = call["args"], call["kwargs"]
    # ---- forwarded arguments
    fwd = []
    a_all = list(a)
    if solver == "LS":
        want = {"jac": jac, "method": method, "loss": variant, "xtol": tol, "max_nfev": maxit}
    elif solver == "L_BFGS_B":
        want = dict(kwargs); want["fprime"] = grad
    else:
        want = dict(kwargs); want["method"] = method
        if solver == "minimize":
            want["jac"] = grad
    if len(a_all) < 2:
        fwd.append(f"positional arguments {len(a_all)}")
    else:
        if a_all[1] is not x0 and not _same(a_all[1], x0):
            fwd.append("x0 altered")
        f_pass = a_all[0]
        if solver == "maximize":
            for z in probes:
                if not _same(f_pass(z), -func(z)):
                    fwd.append("objective passed to scipy is not the negated function"); break
            if grad is not None:
                gp = kw.get("jac")
                if gp is None or not all(_same(gp(z), -grad(z)) for z in probes):
                    fwd.append("gradient passed to scipy is not the negated gradient")
            elif kw.get("jac") is not None:
                fwd.append("a gradient was invented")
        elif f_pass is not func:
            fwd.append("objective replaced")
    for k_, v_ in want.items():
        if k_ not in kw:
            if v_ is not None:
                fwd.append(f"{k_} not forwarded")
        elif kw[k_] is not v_ and not _same(kw[k_], v_):
            fwd.append(f"{k_} altered: {core.short(kw[k_], 60)} instead of {core.short(v_, 60)}")
    if solver == "L_BFGS_B":
        if bool(kw.get("approx_grad", 0)) != (grad is None):
            fwd.append(f"approx_grad={kw.get('approx_grad')} with gradfunc {'missing' if grad is None else 'given'}")
        extra = set(kw) - set(want) - {"approx_grad"}
    elif solver == "LS":
        extra = set(kw) - set(want)
    else:
        extra = set(kw) - set(want) - {"jac"}
    if extra:
        fwd.append(f"unexpected extra arguments {sorted(extra)}")
    ctx.count("wrapper_forwarded_args_checked")
    if fwd:
        ctx.violation("wrapper_arguments_altered", cfg, detail="; ".join(fwd))
    # ---- outcome
    if "raised" in call:
        if kind == "value":
            ctx.violation("wrapper_swallowed_exception", cfg, detail=f"scipy raised {call['raised']!r} but the wrapper returned a value")
        else:
            ctx.refused(f"scipy refused ({solver}/{method})", call["raised"])
            ctx.count("scipy_refusal_propagated")
            if val is not call["raised"]:
                ctx.note("refusal_rewrapped", repr(val))
        return
    res = call["result"]
    if kind != "value":
        missing = val.args[0] if isinstance(val, KeyError) and val.args else None
        ctx.violation("wrapper_lost_result", dict(cfg, exc=type(val).__name__, missing=missing),
                      detail=f"scipy's {attr}(method={method!r}) returned a result (success={_get(res, 'success')}) but the wrapper raised {val!r}")
        return
    try:
        sol, info = val
    except Exception:  # noqa
        ctx.violation("wrapper_result_malformed", cfg, detail=f"solve() returned {core.short(val, 100)}"); return
    if solver == "L_BFGS_B":
        rx, rf, rd = res
        pairs = [("func", rf), ("grad", rd["grad"]), ("nit", rd["nit"]), ("nfev", rd["funcalls"])]
        success = rd["warnflag"] == 0
        ctx.count("wrapper_result_fields_checked")
        if bool(info.get("success")) != success:
            ctx.violation("wrapper_info_altered", dict(cfg, field="success"), detail=f"warnflag={rd['warnflag']} but success={info.get('success')}")
        ctx.note("warnflag", int(rd["warnflag"]))
        ctx.nontrivial("lbfgsb_warnflag_%d" % int(rd["warnflag"]))
    else:
        rx = res["x"]
        if solver == "LS":
            pairs = [("success", res["success"]), ("message", res["message"]), ("func", res["fun"]), ("jac", res["jac"]), ("nfev", res["nfev"])]
        else:
            # gradient-free methods report no 'jac' (COBYLA no 'nit' either): then the info field must be None
            pairs = [("success", res["success"]), ("message", res["message"]), ("func", res["fun"]), ("grad", _get(res, "jac")),
                     ("nit", _get(res, "nit")), ("nfev", res["nfev"])]
            for k_ in ("jac", "nit"):
                if _get(res, k_) is None:
                    ctx.count("wrapper_unreported_field_checked")
        success = bool(res["success"])
    ctx.count("wrapper_result_fields_checked")
    if not _same(np.asarray(sol), np.asarray(rx)):
        ctx.violation("wrapper_solution_altered", cfg, detail=f"returned x {core.short(np.asarray(sol), 120)} != scipy's x {core.short(np.asarray(rx), 120)}")
    for key, ref in pairs:
        ctx.count("wrapper_result_fields_checked")
        if key not in info:
            ctx.violation("wrapper_info_altered", dict(cfg, field=key), detail=f"info has no field {key!r}")
        elif not (_same(info[key], ref) or (solver == "maximize" and key in ("func", "grad") and _same(info[key], _neg(ref)))):
            ctx.violation("wrapper_info_altered", dict(cfg, field=key), detail=f"info[{key!r}] = {core.short(info[key], 100)}, scipy returned {core.short(ref, 100)}")
    ctx.nontrivial()
    # ---- the point scipy (and hence the wrapper) reports as converged is optimal for the user's problem
    xs = np.asarray(sol, dtype=float)
    if not success or variant in ("maxiter", "wronggrad") or variant.startswith("kw:max") or variant == "kw:options:non":
        return
    if solver == "LS":
        if variant != "linear":
            return
        ref = so.least_squares(pb.r, pb.x0.copy(), jac=pb.J, method="trf", xtol=1e-13, ftol=1e-13, gtol=1e-13, max_nfev=5000)
        fref, f0, fx = float(ref.cost), 0.5 * _norm(pb.r(pb.x0)) ** 2, 0.5 * _norm(pb.r(xs)) ** 2
    else:
        xstart = np.asarray(x0, dtype=float)
        if bounds is not None:
            lo_ = np.array([l for l, h in bounds]); hi_ = np.array([h for l, h in bounds])
            if np.any(xs < lo_ - 1e-8) or np.any(xs > hi_ + 1e-8):
                ctx.violation("wrapper_not_optimal", dict(cfg, what="bounds"), detail="returned point outside the bounds"); return
        ref = so.minimize(fn.f, xstart.copy(), jac=fn.g, method="L-BFGS-B", bounds=bounds,
                          options={"ftol": 1e-15, "gtol": 1e-10, "maxiter": 5000, "maxfun": 50000})
        fref, f0, fx = float(ref.fun), float(fn.f(xstart)), float(fn.f(xs))
        if bounds is None and fn.xstar is not None:
            fref = min(fref, float(fn.f(fn.xstar)))
    gap0, gap = f0 - fref, fx - fref
    if not gap0 > 1e-6 * (1 + abs(f0)):
        return                                   # start (numerically) optimal already: nothing to decide
    # Decided: the objective moved in the right direction (every scipy method used here is a descent method started from a
    # feasible point, so with the correct sign f cannot end above its start; with a sign error it must).  How close scipy got
    # to the optimum is scipy's business and only recorded.
    ctx.count("wrapper_optimality_checked")
    _track(ctx, "max_wrapper_gap_ratio", gap / gap0)
    if gap <= 0.01 * gap0:
        ctx.count("wrapper_near_optimum_observed")
    if fx > f0 + 1e-9 * (1 + abs(f0)):
        ctx.violation("wrapper_not_optimal", cfg,
                      detail=f"{solver}/{method} on {case['fn']}: scipy reports success, but the objective to be minimised went {f0:.8g} -> {fx:.8g} "
                             f"(optimum {fref:.8g}): the returned point is worse than the start")

def _public_boundary(ctx, cfg, case, solver, method, variant, kind, val, a):
    """What the wrapper returns must be what the documented scipy function returns for the same documented arguments
    (all methods used are deterministic).  Independent of the entry point the library uses internally."""
    import scipy.optimize as so
    func, grad, kwargs = a["func"], a["grad"], a["kwargs"]
    x0r = a["wrap_x0"](np.array(a["x0"], dtype=float, copy=True))
    with np.errstate(all="ignore"):
        if solver == "L_BFGS_B":
            rk, rv = core.outcome(lambda: so.fmin_l_bfgs_b(func, x0r, fprime=grad, approx_grad=(grad is None), **kwargs), refusal=Exception)
            unpack = lambda r: (r[0], r[1], r[2]["nit"], r[2]["warnflag"] == 0)
        elif solver == "LS":
            rk, rv = core.outcome(lambda: so.least_squares(func, x0r, jac=grad, method=method, loss=variant, xtol=a["ls"]["tol"],
                                                           max_nfev=a["ls"]["maxit"]), refusal=Exception)
            unpack = lambda r: (r["x"], r["fun"], None, bool(r["success"]))
        else:
            kw2 = dict(kwargs)
            rk, rv = core.outcome(lambda: so.minimize(func if solver == "minimize" else (lambda *z, **q: -func(*z, **q)), x0r,
                                                      jac=(grad if (solver == "minimize" or grad is None) else (lambda *z, **q: -grad(*z, **q))),
                                                      method=method, **kw2), refusal=Exception)
            unpack = lambda r: (r["x"], r["fun"], _get(r, "nit"), bool(r["success"]))
    ctx.count("wrapper_vs_scipy_checked")
    if rk != "value":
        if kind == "value":
            ctx.violation("wrapper_differs_from_scipy", dict(cfg, what="exception"), detail=f"scipy raises {rv!r} for these arguments, the wrapper returned a value")
        return
    if kind != "value":
        if not (isinstance(val, KeyError)):      # KeyError after a finished scipy run is reported by the spy branch (wrapper_lost_result)
            ctx.violation("wrapper_differs_from_scipy", dict(cfg, what="exception", exc=type(val).__name__),
                          detail=f"scipy's documented function returns a result for these arguments, the wrapper raised {val!r}")
        return
    try:
        sol, info = val
        rx, rf, rnit, rsucc = unpack(rv)
        sol = np.asarray(sol, dtype=float); rx = np.asarray(rx, dtype=float)
        bad = []
        if sol.shape != rx.shape or not (_norm(sol - rx) <= 1e-9 * (1 + _norm(rx))):
            bad.append(f"x = {core.short(sol.tolist(), 90)}, scipy gives {core.short(rx.tolist(), 90)}")
        fi, fr = np.asarray(info["func"], dtype=float), np.asarray(rf, dtype=float)
        if fi.shape != fr.shape or not (np.all(np.abs(np.abs(fi) - np.abs(fr)) <= 1e-9 * (1 + np.abs(fr))) if solver == "maximize"
                                       else np.all(np.abs(fi - fr) <= 1e-9 * (1 + np.abs(fr)))):
            bad.append(f"func = {core.short(fi.tolist(), 60)}, scipy gives {core.short(fr.tolist(), 60)}")
        if rnit is not None and info.get("nit") is not None and int(info["nit"]) != int(rnit):
            bad.append(f"nit = {info['nit']}, scipy needs {rnit}")
        if bool(info.get("success")) != bool(rsucc):
            bad.append(f"success = {info.get('success')}, scipy reports {rsucc}")
    except Exception as e:  # noqa
        bad = [f"result of unexpected structure: {e!r}"]
    if bad:
        ctx.violation("wrapper_differs_from_scipy", cfg,
                      detail=f"{solver}(method={method!r}, {variant}) vs the documented scipy function called with the same arguments: " + "; ".join(bad))

def _get(res, key):
    try:
        return res[key]
    except Exception:  # noqa
        return None

# --------------------------------------------------------------------------- projections / soft thresholding

def _run_prox(case, ctx):
    from cuqi.solver import ProximalL1, ProjectNonnegative, ProjectBox
    rs = core.np_rng(ctx.seed, PROPERTY, core.canon(case))
    op, variant = case["op"], case["variant"]
    cfg = {"op": op, "shape": case["shape"], "variant": variant}
    shape = {"scalar": (), "vector": (int(rs.randint(1, 40)),), "matrix": (int(rs.randint(1, 8)), int(rs.randint(1, 8)))}[case["shape"]]
    for rep in range(6):
        x = rs.standard_normal(shape) * float(rs.choice([0.1, 1.0, 10.0]))
        gamma = lo = hi = None
        if op == "l1":
            gamma = {"g_small": 1e-3, "g_one": 1.0, "g_large": 25.0}[variant] * float(rs.uniform(0.5, 2.0))
        elif op == "nonneg":
            lo = 0.0
        else:
            if variant == "default":
                lo_a = hi_a = None; lo, hi = 0.0, 1.0
            elif variant == "scalar":
                lo = float(rs.uniform(-2, 0.5)); hi = lo + float(rs.uniform(0.01, 3)); lo_a, hi_a = lo, hi
            elif variant == "array":
                lo = rs.uniform(-2, 0.5, shape); hi = lo + rs.uniform(0.01, 3, shape); lo_a, hi_a = lo, hi
            elif variant == "lower_only":
                lo = rs.uniform(-2, 0.5, shape); hi = 1.0; lo_a, hi_a = lo, None
            elif variant == "upper_only":
                lo = 0.0; hi = rs.uniform(0.2, 3, shape); lo_a, hi_a = None, hi
            else:
                lo = rs.uniform(-1, 1, shape); hi = np.array(lo, copy=True); lo_a, hi_a = lo, hi
        # put some coordinates exactly on the kinks
        xf = np.array(x, dtype=float, copy=True).reshape(-1)
        if xf.size:
            for j in range(0, xf.size, 3):
                pick = rs.randint(5)
                if op == "l1":
                    xf[j] = (gamma, -gamma, 0.0, -0.0, xf[j])[pick]
                else:
                    lj = float(np.broadcast_to(np.asarray(lo, dtype=float), shape).reshape(-1)[j])
                    hj = float(np.broadcast_to(np.asarray(hi, dtype=float), shape).reshape(-1)[j]) if hi is not None else 7.0
                    xf[j] = (lj, hj, 0.5 * (lj + hj) if np.isfinite(hj) else lj + 1, -0.0, xf[j])[pick]
        x = xf.reshape(shape)
        xin = np.array(x, copy=True)
        if op == "l1":
            p = ProximalL1(x, gamma)
        elif op == "nonneg":
            p = ProjectNonnegative(x)
        elif variant == "default":
            p = ProjectBox(x)
        elif variant == "upper_only":
            p = ProjectBox(x, upper=hi_a)
        elif variant == "lower_only":
            p = ProjectBox(x, lo_a)
        else:
            p = ProjectBox(x, lo_a, hi_a) if rep % 2 == 0 else ProjectBox(x, lower=lo_a, upper=hi_a)
        p = np.asarray(p, dtype=float)
        if p.shape != tuple(shape):
            ctx.violation("prox_shape", cfg, detail=f"input shape {shape}, output shape {p.shape}"); return
        if not np.array_equal(x, xin):
            ctx.violation("prox_mutates_input", cfg, detail="input array modified in place"); return
        nel = max(1, p.size)
        # (1) coordinate-wise reference formula
        ref = R.prox_ref("l1" if op == "l1" else "box", x, gamma=gamma, lo=lo, hi=np.inf if op == "nonneg" else hi)
        ctx.count("prox_formula_checked", nel)
        if not ctx.close(p, ref, rtol=1e-15, atol=0.0):
            ctx.violation("prox_value", dict(cfg, against="formula"), detail=f"x={core.short(x.reshape(-1)[:6].tolist(),100)} gamma={gamma} -> {core.short(p.reshape(-1)[:6].tolist(),100)}, expected {core.short(ref.reshape(-1)[:6].tolist(),100)}")
            return
        # (2) brute-force argmin on a fine grid, coordinate by coordinate
        z, h = R.grid_argmin("l1" if op == "l1" else "box", x, gamma=gamma, lo=lo, hi=None if op == "nonneg" else hi)
        ctx.count("prox_grid_checked", nel)
        if np.any(np.abs(p - z) > h * (1 + 1e-9) + 1e-15):
            i = int(np.argmax(np.abs(p - z) - h))
            ctx.violation("prox_value", dict(cfg, against="grid_argmin"),
                          detail=f"coordinate {i}: x={x.reshape(-1)[i]!r} gamma={gamma} returned {p.reshape(-1)[i]!r}, grid argmin {z.reshape(-1)[i]!r} (spacing {h.reshape(-1)[i]:.2e})")
            return
        # (3) variational inequality at random (feasible) points
        for _ in range(5):
            w = x + rs.standard_normal(shape) * float(rs.choice([0.01, 1.0, 20.0]))
            ctx.count("prox_vi_checked", nel)
            if op == "l1":
                lhs = gamma * np.sum(np.abs(w)) - gamma * np.sum(np.abs(p)) - np.sum((x - p) * (w - p))
                sc = gamma * np.sum(np.abs(w)) + gamma * np.sum(np.abs(p)) + np.sum(np.abs((x - p) * (w - p)))
                okv = lhs >= -1e-12 * (1 + sc)
            else:
                w = R.prox_ref("box", w, lo=lo, hi=np.inf if op == "nonneg" else hi)
                lhs = np.sum((x - p) * (w - p))
                okv = lhs <= 1e-12 * (1 + np.sum(np.abs((x - p) * (w - p))))
            if not okv:
                ctx.violation("prox_variational_inequality", cfg, detail=f"violated by {float(lhs):.3e} at a random point (gamma={gamma})"); return
        # (4) projections: feasible and idempotent
        if op != "l1":
            again = np.asarray(ProjectNonnegative(p) if op == "nonneg" else ProjectBox(p, lo_a, hi_a) if variant != "default" else ProjectBox(p), dtype=float)
            ctx.count("prox_idempotence_checked", nel)
            if not np.array_equal(again, p):
                ctx.violation("projection_not_idempotent", cfg, detail="P(P(x)) != P(x)"); return
    ctx.nontrivial()

# --------------------------------------------------------------------------- dispatch

def run_case(case, ctx):
    k = case["kind"]
    if k in ("cgls", "pcgls"):
        _run_ne(case, ctx)
    elif k == "cg_floor":
        _run_cg_floor(case, ctx)
    elif k == "cg_far":
        _run_cg_far(case, ctx)
    elif k == "views":
        _run_views(case, ctx)
    elif k == "fista":
        _run_fista(case, ctx)
    elif k in ("lm", "lm_explicit"):
        _run_lm(case, ctx)
    elif k == "wrap":
        _run_wrap(case, ctx)
    elif k == "prox":
        _run_prox(case, ctx)
    else:
        raise ValueError(k)

def selftest(ctx):
    for msg in R.selftest():
        ctx.inconclusive("reference self-test: " + msg)
