"""C04 - log-densities are the documented normalised densities in every parameterisation.

Workload (W): every family x every way of passing its parameters (scalar, scalar broadcast over a
geometry of dim>1, ndarray, list, mixed scalar/vector, callable conditioned later, None conditioned
later); Gaussian 4 parameterisations x {scalar, 1-element array, vector, list, dense diagonal, dense
SPD, nested list, sparse csr/csc/dia diagonal, sparse full, sparse banded} x symmetric / upper / lower /
non-symmetric square roots x dim on both sides of config.MIN_DIM_SPARSE; Lognormal; ModifiedHalfNormal
(up to its constant); GMRF/LMRF/CMRF for every bc x order x 1D/2D x shift; user-defined densities.
Monitors (M): return values of logpdf / pdf / cdf / logd of the real objects (core.REPO).
Oracle (O): closed forms of the documented densities (vlib/refs/c04_densities.py, no cuqi), adaptive
quadrature of the library's own pdf (normalisation in 1-D, marginal slices and full 2-D integrals in
2-D, cdf = integral of pdf), vanishing outside the support, one-and-the-same Gaussian across input
forms, logd - logpdf constant in x.
"""
import math
import numpy as np
from vlib import core
from vlib.refs import c04_densities as R
from vlib.refs import stencils as S

PROPERTY = "C04"
RULE = ("enumeration of (family, parameter-passing form, dimension class, repetition) with seeded parameter values; "
        "Gaussian cases enumerate (dim on both sides of MIN_DIM_SPARSE, structure iso/diag/full/banded, mean form) and "
        "inside each case every (parameterisation, storage, square-root kind) of ONE (mean, covariance); MRF cases "
        "enumerate (family, bc, order, physical dim, N, shift form, plain/conditioned). A case is non-trivial when the "
        "library returned at least one density value that was compared against the closed-form reference or a "
        "quadrature; sub-cases = distinct (family/param, storage, sqrt kind) actually compared")
ASSUMPTIONS = [
    "documented density = formula in the class docstring (SmoothedLaplace: the docstring expression, whose mass "
    "sqrt(beta)/b*K1(sqrt(beta)/b) is checked instead of 1; ModifiedHalfNormal: only up to a constant)",
    "GMRF with a singular structure matrix: normalised on its range (rank and pseudo-determinant of D^T D)",
    "Gaussian sqrtcov/sqrtprec follow the docstring convention R^T R",
    "sksparse.cholmod absent: full sparse matrices may refuse the normalised density (NotImplementedError)",
    "GMRF dimensions above config.MAX_DIM_INV (documented approximate log-determinant) are not driven",
]
REQUIRED_COUNTERS = {   # ~40 % of what the unchanged tree produces (deterministic per tier up to NaN-skipped logd offsets)
    "quick": {"logpdf_value_checked": 400, "gaussian_form_value_checked": 2000, "gaussian_forms_agree_checked": 1900,
              "gaussian_logdet_checked": 600, "gaussian_reassign_checked": 250, "outside_support_checked": 160,
              "cdf_value_checked": 280, "normalisation_quadratures": 12, "slice_quadratures": 100, "cdf_quadratures": 12,
              "dblquad_quadratures": 3, "logd_offset_checked": 3000, "pdf_vs_logpdf_checked": 600, "mrf_value_checked": 500,
              "gmrf_constant_checked": 100, "mhn_difference_checked": 20, "conditioned_value_checked": 500,
              "threshold_embedding_checked": 170, "reassign_history_checked": 500, "compute_cov_checked": 600,
              "cdf_dblquad_checked": 10, "gaussian_cdf_forms_agree_checked": 80, "scaled_constant_checked": 500,
              "scaled_quadratic_checked": 800, "boundary_value_checked": 40, "batch_value_checked": 100},
    "thorough": {"logpdf_value_checked": 5000, "gaussian_form_value_checked": 20000, "gaussian_forms_agree_checked": 20000,
                 "gaussian_logdet_checked": 7000, "gaussian_reassign_checked": 3000, "outside_support_checked": 2000,
                 "cdf_value_checked": 3500, "normalisation_quadratures": 130, "slice_quadratures": 800, "cdf_quadratures": 150,
                 "dblquad_quadratures": 30, "logd_offset_checked": 28000, "pdf_vs_logpdf_checked": 6000, "mrf_value_checked": 1500,
                 "gmrf_constant_checked": 300, "mhn_difference_checked": 150, "conditioned_value_checked": 6000,
                 "threshold_embedding_checked": 700, "reassign_history_checked": 2500, "compute_cov_checked": 5000,
                 "cdf_dblquad_checked": 80, "gaussian_cdf_forms_agree_checked": 600, "scaled_constant_checked": 2000,
                 "scaled_quadratic_checked": 3000, "boundary_value_checked": 160, "batch_value_checked": 300},
}
BUDGET_S = {"quick": 200.0, "thorough": 1500.0}

# value tolerance |a-b| <= ATOL + RTOL*max(|a|,|b|,1); largest discrepancy seen on the unchanged tree (quick, seeds 0..3)
# is 6e-6 of this tolerance (~1e-13 absolute)
RTOL, ATOL = 1e-8, 1e-8
# quadrature: |I - target| <= QA*floor + QE*(quad's own error estimate); unchanged tree stays below floor/100
QA, QE = 1.0, 1e3

UNI_FAMS = ("Normal", "Laplace", "SmoothedLaplace", "Cauchy", "Gamma", "InverseGamma", "Beta", "Uniform")
VEC = {"Normal": ("mean", "std"), "Laplace": ("location",), "SmoothedLaplace": ("location", "scale"),
       "Cauchy": ("location", "scale"), "Gamma": ("shape", "rate"), "InverseGamma": ("shape", "location", "scale"),
       "Beta": ("alpha", "beta"), "Uniform": ("low", "high")}
PFORMS = ("scalar1", "bcast", "array", "list", "mixed_a", "mixed_b", "cond_fn", "cond_none",
          "arr1", "list1", "arr0d", "cond_arr1")     # one-element array / list / 0-d array wherever a scalar is allowed
ONE_ELEM = ("arr1", "list1", "arr0d", "cond_arr1")
# forms whose *construction or evaluation* may be refused with a documented exception (nothing in the
# documentation promises them); everything else must produce a value.
MAY_REFUSE = {("Normal", "list"), ("Uniform", "list"), ("Normal", "list1"), ("Uniform", "list1"), ("Laplace", "list1"),
              # 0-d arrays have no len(): the dimension inference raises IndexError for classes that keep them as given
              ("Laplace", "arr0d"), ("SmoothedLaplace", "arr0d"), ("Uniform", "arr0d")}     # python lists reach list*float / list-list arithmetic: TypeError
HAS_CDF = ("Normal", "Cauchy", "Gamma", "InverseGamma", "Beta")

GAUSS_DIMS = {"quick": (1, 2, 5, 74, 75, 76, 77), "thorough": (1, 2, 3, 5, 9, 74, 75, 76, 77, 120)}

# ----------------------------------------------------------------------------- cases

def cases(tier, seed):
    out = []
    reps = 3 if tier == "quick" else 40
    for fam in UNI_FAMS:
        for pf in PFORMS:
            if pf == "mixed_b" and len(VEC[fam]) < 2:
                continue
            for rep in range(reps):
                out.append({"kind": "uni", "family": fam, "pform": pf, "rep": rep})
        for rep in range(1 if tier == "quick" else 10):
            out.append({"kind": "uni2d", "family": fam, "pform": ("bcast", "array")[rep % 2], "rep": rep})
    for struct in ("iso", "diag", "full", "banded"):
        for d in GAUSS_DIMS[tier]:
            if d == 1 and struct in ("full", "banded"):
                continue
            for mean_form in ("array", "scalar", "list", "arr1"):
                for rep in range(1 if tier == "quick" else (10 if d < 70 else 5)):
                    out.append({"kind": "gauss", "struct": struct, "dim": d, "mean_form": mean_form, "rep": rep})
    for covform in ("scalar", "vector", "dense", "diag_dense", "cond_fn"):
        for d in ((1, 2, 3, 76) if tier == "quick" else (1, 2, 3, 5, 8, 75, 76, 77)):
            for rep in range(1 if tier == "quick" else 5):
                out.append({"kind": "lognormal", "covform": covform, "dim": d, "rep": rep})
    for pf in ("scalar1", "bcast", "array", "arr1"):
        for rep in range(4 if tier == "quick" else 30):
            out.append({"kind": "mhn", "pform": pf, "rep": rep})
    n1 = (4, 7, 12) if tier == "quick" else (3, 4, 5, 7, 9, 12, 16, 24, 40)
    n2 = (4, 5) if tier == "quick" else (3, 4, 5, 6, 8)
    for pd, Ns in ((1, n1), (2, n2)):
        for N in Ns:
            for bc in ("zero", "periodic", "neumann"):
                for shift in ("zero", "vector", "scalar", "arr1"):
                    for mode in ("plain", "cond"):
                        for order in (0, 1, 2):
                            if order == 2 and N < 4:
                                continue
                            out.append({"kind": "mrf", "family": "GMRF", "bc": bc, "order": order, "pd": pd, "N": N,
                                        "shift": shift, "mode": mode})
                        for fam in ("LMRF", "CMRF"):
                            out.append({"kind": "mrf", "family": fam, "bc": bc, "order": 1, "pd": pd, "N": N,
                                        "shift": shift, "mode": mode})
    # one matrix embedded as blockdiag(M, c*I) at total dims on both sides of the sparse-storage threshold
    for param, kinds in (("cov", ("-",)), ("prec", ("-",)), ("sqrtcov", ("sym", "upper", "lower", "nonsym")),
                         ("sqrtprec", ("sym", "upper", "lower", "nonsym"))):
        for kind_ in kinds:
            for rep in range(2 if tier == "quick" else 8):
                out.append({"kind": "embed", "param": param, "sqrt_kind": kind_, "rep": rep})
    # extreme-but-legal scales: Sigma = 10^k * Sigma0 with strong correlations
    for d in ((2, 4, 30, 75, 76) if tier == "quick" else (2, 3, 4, 9, 30, 74, 75, 76, 77, 120)):
        for k10 in (-16, -12, -10, -8, -6, -4, 0, 4, 8, 12, 16):
            for struct in ("full", "diag"):
                for rep in range(1 if tier == "quick" else 2):
                    out.append({"kind": "gscale", "dim": d, "log10_scale": k10, "struct": struct, "rep": rep})
    # evaluation exactly on the edge of the support / at the kink
    for fam, classes, edges in (("Gamma", ("lt1", "eq1", "gt1"), ("lower",)), ("InverseGamma", ("lt1", "eq1", "gt1"), ("lower",)),
                                ("Beta", ("lt1", "eq1", "gt1"), ("lower", "upper")), ("Uniform", ("-",), ("lower", "upper")),
                                ("Lognormal", ("-",), ("lower",)), ("Laplace", ("-",), ("centre",)),
                                ("SmoothedLaplace", ("-",), ("centre",)), ("Cauchy", ("-",), ("centre",)), ("Normal", ("-",), ("centre",))):
        for cls in classes:
            for edge in edges:
                for d in (1, 3):
                    for rep in range(2 if tier == "quick" else 8):
                        out.append({"kind": "boundary", "family": fam, "cls": cls, "edge": edge, "dim": d, "rep": rep})
    # re-assignment histories of the mutable parameters of an existing object
    for fam in UNI_FAMS + ("Lognormal", "Gaussian", "GMRF", "LMRF", "CMRF"):
        for form in ("scalar1", "array") if fam not in ("GMRF", "LMRF", "CMRF") else ("array", "scalar_loc"):
            for rep in range(2 if tier == "quick" else 10):
                out.append({"kind": "reassign", "family": fam, "form": form, "rep": rep})
    for rep in range(4 if tier == "quick" else 20):
        out.append({"kind": "user", "which": "udd", "rep": rep})
    for nm in ("CalSom91", "BivariateGaussian", "funnel", "mixture", "squiggle", "donut", "banana"):
        out.append({"kind": "user", "which": nm, "rep": 0})
    # interleave so that every shard gets a mixture of cheap and expensive kinds
    rnd = core.rng_for(seed, PROPERTY, "order")
    rnd.shuffle(out)
    return out

def crash_config(case):
    return {k: case[k] for k in ("kind", "family", "pform", "struct", "bc", "order", "pd", "covform", "which", "param", "sqrt_kind", "form", "cls", "edge", "log10_scale") if k in case}

# ----------------------------------------------------------------------------- helpers

def _scalar(v):
    """Density values come back as python floats, 0-d or 1-element arrays."""
    a = np.asarray(v, dtype=float)
    if a.size != 1:
        return None
    return float(a.reshape(-1)[0])

def _close(a, b, rtol=RTOL, atol=ATOL):
    if a is None or b is None:
        return False
    if math.isnan(a) or math.isnan(b):
        return False
    if math.isinf(a) or math.isinf(b):
        return a == b
    return abs(a - b) <= atol + rtol * max(abs(a), abs(b), 1.0)

def _logu(rs, lo, hi, size=None):
    return np.exp(rs.uniform(math.log(lo), math.log(hi), size))

def _mkfun(argname, fn=None):
    """A callable with exactly one named non-default argument (what cuqi inspects)."""
    ns = {"_f": fn if fn is not None else (lambda v: v)}
    exec(f"def g({argname}):\n    return _f({argname})", ns)
    return ns["g"]

def _val(ctx, what, fn, *a, may_refuse=False, cfg=None, broad=False, **k):
    """Run a library call; classify. Returns ('value', v) or (None, None) after reporting.
    broad=True: undocumented input type (0-d array, python list) - any of core.REFUSAL_TYPES_BROAD is a refusal."""
    kind, v = core.outcome(fn, *a, refusal=(core.REFUSAL_TYPES_BROAD if broad else core.REFUSAL_TYPES), **k)
    if kind == "value":
        return "value", v
    if kind == "refused" and may_refuse:
        ctx.refused(what, v); ctx.count("refusal_observed")
        return None, None
    ctx.violation("unexpected_refusal" if kind == "refused" else "crash",
                  {**(cfg or {}), "call": what, "exc": type(v).__name__}, detail=f"{what}: {type(v).__name__}: {v}")
    return None, None

# ----------------------------------------------------------------------------- univariate families

def _draw_params(fam, roles, d, rs, smooth=False):
    """Truth table P[param] = ndarray (d,), respecting roles ('s' = same value for every coordinate)."""
    def gen(kind):
        if kind == "loc":
            return rs.uniform(-3, 3, d)
        if kind == "scale":
            return _logu(rs, 0.2, 5.0, d)
        if kind == "shape":
            return _logu(rs, 1.3 if smooth else 0.6, 8.0, d)
        if kind == "rate":
            return _logu(rs, 0.2, 20.0, d)
        if kind == "beta_s":
            return _logu(rs, 1e-4, 1.0, d)
        raise ValueError(kind)
    kinds = {"Normal": {"mean": "loc", "std": "scale"}, "Laplace": {"location": "loc", "scale": "scale"},
             "SmoothedLaplace": {"location": "loc", "scale": "scale", "beta": "beta_s"},
             "Cauchy": {"location": "loc", "scale": "scale"}, "Gamma": {"shape": "shape", "rate": "rate"},
             "InverseGamma": {"shape": "shape", "location": "loc", "scale": "scale"},
             "Beta": {"alpha": "shape", "beta": "shape"}, "Uniform": {"low": "loc", "high": "scale"}}[fam]
    P = {}
    for p, kd in kinds.items():
        v = gen(kd)
        if roles[p] == "s":
            v = np.full(d, v[0])
        P[p] = v
    if fam == "Uniform":
        P["high"] = P["low"] + P["high"]          # width > 0
        if roles["high"] == "s":                  # keep 'same value for every coordinate' true
            P["high"] = np.full(d, np.max(P["low"]) + P["high"][0] - P["low"][0] + 0.1)
    return P

def _roles(fam, pform):
    names = R.UNI[fam]["params"]
    vec = VEC[fam]
    if pform in ("scalar1", "bcast") + ONE_ELEM:
        return {p: "s" for p in names}
    if pform in ("array", "list", "cond_fn", "cond_none"):
        return {p: ("v" if p in vec else "s") for p in names}
    if pform == "mixed_a":
        return {p: ("v" if p == vec[0] else "s") for p in names}
    if pform == "mixed_b":
        return {p: ("v" if (p in vec and p != vec[0]) else "s") for p in names}
    raise ValueError(pform)

def _interior(fam, P, d, rs):
    if fam == "Normal":
        return P["mean"] + P["std"] * rs.uniform(-3, 3, d)
    if fam in ("Laplace", "SmoothedLaplace"):
        return P["location"] + P["scale"] * rs.uniform(-4, 4, d)
    if fam == "Cauchy":
        return P["location"] + P["scale"] * rs.uniform(-1, 1, d) * rs.choice([1.0, 5.0, 30.0], d)
    if fam == "Gamma":
        return P["shape"] / P["rate"] * _logu(rs, 0.1, 3.0, d)
    if fam == "InverseGamma":
        return P["location"] + P["scale"] / (P["shape"] + 1.0) * _logu(rs, 0.3, 6.0, d)
    if fam == "Beta":
        return rs.uniform(0.03, 0.97, d)
    if fam == "Uniform":
        return P["low"] + (P["high"] - P["low"]) * rs.uniform(0.02, 0.98, d)
    raise ValueError(fam)

def _centre(fam, P):
    """A split point inside the support near the bulk (kinks of Laplace sit exactly here)."""
    if fam == "Normal":
        return P["mean"]
    if fam in ("Laplace", "SmoothedLaplace", "Cauchy"):
        return P["location"]
    if fam == "Gamma":
        return np.maximum(P["shape"] - 1.0, 0.5) / P["rate"]
    if fam == "InverseGamma":
        return P["location"] + P["scale"] / (P["shape"] + 1.0)
    if fam == "Beta":
        return np.clip((P["alpha"]) / (P["alpha"] + P["beta"]), 0.1, 0.9)
    if fam == "Uniform":
        return 0.5 * (P["low"] + P["high"])
    raise ValueError(fam)

def _support(fam, P):
    d = len(next(iter(P.values())))
    if fam == "Gamma":
        return np.zeros(d), np.full(d, np.inf)
    if fam == "InverseGamma":
        return P["location"].copy(), np.full(d, np.inf)
    if fam == "Beta":
        return np.zeros(d), np.ones(d)
    if fam == "Uniform":
        return P["low"].copy(), P["high"].copy()
    return np.full(d, -np.inf), np.full(d, np.inf)

def _build_uni(cuqi, fam, pform, P, roles, d):
    """Constructor arguments for the form; returns (callable building the evaluable object, info)."""
    cls = getattr(cuqi.distribution, fam)
    names = R.UNI[fam]["params"]
    def passed(p):
        v = P[p]
        if roles[p] == "s":
            return {"arr1": np.array([float(v[0])]), "list1": [float(v[0])], "arr0d": np.array(float(v[0]))}.get(pform, float(v[0]))
        return v.tolist() if pform == "list" else np.array(v)
    kwargs, cond = {}, {}
    any_vec = False
    for i, p in enumerate(names):
        if pform in ("cond_fn", "cond_arr1"):
            kwargs[p] = _mkfun("c_" + p)
            cond["c_" + p] = np.array(P[p]) if roles[p] == "v" else (np.array([float(P[p][0])]) if pform == "cond_arr1" else float(P[p][0]))
        elif pform == "cond_none" and i == 0:
            kwargs[p] = None
            cond[p] = np.array(P[p]) if roles[p] == "v" else float(P[p][0])
        else:
            kwargs[p] = passed(p)
            any_vec = any_vec or (roles[p] == "v" and d > 1)
    if d > 1 and not any_vec:
        kwargs["geometry"] = d
    kwargs["name"] = "x"
    return cls, kwargs, cond

def _quad(f, lo, c, hi, **kw):
    from scipy.integrate import quad
    tot, err = 0.0, 0.0
    for a, b in ((lo, c), (c, hi)):
        if a == b:
            continue
        v, e = quad(f, a, b, limit=200, epsabs=1e-11, epsrel=1e-10, **kw)
        tot += v; err += e
    return tot, err

def _uni_cfg(case, d, roles=None):
    cfg = {"kind": case["kind"], "family": case["family"], "pform": case["pform"], "dim_gt1": bool(d > 1)}
    if roles and case["family"] == "SmoothedLaplace":
        cfg["scale_form"] = "scalar" if roles["scale"] == "s" else "vector"
    return cfg

def _judge_logpdf(ctx, fam, cfg, x, got, P, roles, label="logpdf"):
    ref = R.indep_logpdf(fam, x, P)
    ctx.count("logpdf_value_checked")
    if _close(got, ref):
        return True
    d = len(x)
    if fam == "SmoothedLaplace" and roles["scale"] == "s" and d > 1 and got is not None:
        # hypothesis: the constant log(1/(2b)) of a scalar scale is counted once instead of dim times
        hyp = ref - (d - 1) * math.log(0.5 / float(P["scale"][0]))
        if _close(got, hyp):
            ctx.violation("smoothedlaplace_constant_counted_once", cfg,
                          detail=f"dim={d} scale={P['scale'][0]:.4g}: {label}={got!r}, documented product density {ref!r}; "
                                 f"equals the value with log(1/(2b)) added once ({hyp!r})")
            return False
    ctx.violation("logpdf_value_mismatch", cfg, detail=f"{fam} {label}({x.tolist()}) = {got!r}, documented density gives {ref!r}; "
                                                         f"params { {k: v.tolist() for k, v in P.items()} }")
    return False

def _judge_cdf(ctx, fam, cfg, x, got, P):
    ref = R.indep_cdf(fam, x, P)
    ctx.count("cdf_value_checked")
    if got is not None and abs(got - ref) <= 1e-9 + 1e-8 * abs(ref):
        return True
    if fam == "Cauchy" and len(x) > 1 and got is not None:
        hyp = float(np.sum(R.cauchy_cdf1(x, P["location"], P["scale"])))
        if abs(got - hyp) <= 1e-9:
            ctx.violation("cauchy_cdf_sums_coordinates", cfg,
                          detail=f"dim={len(x)}: cdf={got!r}; product of the coordinate cdfs (integral of the density) {ref!r}; sum {hyp!r}")
            return False
    ctx.violation("cdf_value_mismatch", cfg, detail=f"{fam} cdf({x.tolist()}) = {got!r}, integral of the documented density {ref!r}")
    return False

def _run_uni(case, ctx, rs):
    import cuqi
    fam, pform = case["family"], case["pform"]
    two_d = case["kind"] == "uni2d"
    if pform == "scalar1" or (pform in ONE_ELEM and case["rep"] % 3 == 0):
        d = 1
    elif two_d:
        d = 2
    else:
        d = (2, 3, 5, 8, 13)[case["rep"] % 5] if ctx.tier == "thorough" else (2, 3, 6)[case["rep"] % 3]
    roles = _roles(fam, pform)
    P = _draw_params(fam, roles, d, rs, smooth=two_d)
    cfg = _uni_cfg(case, d, roles)
    may = (fam, pform) in MAY_REFUSE
    cls, kwargs, cond = _build_uni(cuqi, fam, pform, P, roles, d)
    k, dist0 = _val(ctx, "construct", cls, may_refuse=may, cfg=cfg, broad=may, **kwargs)
    if k is None:
        ctx.nontrivial() if may else None
        return
    dist = dist0
    if cond:
        k, dist = _val(ctx, "condition", dist0, may_refuse=False, cfg=cfg, **cond)
        if k is None:
            return
    ctx.note("params", {p: v.tolist() for p, v in P.items()})
    # ---- values at interior points through logpdf, pdf, logd
    offs, compared = [], 0
    for j in range(5):
        x = _interior(fam, P, d, rs)
        xin = float(x[0]) if (d == 1 and j % 2 == 0) else x.copy()
        k, v = _val(ctx, "logpdf", dist.logpdf, xin, may_refuse=may, cfg=cfg, broad=may)
        if k is None:
            if may:
                ctx.nontrivial()
            return
        got = _scalar(v)
        if got is None:
            ctx.violation("logpdf_not_scalar", cfg, detail=f"logpdf returned shape {np.shape(v)}")
            return
        ok = _judge_logpdf(ctx, fam, cfg, x, got, P, roles)
        compared += 1
        k, pv = _val(ctx, "pdf", dist.pdf, xin, cfg=cfg)
        if k is not None:
            ctx.count("pdf_vs_logpdf_checked")
            pg = _scalar(pv)
            if ok and not _close(pg, math.exp(got), rtol=1e-9, atol=1e-300):
                ctx.violation("pdf_vs_logpdf", cfg, detail=f"pdf={pg!r} exp(logpdf)={math.exp(got)!r}")
        k, lv = _val(ctx, "logd", dist.logd, xin, cfg=cfg)
        if k is not None:
            lg = _scalar(lv)
            if lg is not None and math.isfinite(lg) and math.isfinite(got):
                offs.append(lg - got)
        if cond:
            # un-conditioned object, conditioning variables + main parameter by keyword and by position
            kw = dict(cond); kw["x"] = xin
            k, cv = _val(ctx, "logd(cond kwargs)", dist0.logd, cfg=cfg, **kw)
            if k is not None:
                ctx.count("conditioned_value_checked")
                if ok and not _close(_scalar(cv), got + (offs[-1] if offs else 0.0)):
                    ctx.violation("conditional_logd_mismatch", {**cfg, "via": "keywords"},
                                  detail=f"logd(**cond, x) = {_scalar(cv)!r}; conditioned object's logd = {got + (offs[-1] if offs else 0.0)!r}")
            order = dist0.get_conditioning_variables()
            k, cv = _val(ctx, "logd(cond positional)", dist0.logd, *[cond[c] for c in order], xin, cfg=cfg)
            if k is not None:
                ctx.count("conditioned_value_checked")
                if ok and not _close(_scalar(cv), got + (offs[-1] if offs else 0.0)):
                    ctx.violation("conditional_logd_mismatch", {**cfg, "via": "positional"},
                                  detail=f"logd(*cond, x) = {_scalar(cv)!r}; conditioned object's logd = {got!r}")
    if offs:
        ctx.count("logd_offset_checked", len(offs))
        if max(offs) - min(offs) > 1e-9 * max(1.0, abs(offs[0])):
            ctx.violation("logd_not_logpdf_plus_constant", cfg, detail=f"logd - logpdf over the points: {offs}")
    ctx.nontrivial(f"{fam}/{pform}")
    # ---- outside the support: the density vanishes
    lo, hi = _support(fam, P)
    if np.any(np.isfinite(lo)) or np.any(np.isfinite(hi)):
        for j in range(4):
            x = _interior(fam, P, d, rs)
            i = int(rs.randint(d))
            below = np.isfinite(lo[i]) and (j % 2 == 0 or not np.isfinite(hi[i]))
            x[i] = lo[i] - rs.uniform(0.05, 2.0) if below else hi[i] + rs.uniform(0.05, 2.0)
            k, v = _val(ctx, "logpdf(outside)", dist.logpdf, x.copy(), cfg=cfg)
            if k is None:
                continue
            ctx.count("outside_support_checked")
            got = _scalar(v)
            if got != -np.inf:
                ctx.violation("density_not_zero_outside_support", {**cfg, "side": "below" if below else "above"},
                              detail=f"{fam} logpdf({x.tolist()}) = {got!r} with coordinate {i} outside [{lo[i]}, {hi[i]}]")
            k, v = _val(ctx, "pdf(outside)", dist.pdf, x.copy(), cfg=cfg)
            if k is not None and _scalar(v) != 0.0:
                ctx.violation("density_not_zero_outside_support", {**cfg, "side": "below" if below else "above", "via": "pdf"},
                              detail=f"{fam} pdf({x.tolist()}) = {_scalar(v)!r} outside the support")
    # ---- cdf = integral of the density (closed form per coordinate, product over independent coordinates)
    if fam in HAS_CDF:
        prev = None
        x = _interior(fam, P, d, rs)
        ok_all = True
        for j in range(3):
            xj = _interior(fam, P, d, rs) if j else x
            k, v = _val(ctx, "cdf", dist.cdf, xj.copy(), cfg=cfg)
            if k is None:
                ok_all = False
                break
            ok_all &= _judge_cdf(ctx, fam, cfg, xj, _scalar(v), P)
        # at / beyond the edges of the support, coordinate-wise
        for j in range(2):
            xe = _interior(fam, P, d, rs)
            i = int(rs.randint(d))
            if j == 0:
                xe[i] = (lo[i] - 0.3) if np.isfinite(lo[i]) else _centre(fam, P)[i] - 1e9
            else:
                xe[i] = (hi[i] + 0.3) if np.isfinite(hi[i]) else _centre(fam, P)[i] + 1e12
            k, v = _val(ctx, "cdf(edge)", dist.cdf, xe.copy(), cfg=cfg)
            if k is not None:
                ctx.count("cdf_limits_checked")
                ok_all &= _judge_cdf(ctx, fam, {**cfg, "edge": ("lower", "upper")[j]}, xe, _scalar(v), P)
        # monotone along a ray
        if ok_all:
            base = _interior(fam, P, d, rs); step = np.abs(_interior(fam, P, d, rs) - base) + 0.05
            vals = []
            for t in (0.0, 0.5, 1.0, 2.0):
                k, v = _val(ctx, "cdf", dist.cdf, base + t * step, cfg=cfg)
                if k is not None:
                    vals.append(_scalar(v))
            ctx.count("cdf_monotone_checked")
            if any(b < a - 1e-12 for a, b in zip(vals, vals[1:])) or any(v < -1e-12 or v > 1 + 1e-12 for v in vals):
                ctx.violation("cdf_not_monotone_or_outside_01", cfg, detail=f"cdf along an increasing ray: {vals}")
    # ---- quadratures of the library's own pdf
    c = _centre(fam, P)
    if d == 1:
        f = lambda t: _scalar(dist.pdf(np.array([t])))
        tot, err = _quad(f, lo[0], c[0], hi[0])
        target = R.smoothed_laplace_mass(P["scale"][0], P["beta"][0]) if fam == "SmoothedLaplace" else 1.0
        ctx.count("normalisation_quadratures")
        ctx.note("mass", [tot, err, target])
        if abs(tot - target) > QA * 1e-6 + QE * err:
            ctx.violation("density_mass_mismatch", cfg, detail=f"{fam}: integral of pdf over the support = {tot!r} (+-{err:.2g}), documented density integrates to {target!r}")
        if fam in HAS_CDF:
            for j in range(2):
                x = _interior(fam, P, 1, rs)
                a, e = _quad(f, lo[0], min(c[0], x[0]), x[0])
                k, v = _val(ctx, "cdf", dist.cdf, x.copy(), cfg=cfg)
                if k is None:
                    continue
                ctx.count("cdf_quadratures")
                if abs(_scalar(v) - a) > QA * 1e-6 + QE * e:
                    ctx.violation("cdf_not_integral_of_pdf", cfg, detail=f"{fam}: cdf({x[0]!r}) = {_scalar(v)!r}, quadrature of its pdf up to x = {a!r} (+-{e:.2g})")
    if d == 2:
        # marginal slices: int p(x1, x2*) dx1 = p_2(x2*)  (and the other axis) - normalisation of the joint
        # density given the documented independence of the coordinates
        for axis in (0, 1):
            other = 1 - axis
            for j in range(2):
                xs = _interior(fam, P, 2, rs)
                def f(t, axis=axis, xs=xs):
                    z = xs.copy(); z[axis] = t
                    return _scalar(dist.pdf(z))
                tot, err = _quad(f, lo[axis], c[axis], hi[axis])
                Po = {p: v[other:other + 1] for p, v in P.items()}
                m1 = R.smoothed_laplace_mass(P["scale"][axis], P["beta"][axis]) if fam == "SmoothedLaplace" else 1.0
                target = m1 * math.exp(R.indep_logpdf(fam, xs[other:other + 1], Po))
                ctx.count("slice_quadratures")
                if abs(tot - target) > QA * (1e-7 + 1e-6 * target) + QE * err:
                    if fam == "SmoothedLaplace" and roles["scale"] == "s" and \
                            abs(tot * 0.5 / P["scale"][0] - target) <= QA * (1e-7 + 1e-6 * target) + QE * err:
                        ctx.violation("smoothedlaplace_constant_counted_once", cfg,
                                      detail=f"slice integral {tot!r} = documented marginal {target!r} times 2b")
                    else:
                        ctx.violation("marginal_slice_mismatch", {**cfg, "axis": axis},
                                      detail=f"{fam}: int pdf(x) dx_{axis} at x_{other}={xs[other]!r} = {tot!r} (+-{err:.2g}); documented marginal density {target!r}")
    if two_d:
        from scipy.integrate import dblquad
        tot, err = 0.0, 0.0
        f2 = lambda y, x: _scalar(dist.pdf(np.array([x, y])))
        for a0, b0 in ((lo[0], c[0]), (c[0], hi[0])):
            for a1, b1 in ((lo[1], c[1]), (c[1], hi[1])):
                v, e = dblquad(f2, a0, b0, a1, b1, epsabs=2e-8, epsrel=1e-8)
                tot += v; err += e
        target = 1.0
        if fam == "SmoothedLaplace":
            target = R.smoothed_laplace_mass(P["scale"][0], P["beta"][0]) * R.smoothed_laplace_mass(P["scale"][1], P["beta"][1])
        ctx.count("dblquad_quadratures")
        ctx.note("mass2d", [tot, err, target])
        if abs(tot - target) > QA * 1e-5 + QE * err:
            if fam == "SmoothedLaplace" and roles["scale"] == "s" and abs(tot * 0.5 / P["scale"][0] - target) <= QA * 1e-5 + QE * err:
                ctx.violation("smoothedlaplace_constant_counted_once", cfg, detail=f"2-D mass {tot!r} = documented mass {target!r} times 2b")
            else:
                ctx.violation("density_mass_mismatch", {**cfg, "quad": "2d"},
                              detail=f"{fam}: 2-D integral of pdf = {tot!r} (+-{err:.2g}); documented density integrates to {target!r}")

# ----------------------------------------------------------------------------- Gaussian forms

def _spd(rs, d, struct):
    if struct == "iso":
        return float(_logu(rs, 0.3, 4.0)) * np.eye(d)
    if struct == "diag":
        return np.diag(_logu(rs, 0.3, 4.0, d))
    if struct == "full":
        A = rs.standard_normal((d, d))
        Q, _ = np.linalg.qr(A)
        w = _logu(rs, 0.3, 4.0, d)                      # condition number <= ~13
        Sg = (Q * w) @ Q.T
        return (Sg + Sg.T) / 2
    raise ValueError(struct)

def _sym_sqrt(M):
    w, V = np.linalg.eigh((M + M.T) / 2)
    return (V * np.sqrt(w)) @ V.T

def _sqrt_kinds(M, rs):
    """Matrices R with R^T R = M (documented convention): symmetric, upper, lower, non-symmetric."""
    d = M.shape[0]
    U = np.linalg.cholesky(M).T                         # U^T U = M, U upper
    J = np.eye(d)[::-1]
    C = np.linalg.cholesky(J @ M @ J)                   # J M J = C C^T
    Lw = (J @ C @ J).T                                  # M = (JCJ)(JCJ)^T, JCJ upper -> R = (JCJ)^T lower, R^T R = M
    Q, _ = np.linalg.qr(rs.standard_normal((d, d)))
    return {"sym": _sym_sqrt(M), "upper": U, "lower": Lw, "nonsym": Q @ _sym_sqrt(M)}

def _gauss_entries(struct, d, Sigma, rs):
    """[(param, storage, sqrt_kind, value, may_refuse)] all denoting N(mean, Sigma) by the documentation."""
    import scipy.sparse as sp
    Pm = np.linalg.inv(Sigma)
    E = []
    if struct in ("iso", "diag"):
        var = np.diag(Sigma).copy()
        base = {"cov": var, "prec": 1 / var, "sqrtcov": np.sqrt(var), "sqrtprec": 1 / np.sqrt(var)}
        for param, v in base.items():
            if struct == "iso":
                E.append((param, "scalar", "-", float(v[0]), False))
                E.append((param, "scalar_arr", "-", np.array([v[0]]), False))
                E.append((param, "scalar_fn", "-", ("fn", float(v[0])), False))
            if d > 1:
                E.append((param, "vector", "-", v.copy(), False))
                E.append((param, "list", "-", v.tolist(), False))
                E.append((param, "vector_fn", "-", ("fn", v.copy()), False))
            E.append((param, "diag_dense", "-", np.diag(v), False))
            if d > 1:
                E.append((param, "diag_list2d", "-", np.diag(v).tolist(), False))
                E.append((param, "sp_csr_diag", "-", sp.diags(v, format="csr"), False))
                E.append((param, "sp_csc_diag", "-", sp.diags(v, format="csc"), False))
                E.append((param, "sp_dia_diag", "-", sp.diags(v), False))
        return E
    if struct == "full":
        for param, M in (("cov", Sigma), ("prec", Pm)):
            Ms = (M + M.T) / 2
            E.append((param, "dense", "-", Ms, False))
            E.append((param, "list2d", "-", Ms.tolist(), False))
            E.append((param, "dense_fn", "-", ("fn", Ms), False))
            E.append((param, "sp_csr_full", "-", sp.csr_matrix(Ms), True))
        for param, M in (("sqrtcov", Sigma), ("sqrtprec", Pm)):
            for kind, Rm in _sqrt_kinds((M + M.T) / 2, rs).items():
                E.append((param, "dense", kind, Rm, False))
                if kind in ("upper", "nonsym"):
                    E.append((param, "list2d", kind, Rm.tolist(), False))
                if kind in ("sym", "upper"):
                    E.append((param, "sp_csr_full", kind, sp.csr_matrix(Rm), True))
        return E
    raise ValueError(struct)

def _banded(rs, d):
    """Upper bidiagonal R (the docstring's sparse sqrtprec example, with general entries); prec = R^T R."""
    import scipy.sparse as sp
    a = _logu(rs, 0.6, 2.5, d)
    b = rs.uniform(0.2, 0.9, d - 1) * rs.choice([-1.0, 1.0], d - 1)
    Rd = sp.diags([a, b], [0, 1], shape=(d, d))          # DIA format, as in the docstring
    Rm = Rd.toarray()
    Pm = Rm.T @ Rm
    Sigma = np.linalg.inv(Pm)
    Pd = sp.diags([np.diag(Pm, -1), np.diag(Pm), np.diag(Pm, 1)], [-1, 0, 1], shape=(d, d))
    E = [("sqrtprec", "sp_dia_banded", "upper", Rd, True),
         ("sqrtprec", "sp_csr_full", "upper", Rd.tocsr(), True),
         ("sqrtprec", "dense", "upper", Rm, False),
         ("prec", "sp_dia_banded", "-", Pd, True),
         ("prec", "sp_csr_full", "-", Pd.tocsr(), True),
         ("prec", "dense", "-", (Pm + Pm.T) / 2, False),
         ("cov", "dense", "-", (Sigma + Sigma.T) / 2, False)]
    return Sigma, E

def _run_gauss(case, ctx, rs):
    import cuqi
    d, struct, mean_form = case["dim"], case["struct"], case["mean_form"]
    side = "sparse" if d > cuqi.config.MIN_DIM_SPARSE else "dense"
    if struct == "banded":
        Sigma, entries = _banded(rs, d)
    else:
        Sigma = _spd(rs, d, struct)
        entries = _gauss_entries(struct, d, Sigma, rs)
    if mean_form in ("scalar", "arr1"):
        mu = np.full(d, float(rs.uniform(-2, 2)))
        mean_arg = float(mu[0]) if mean_form == "scalar" else np.array([float(mu[0])])
    else:
        mu = rs.uniform(-2, 2, d)
        mean_arg = mu.tolist() if mean_form == "list" else mu.copy()
        if d == 1:
            mean_arg = [float(mu[0])] if mean_form == "list" else mu.copy()
    sd = np.sqrt(np.diag(Sigma))
    xs = [mu + sd * rs.uniform(-2, 2, d) for _ in range(3)]
    refs = [R.gaussian_logpdf(x, mu, cov=Sigma) for x in xs]
    logdet_ref = float(np.linalg.slogdet(Sigma)[1])
    first_vals = None
    quad_objs = {}
    cov_objs = []
    for param, storage, kind, value, may in entries:
        cfg = {"kind": "gauss", "family": "Gaussian", "param": param, "storage": storage, "sqrt_kind": kind,
               "struct": struct, "side": side, "mean_form": mean_form}
        kwargs = {"name": "x"}
        cond = None
        if isinstance(value, tuple) and value[0] == "fn":
            target = value[1]
            kwargs[param] = _mkfun("s_", lambda s, target=target: s * np.asarray(target) if not np.isscalar(target) else s * target)
            cond = {"s_": 1.0}
            value = target
        else:
            kwargs[param] = value
        if d > 1 and (mean_form in ("scalar", "arr1") or cond is not None):
            kwargs["geometry"] = d
        k, g0 = _val(ctx, "construct", cuqi.distribution.Gaussian, mean_arg, may_refuse=may, cfg=cfg, **kwargs)
        if k is None:
            continue
        g = g0
        if cond is not None:
            k, g = _val(ctx, "condition", g0, cfg=cfg, **cond)
            if k is None:
                continue
        vals, offs, ok = [], [], True
        for x, ref in zip(xs, refs):
            k, v = _val(ctx, "logpdf", g.logpdf, x.copy(), may_refuse=may, cfg=cfg)
            if k is None:
                ok = False
                break
            got = _scalar(v)
            vals.append(got)
            ctx.count("gaussian_form_value_checked")
            if not _close(got, ref):
                ok = False
                _gauss_mismatch(ctx, cfg, param, storage, kind, value, d, mu, x, got, ref)
                break
            k, lv = _val(ctx, "logd", g.logd, x.copy(), cfg=cfg)
            if k is not None:
                offs.append(_scalar(lv) - got)
            if cond is not None:
                k, cv = _val(ctx, "logd(cond positional)", g0.logd, 1.0, x.copy(), cfg=cfg)
                if k is not None:
                    ctx.count("conditioned_value_checked")
                    if not _close(_scalar(cv), _scalar(lv)):
                        ctx.violation("conditional_logd_mismatch", {**cfg, "via": "positional"},
                                      detail=f"logd(s, x) = {_scalar(cv)!r}; conditioned object's logd {_scalar(lv)!r}")
        if not vals:
            ctx.nontrivial(f"Gaussian/{param}/{storage}/refused")
            continue
        ctx.nontrivial(f"Gaussian/{param}/{storage}/{kind}/{side}")
        if all(v_ is not None and math.isfinite(v_) for v_ in vals):
            cov_objs.append((g, cfg, ok, param, kind, storage))     # judged after the loop (compute_cov / cdf)
        if not ok:
            continue
        quad_objs.setdefault(param, (g, cfg))
        if offs:
            ctx.count("logd_offset_checked", len(offs))
            if max(offs) - min(offs) > 1e-9 * max(1.0, abs(refs[0])):
                ctx.violation("logd_not_logpdf_plus_constant", cfg, detail=f"logd - logpdf over the points: {offs}")
        # one and the same distribution: identical values (and identical logd-logpdf constant) across forms
        if first_vals is None:
            first_vals = (vals, offs[0] if offs else 0.0, cfg)
        else:
            ctx.count("gaussian_forms_agree_checked", len(vals))
            if any(not _close(a, b) for a, b in zip(vals, first_vals[0])) or \
                    (offs and abs(offs[0] - first_vals[1]) > 1e-9 * max(1.0, abs(refs[0]))):
                ctx.violation("gaussian_forms_disagree", cfg, detail=f"logpdf {vals} (logd offset {offs[:1]}) vs form "
                              f"{first_vals[2]['param']}/{first_vals[2]['storage']}: {first_vals[0]} (offset {first_vals[1]})")
        # canonical internal form as exposed by the documented getters
        k, ld = _val(ctx, "logdet", lambda: g.logdet, cfg=cfg)
        if k is not None and ld is not None:
            ctx.count("gaussian_logdet_checked")
            if not _close(_scalar(ld), logdet_ref) or int(g.rank) != d:
                ctx.violation("gaussian_logdet_rank", cfg, detail=f"logdet={_scalar(ld)!r} rank={g.rank!r}; log det Sigma = {logdet_ref!r}, dim {d}")
        # multi-step history: re-assigning the defining matrix must re-derive the canonical form (no stale log-det)
        if cond is None and storage in ("scalar", "vector", "diag_dense", "dense", "sp_csr_diag"):
            c = 2.0
            k, _ = _val(ctx, "reassign", setattr, g, param, value * c, cfg=cfg)
            if k is not None:
                fac = {"cov": c, "prec": 1 / c, "sqrtcov": c * c, "sqrtprec": 1 / (c * c)}[param]
                x, ref = xs[1], refs[1]
                q = -2.0 * ref - d * R.LOG2PI - logdet_ref
                ref2 = -0.5 * (d * R.LOG2PI + logdet_ref + d * math.log(fac) + q / fac)
                k, v = _val(ctx, "logpdf", g.logpdf, x.copy(), cfg=cfg)
                if k is not None:
                    ctx.count("gaussian_reassign_checked")
                    if not _close(_scalar(v), ref2):
                        ctx.violation("gaussian_stale_after_reassign", cfg,
                                      detail=f"dim={d}: after {param} <- {c}*{param}: logpdf {_scalar(v)!r}; N(mean, {fac}*Sigma) gives {ref2!r} (before: {ref!r})")
                _val(ctx, "reassign", setattr, g, param, value, cfg=cfg)
        if d <= 2 and struct in ("iso", "diag") and storage in ("scalar", "vector", "diag_dense", "sp_csr_diag"):
            x = xs[0]
            # scipy refuses a 1-element mean with a dim x dim covariance, and a sparse covariance: exceptions, not values
            k, v = _val(ctx, "cdf", g.cdf, x.copy(), may_refuse=((mean_form in ("scalar", "arr1") and d > 1) or storage.startswith("sp_")), cfg=cfg)
            if k is not None:
                ref = float(np.prod(R.normal_cdf1(x, mu, sd)))
                ctx.count("cdf_value_checked")
                if abs(_scalar(v) - ref) > (1e-9 if d == 1 else 1e-3):   # scipy's numerical mvn cdf for d > 1
                    ctx.violation("cdf_value_mismatch", cfg, detail=f"Gaussian cdf({x.tolist()}) = {_scalar(v)!r}; product of normal cdfs {ref!r}")
    ctx.note("logpdf_ref", refs)
    _gauss_cov_cdf(ctx, cov_objs, d, mu, Sigma, sd, xs[0], mean_form, rs)
    # quadrature of the library's own pdf: mass one in 1-D, marginal slices in 2-D (one object per parameterisation)
    if d <= 2:
        for param, (g, cfg) in quad_objs.items():
            if d == 1:
                tot, err = _quad(lambda t: _scalar(g.pdf(np.array([t]))), -np.inf, mu[0], np.inf)
                ctx.count("normalisation_quadratures")
                if abs(tot - 1.0) > QA * 1e-6 + QE * err:
                    ctx.violation("density_mass_mismatch", cfg, detail=f"Gaussian ({param}): integral of pdf = {tot!r} (+-{err:.2g})")
                continue
            for axis in (0, 1):
                other = 1 - axis
                xs_ = mu + sd * rs.uniform(-1.5, 1.5, 2)
                def f(t, axis=axis, xs_=xs_):
                    z = xs_.copy(); z[axis] = t
                    return _scalar(g.pdf(z))
                mc = mu[axis] + Sigma[axis, other] / Sigma[other, other] * (xs_[other] - mu[other])
                tot, err = _quad(f, -np.inf, mc, np.inf)
                target = math.exp(float(R.normal_logpdf1(xs_[other], mu[other], sd[other])))
                ctx.count("slice_quadratures")
                if abs(tot - target) > QA * (1e-7 + 1e-6 * target) + QE * err:
                    ctx.violation("marginal_slice_mismatch", {**cfg, "axis": axis},
                                  detail=f"Gaussian ({param}): int pdf dx_{axis} = {tot!r} (+-{err:.2g}); marginal normal density {target!r}")

def _realised_cov(g, mu, d):
    """Covariance of the Gaussian that the object's own logpdf realises: logpdf is exactly quadratic, so second
    differences with unit steps give its Hessian (= -precision) up to round-off. Convention-free."""
    f = lambda z: _scalar(g.logpdf(z))
    f0 = f(mu.copy())
    E = np.eye(d)
    f1 = [f(mu + E[i]) for i in range(d)]
    P = np.zeros((d, d))
    for i in range(d):
        for j in range(i, d):
            P[i, j] = P[j, i] = -(f(mu + E[i] + E[j]) - f1[i] - f1[j] + f0)
    return np.linalg.inv(P)

def _gauss_cov_cdf(ctx, cov_objs, d, mu, Sigma, sd, x0, mean_form, rs):
    """(a) compute_cov() is the covariance of the distribution logpdf realises; (b) cdf = integral of the object's own
    pdf (d = 1: quad, d = 2: dblquad, one object per parameterisation x square-root kind); (c) cdf agrees across forms."""
    import scipy.sparse as sp
    seen, first_cdf = set(), None
    for g, cfg, ok, param, kind, storage in cov_objs:
        sparse_in = storage.startswith("sp_")
        if d <= 9:
            kk, Sr = core.outcome(_realised_cov, g, mu, d, refusal=core.REFUSAL_TYPES_BROAD + (np.linalg.LinAlgError,))
            if kk != "value" or not np.all(np.isfinite(Sr)):
                continue
        elif ok:
            Sr = Sigma
        else:
            continue
        k, C = _val(ctx, "compute_cov", g.compute_cov, may_refuse=sparse_in, cfg=cfg)
        if k is not None:
            C = np.asarray(C.toarray() if sp.issparse(C) else C, dtype=float)
            ctx.count("compute_cov_checked")
            if C.shape != (d, d) or not np.allclose(C, Sr, rtol=0, atol=1e-7 * float(np.max(np.abs(Sr)))):
                err = float(np.max(np.abs(C - Sr))) if C.shape == (d, d) else None
                ctx.violation("compute_cov_differs_from_density", cfg,
                              detail=f"dim={d}: compute_cov() differs from the covariance realised by the object's own logpdf "
                                     f"(max abs difference {err}, scale {float(np.max(np.abs(Sr))):.3g})")
        if d > 3 or (mean_form in ("scalar", "arr1") and d > 1):
            continue
        # (b)/(c) cdf
        k, v = _val(ctx, "cdf", g.cdf, x0.copy(), may_refuse=sparse_in, cfg=cfg)
        if k is None:
            continue
        cv = _scalar(v)
        tol = 1e-9 if d == 1 else 1e-3          # scipy's mvn cdf is numerical for d > 1
        if ok:
            if first_cdf is None:
                first_cdf = (cv, cfg)
            else:
                ctx.count("gaussian_cdf_forms_agree_checked")
                if cv is None or abs(cv - first_cdf[0]) > tol:
                    ctx.violation("gaussian_cdf_forms_disagree", cfg,
                                  detail=f"dim={d}: cdf({x0.tolist()}) = {cv!r}; the form {first_cdf[1]['param']}/{first_cdf[1]['storage']} of the same "
                                         f"(mean, Sigma) gives {first_cdf[0]!r}")
        key = (param, kind, "sp" if sparse_in else "dn")
        if d > 2 or key in seen:
            continue
        seen.add(key)
        sdr = np.sqrt(np.diag(Sr))
        if d == 1:
            a, e = _quad(lambda t: _scalar(g.pdf(np.array([t]))), -np.inf, min(mu[0], x0[0]), x0[0])
            ctx.count("cdf_quadratures")
            if abs(cv - a) > QA * 1e-6 + QE * e:
                ctx.violation("cdf_not_integral_of_pdf", cfg, detail=f"Gaussian dim 1: cdf({x0[0]!r}) = {cv!r}; quadrature of its pdf {a!r} (+-{e:.2g})")
        else:
            from scipy.integrate import dblquad
            lo = mu - 9.0 * sdr
            a, e = dblquad(lambda y, x: _scalar(g.pdf(np.array([x, y]))), lo[0], x0[0], lo[1], x0[1], epsabs=1e-7, epsrel=1e-7)
            ctx.count("cdf_dblquad_checked")
            if abs(cv - a) > 1e-3 + QE * e:
                ctx.violation("cdf_not_integral_of_pdf", cfg,
                              detail=f"Gaussian dim 2: cdf({x0.tolist()}) = {cv!r}; 2-D quadrature of the object's own pdf over (-inf, x] = {a!r} (+-{e:.2g})")

def _gauss_mismatch(ctx, cfg, param, storage, kind, value, d, mu, x, got, ref):
    import scipy.sparse as sp
    dense = value.toarray() if sp.issparse(value) else np.asarray(value, dtype=float)
    if param == "sqrtcov" and kind in ("upper", "lower", "nonsym"):
        hyp = R.gaussian_logpdf(x, mu, cov=R.gaussian_cov_from("sqrtcov", dense, d, convention="code"))
        if _close(got, hyp):
            ctx.violation("gaussian_sqrtcov_builds_RRt", cfg,
                          detail=f"dim={d}: sqrtcov=R ({kind}) gives logpdf {got!r} = N(mean, R R^T) ({hyp!r}); documented cov = R^T R gives {ref!r}")
            return
    if param == "sqrtprec" and storage == "sp_dia_banded":
        data = np.asarray(value.data, dtype=float)
        with np.errstate(divide="ignore"):
            logdet_h = float(np.sum(-np.log(data ** 2)))
        quad = float(np.sum((dense @ (x - mu)) ** 2))
        hyp = -0.5 * (d * R.LOG2PI + logdet_h) - 0.5 * quad
        if _close(got, hyp):
            ctx.violation("gaussian_dia_sqrtprec_logdet_uses_all_stored_diagonals", cfg,
                          detail=f"dim={d}: DIA-format banded sqrtprec gives logpdf {got!r} (log-det summed over every stored "
                                 f"entry incl. off-diagonals and padding); documented density {ref!r}")
            return
    ctx.violation("gaussian_value_mismatch", cfg, detail=f"dim={d}: logpdf {got!r}; N(mean, Sigma) of the documented form gives {ref!r}")

# ----------------------------------------------------------------------------- Lognormal

def _run_lognormal(case, ctx, rs):
    import cuqi
    d, covform = case["dim"], case["covform"]
    cfg = {"kind": "lognormal", "family": "Lognormal", "covform": covform, "dim_gt1": d > 1,
           "side": "sparse" if d > cuqi.config.MIN_DIM_SPARSE else "dense"}
    mu = rs.uniform(-1, 1, d)
    if covform == "scalar" or (covform == "cond_fn" and d == 1):
        Sigma = float(_logu(rs, 0.1, 1.5)) * np.eye(d)
        arg = float(Sigma[0, 0])
    elif covform == "vector":
        v = _logu(rs, 0.1, 1.5, d); Sigma = np.diag(v); arg = v.copy()
    elif covform == "diag_dense":
        v = _logu(rs, 0.1, 1.5, d); Sigma = np.diag(v); arg = Sigma.copy()
    else:
        if d == 1:
            Sigma = np.array([[float(_logu(rs, 0.1, 1.5))]])
        else:
            Q, _ = np.linalg.qr(rs.standard_normal((d, d)))
            Sigma = (Q * _logu(rs, 0.1, 1.5, d)) @ Q.T; Sigma = (Sigma + Sigma.T) / 2
        arg = Sigma.copy()
    mean_arg = float(mu[0]) if d == 1 else mu.copy()
    cond = None
    if covform == "cond_fn":
        mean_arg = _mkfun("m_", lambda m: m)
        cond = {"m_": mu.copy() if d > 1 else float(mu[0])}
    k, dist0 = _val(ctx, "construct", cuqi.distribution.Lognormal, mean_arg, arg, cfg=cfg, name="x")
    if k is None:
        return
    dist = dist0
    if cond:
        k, dist = _val(ctx, "condition", dist0, cfg=cfg, **cond)
        if k is None:
            return
        # a second conditioning of the same original (the copies share the wrapped Gaussian) must not disturb the first
        k, other = _val(ctx, "condition", dist0, cfg=cfg, m_=(mu + 1.0 if d > 1 else float(mu[0]) + 1.0))
        if k is not None:
            core.outcome(other.logpdf, np.exp(mu))
    sd = np.sqrt(np.diag(Sigma))
    offs = []
    scale_pts = 1.0 if d < 20 else 0.5
    for j in range(4):
        x = np.exp(mu + sd * rs.uniform(-2.5, 2.5, d) * scale_pts)
        xin = float(x[0]) if (d == 1 and j % 2 == 0) else x.copy()
        k, v = _val(ctx, "logpdf", dist.logpdf, xin, cfg=cfg)
        if k is None:
            return
        got, ref = _scalar(v), R.lognormal_logpdf(x, mu, Sigma)
        ctx.count("logpdf_value_checked")
        ok = _close(got, ref, rtol=1e-7)
        if not ok:
            ctx.violation("logpdf_value_mismatch", cfg, detail=f"Lognormal dim={d}: logpdf={got!r}; log N(log x) - sum log x = {ref!r}")
        k, pv = _val(ctx, "pdf", dist.pdf, xin, cfg=cfg)
        if k is not None and ok:
            ctx.count("pdf_vs_logpdf_checked")
            if not _close(_scalar(pv), math.exp(ref), rtol=1e-7, atol=1e-300):
                ctx.violation("pdf_vs_logpdf", cfg, detail=f"pdf={_scalar(pv)!r} exp(reference logpdf)={math.exp(ref)!r}")
        k, lv = _val(ctx, "logd", dist.logd, xin, cfg=cfg)
        if k is not None and ok:
            offs.append(_scalar(lv) - got)
    if offs:
        ctx.count("logd_offset_checked", len(offs))
        if max(offs) - min(offs) > 1e-9:
            ctx.violation("logd_not_logpdf_plus_constant", cfg, detail=f"{offs}")
    ctx.nontrivial(f"Lognormal/{covform}/{cfg['side']}")
    for j in range(2):
        x = np.exp(mu + sd * rs.uniform(-1, 1, d))
        i = int(rs.randint(d)); x[i] = -rs.uniform(0.01, 2.0) if j else 0.0
        k, v = _val(ctx, "logpdf(outside)", dist.logpdf, x.copy(), cfg=cfg)
        if k is not None:
            ctx.count("outside_support_checked")
            if _scalar(v) != -np.inf:
                ctx.violation("density_not_zero_outside_support", cfg, detail=f"Lognormal logpdf({x.tolist()}) = {_scalar(v)!r}")
    if d == 1:
        f = lambda t: _scalar(dist.pdf(np.array([t])))
        tot, err = _quad(f, 0.0, math.exp(mu[0] - Sigma[0, 0]), np.inf)
        ctx.count("normalisation_quadratures")
        if abs(tot - 1.0) > QA * 1e-6 + QE * err:
            ctx.violation("density_mass_mismatch", cfg, detail=f"Lognormal: integral of pdf = {tot!r} (+-{err:.2g})")
    if d == 2:
        for axis in (0, 1):
            other = 1 - axis
            xs = np.exp(mu + sd * rs.uniform(-1.5, 1.5, 2))
            def f(t, axis=axis, xs=xs):
                z = xs.copy(); z[axis] = t
                return _scalar(dist.pdf(z))
            # conditional mode region of x_axis given x_other
            mc = mu[axis] + Sigma[axis, other] / Sigma[other, other] * (math.log(xs[other]) - mu[other])
            tot, err = _quad(f, 0.0, math.exp(mc - Sigma[axis, axis]), np.inf)
            target = math.exp(R.lognormal_logpdf(xs[other:other + 1], mu[other:other + 1], Sigma[other:other + 1, other:other + 1]))
            ctx.count("slice_quadratures")
            if abs(tot - target) > QA * (1e-7 + 1e-6 * target) + QE * err:
                ctx.violation("marginal_slice_mismatch", {**cfg, "axis": axis},
                              detail=f"Lognormal: int pdf dx_{axis} = {tot!r} (+-{err:.2g}); marginal lognormal density {target!r}")

# ----------------------------------------------------------------------------- ModifiedHalfNormal (up to its constant)

def _run_mhn(case, ctx, rs):
    import cuqi
    pform = case["pform"]
    d = 1 if pform == "scalar1" else (2, 3, 5)[case["rep"] % 3]
    cfg = {"kind": "mhn", "family": "ModifiedHalfNormal", "pform": pform, "dim_gt1": d > 1}
    if pform == "array":
        a, b, g = _logu(rs, 0.6, 8.0, d), _logu(rs, 0.2, 5.0, d), rs.uniform(-3, 3, d)
        args = (a.copy(), b.copy(), g.copy()); kw = {}
    else:
        a0, b0, g0 = float(_logu(rs, 0.6, 8.0)), float(_logu(rs, 0.2, 5.0)), float(rs.uniform(-3, 3))
        a, b, g = np.full(d, a0), np.full(d, b0), np.full(d, g0)
        args = (a0, b0, g0) if pform != "arr1" else (np.array([a0]), np.array([b0]), np.array([g0]))
        kw = {"geometry": d} if d > 1 else {}
    k, dist = _val(ctx, "construct", cuqi.distribution.ModifiedHalfNormal, *args, cfg=cfg, name="x", **kw)
    if k is None:
        return
    def ev(x):
        xin = float(x[0]) if d == 1 else x.copy()
        k, v = _val(ctx, "logpdf", dist.logpdf, xin, cfg=cfg)
        return None if k is None else _scalar(v)
    x0 = _logu(rs, 0.3, 2.0, d)
    v0 = ev(x0)
    if v0 is None:
        return
    r0 = float(np.sum(R.mhn_logupdf1(x0, a, b, g)))
    h0 = float(np.sum(R.mhn_logupdf1(x0, a, a, a)))
    offs = []
    for j in range(4):
        x = _logu(rs, 0.1, 3.0, d)
        v = ev(x)
        if v is None:
            return
        ref = float(np.sum(R.mhn_logupdf1(x, a, b, g))) - r0
        ctx.count("mhn_difference_checked")
        if not _close(v - v0, ref, rtol=1e-9, atol=1e-9):
            hyp = float(np.sum(R.mhn_logupdf1(x, a, a, a))) - h0
            if _close(v - v0, hyp, rtol=1e-9, atol=1e-9):
                ctx.violation("mhn_beta_gamma_read_as_alpha", cfg,
                              detail=f"alpha,beta,gamma={a[0]:.4g},{b[0]:.4g},{g[0]:.4g}: logpdf(x)-logpdf(x0) = {v - v0!r}; documented "
                                     f"x^(a-1)exp(-b x^2+g x) gives {ref!r}; with beta:=alpha, gamma:=alpha it gives {hyp!r}")
            else:
                ctx.violation("logpdf_value_mismatch", cfg, detail=f"MHN: logpdf(x)-logpdf(x0) = {v - v0!r}; documented shape gives {ref!r}")
        xin = float(x[0]) if d == 1 else x.copy()
        k, lv = _val(ctx, "logd", dist.logd, xin, cfg=cfg)
        if k is not None:
            offs.append(_scalar(lv) - v)
    if offs:
        ctx.count("logd_offset_checked", len(offs))
        if max(offs) - min(offs) > 1e-9:
            ctx.violation("logd_not_logpdf_plus_constant", cfg, detail=f"{offs}")
    ctx.nontrivial(f"MHN/{pform}")

# ----------------------------------------------------------------------------- MRF priors

def _run_mrf(case, ctx, rs):
    import cuqi
    fam, bc, order, pd, N, shift, mode = (case[k] for k in ("family", "bc", "order", "pd", "N", "shift", "mode"))
    n = N ** pd
    cfg = {"kind": "mrf", "family": fam, "bc": bc, "order": order, "pd": pd, "shift": shift, "mode": mode}
    geom = cuqi.geometry.Continuous1D(N) if pd == 1 else cuqi.geometry.Image2D((N, N))
    if shift == "zero":
        loc = np.zeros(n); loc_arg = np.zeros(n)
    elif shift == "vector":
        loc = rs.standard_normal(n); loc_arg = loc.copy()
    else:
        loc = np.full(n, float(rs.uniform(-2, 2))); loc_arg = float(loc[0]) if shift == "scalar" else np.array([float(loc[0])])
    par = float(_logu(rs, 0.1, 20.0))
    D = S.diff_op(N, bc, order, pd)
    cls = getattr(cuqi.distribution, fam)
    kwargs = {"bc_type": bc, "geometry": geom, "name": "x"}
    if fam == "GMRF":
        kwargs["order"] = order
    cond = None
    if mode == "cond":
        par_arg = _mkfun("s_", lambda s: s * par); cond = {"s_": np.array([1.0]) if shift == "arr1" else 1.0}
    else:
        par_arg = np.array([par]) if shift == "arr1" else par      # 1-element array where a scalar is allowed
    k, dist0 = _val(ctx, "construct", cls, loc_arg, par_arg, cfg=cfg, **kwargs)
    if k is None:
        return
    dist = dist0
    if cond:
        k, dist = _val(ctx, "condition", dist0, cfg=cfg, **cond)
        if k is None:
            return
    spread = 1.0 / math.sqrt(par) if fam == "GMRF" else par
    pts = [loc + rs.standard_normal(n) * spread * s for s in (0.3, 1.0, 3.0)]
    offs = []
    if fam == "GMRF":
        _, const_ref, r_ref, lpd = R.gmrf_logpdf(loc, loc, par, D)
        k, v = _val(ctx, "logpdf", dist.logpdf, loc.copy(), cfg=cfg)
        if k is None:
            return
        c_obs = _scalar(v)
        ctx.count("gmrf_constant_checked")
        const_ok = _close(c_obs, const_ref)
        mech = "gmrf_normalising_constant"
        if not const_ok and bc in ("periodic", "neumann") and c_obs is not None:
            # hypothesis of the known defect: rank taken as dim-1 and log-det summed over the dim-1 largest eigenvalues
            w = np.sort(np.linalg.eigvalsh(D.T @ D))[::-1]
            if order == 0:
                hyp = 0.5 * ((n - 1) * (math.log(par) - R.LOG2PI) + float(np.sum(np.log(w[:n - 1]))))
                if _close(c_obs, hyp):
                    mech = "gmrf_rank_assumed_dim_minus_1"
            elif order == 2 and bc == "neumann":
                # the extra 'eigenvalues' are round-off (|w| < 1e-9): their logs are NaN or hugely negative
                resid = c_obs - 0.5 * ((n - 1) * (math.log(par) - R.LOG2PI) + lpd)
                if math.isnan(resid) or resid < -5.0:
                    mech = "gmrf_rank_assumed_dim_minus_1"
        if not const_ok:
            ctx.violation(mech, cfg,
                          detail=f"N={N} prec={par:.4g}: logpdf(mean) = {c_obs!r}; N(mean,(prec*D^T D)^-1) on its range has "
                                 f"0.5*(r(log prec - log 2pi) + log pdet) = {const_ref!r} (rank {r_ref}, log pdet {lpd:.6g})")
        for x in pts:
            k, v = _val(ctx, "logpdf", dist.logpdf, x.copy(), cfg=cfg)
            if k is None:
                return
            got = _scalar(v)
            ref = R.gmrf_logpdf(x, loc, par, D)[0]
            ctx.count("mrf_value_checked")
            if const_ok:
                if not _close(got, ref):
                    ctx.violation("mrf_value_mismatch", cfg, detail=f"GMRF N={N}: logpdf {got!r}, documented {ref!r}")
            elif c_obs is not None and math.isfinite(c_obs):
                if not _close(got - c_obs, ref - const_ref):
                    ctx.violation("gmrf_quadratic_form", cfg, detail=f"GMRF N={N}: logpdf(x)-logpdf(mean) = {got - c_obs!r}; -prec/2 |D(x-mean)|^2 = {ref - const_ref!r}")
            k, lv = _val(ctx, "logd", dist.logd, x.copy(), cfg=cfg)
            if k is not None and got is not None and math.isfinite(got):
                offs.append(_scalar(lv) - got)
    else:
        reff = R.lmrf_logpdf if fam == "LMRF" else R.cmrf_logpdf
        percol = []
        for x in pts:
            k, v = _val(ctx, "logpdf", dist.logpdf, x.copy(), cfg=cfg)
            if k is None:
                return
            got, ref = _scalar(v), reff(x, loc, par, D)
            percol.append(got)
            ctx.count("mrf_value_checked")
            ok = _close(got, ref)
            if not ok:
                ctx.violation("mrf_value_mismatch", cfg, detail=f"{fam} N={N} scale={par:.4g}: logpdf {got!r}; documented density of D(x-location) {ref!r}")
            k, pv = _val(ctx, "pdf", dist.pdf, x.copy(), cfg=cfg)
            if k is not None and ok:
                ctx.count("pdf_vs_logpdf_checked")
                if not _close(_scalar(pv), math.exp(ref), rtol=1e-8, atol=1e-300):
                    ctx.violation("pdf_vs_logpdf", cfg, detail=f"{fam}: pdf {_scalar(pv)!r}, exp(logpdf) {math.exp(ref)!r}")
            k, lv = _val(ctx, "logd", dist.logd, x.copy(), cfg=cfg)
            if k is not None:
                offs.append(_scalar(lv) - got)
    if fam in ("LMRF", "CMRF") and all(g_ is not None for g_ in percol):
        # a (dim x k) matrix of columns (the Samples layout; these two classes reduce along axis 0 by construction): batch
        # evaluation is undocumented, so it must be refused or return exactly the k per-column values
        # k != dim: with k == dim a vector location broadcasts along the wrong axis (undocumented use, not judged)
        if n == len(pts):
            pts, percol = pts[:2], percol[:2]
        X = np.column_stack(pts)
        for via in ("logpdf", "logd", "pdf"):
            kk, bv = core.outcome(getattr(dist, via), X.copy(), refusal=core.REFUSAL_TYPES_BROAD)
            if kk == "refused":
                ctx.refused("batch " + via, bv); ctx.count("batch_refused")
                continue
            if kk == "crashed":
                ctx.violation("crash", {**cfg, "call": "batch " + via, "exc": type(bv).__name__}, detail=repr(bv))
                continue
            ctx.count("batch_value_checked")
            arr = np.asarray(bv, dtype=float)
            want = np.array(percol) if via != "pdf" else np.exp(np.array(percol))
            if arr.size != len(percol) or not np.allclose(arr.ravel(), want, rtol=1e-9, atol=1e-300):
                ctx.violation("batch_value_not_per_column", {**cfg, "via": via},
                              detail=f"{fam}.{via} on a ({n} x {len(percol)}) matrix of columns returned shape {arr.shape} "
                                     f"{np.ravel(arr)[:4].tolist()}; per-column values {want.tolist()} (neither refused nor per column)")
    if cond:
        x = pts[0]
        k, cv = _val(ctx, "logd(cond positional)", dist0.logd, cond["s_"], x.copy(), cfg=cfg)
        k2, lv = _val(ctx, "logd", dist.logd, x.copy(), cfg=cfg)
        if k is not None and k2 is not None:
            ctx.count("conditioned_value_checked")
            a_, b_ = _scalar(cv), _scalar(lv)
            if not (_close(a_, b_) or (a_ is not None and b_ is not None and math.isnan(a_) and math.isnan(b_))):
                ctx.violation("conditional_logd_mismatch", {**cfg, "via": "positional"}, detail=f"{a_!r} vs {b_!r}")
    if offs:
        ctx.count("logd_offset_checked", len(offs))
        if max(offs) - min(offs) > 1e-9 * max(1.0, abs(offs[0])):
            ctx.violation("logd_not_logpdf_plus_constant", cfg, detail=f"{offs}")
    ctx.nontrivial(f"{fam}/{bc}/{order}/{pd}")

# ----------------------------------------------------------------------------- user-defined

def _run_user(case, ctx, rs):
    import cuqi
    which = case["which"]
    cfg = {"kind": "user", "family": "UserDefinedDistribution" if which == "udd" else "DistributionGallery", "which": which}
    if which == "udd":
        d = int(rs.randint(1, 6))
        mu, sd = rs.uniform(-2, 2, d), _logu(rs, 0.3, 3.0, d)
        log = []
        def f(x):
            x = np.asarray(x, dtype=float).reshape(-1)
            log.append(x.copy())
            return float(np.sum(R.normal_logpdf1(x, mu, sd)))
        k, dist = _val(ctx, "construct", cuqi.distribution.UserDefinedDistribution, cfg=cfg, dim=d, logpdf_func=f, name="x")
        if k is None:
            return
        pts = [mu + sd * rs.uniform(-3, 3, d) for _ in range(4)]
    else:
        k, dist = _val(ctx, "construct", cuqi.distribution.DistributionGallery, which, cfg=cfg, name="x")
        if k is None:
            return
        f = None
        pts = [rs.uniform(-1.5, 1.5, 2) for _ in range(4)]
    offs = []
    for x in pts:
        k, v = _val(ctx, "logpdf", dist.logpdf, x.copy(), cfg=cfg)
        if k is None:
            return
        got = _scalar(v)
        if f is not None:
            ctx.count("logpdf_value_checked")
            if not _close(got, f(x), rtol=1e-12, atol=1e-12) or not np.array_equal(log[-2], x):
                ctx.violation("logpdf_value_mismatch", cfg, detail=f"user logpdf_func gives {f(x)!r} at {x.tolist()}, distribution returns {got!r} (called at {log[-2].tolist()})")
        elif which == "BivariateGaussian":
            sg = np.diag(np.linspace(0.5, 1, 2)); Sg = sg @ np.array([[1.0, 0.9], [0.9, 1.0]]) @ sg
            ctx.count("logpdf_value_checked")
            if not _close(got, R.gaussian_logpdf(x, np.zeros(2), cov=Sg)):
                ctx.violation("logpdf_value_mismatch", cfg, detail=f"gallery BivariateGaussian logpdf {got!r}")
        k, pv = _val(ctx, "pdf", dist.pdf, x.copy(), cfg=cfg)
        if k is not None:
            ctx.count("pdf_vs_logpdf_checked")
            if not _close(_scalar(pv), math.exp(got), rtol=1e-10, atol=1e-300):
                ctx.violation("pdf_vs_logpdf", cfg, detail=f"pdf {_scalar(pv)!r}, exp(logpdf) {math.exp(got)!r}")
        k, lv = _val(ctx, "logd", dist.logd, x.copy(), cfg=cfg)
        if k is not None:
            offs.append(_scalar(lv) - got)
    if offs:
        ctx.count("logd_offset_checked", len(offs))
        if max(offs) - min(offs) > 1e-9 * max(1.0, abs(offs[0])):
            ctx.violation("logd_not_logpdf_plus_constant", cfg, detail=f"{offs}")
    ctx.nontrivial(f"user/{which}")

# ----------------------------------------------------------------------------- same distribution on both sides of the threshold

EMBED_DIMS = (5, 6, 40, 74, 75, 76, 77, 120)

def _run_embed(case, ctx, rs):
    """Convention-independent: Gaussian(param = blockdiag(M, c*I_k)) is the product of Gaussian(param = M) and k
    independent N(m_i, v(c)) coordinates, whatever the total dimension (dense or sparse internal storage)."""
    import cuqi
    param, kind = case["param"], case["sqrt_kind"]
    k0 = 5
    A = _spd(rs, k0, "full")
    M = A if kind == "-" else _sqrt_kinds(A, rs)[kind]
    c = float(_logu(rs, 0.5, 2.0))
    var_tail = {"cov": c, "prec": 1 / c, "sqrtcov": c * c, "sqrtprec": 1 / (c * c)}[param]
    mu0 = rs.uniform(-1, 1, k0)
    base_cfg = {"kind": "embed", "family": "Gaussian", "param": param, "sqrt_kind": kind}
    k, small = _val(ctx, "construct", cuqi.distribution.Gaussian, mu0.copy(), cfg=base_cfg, name="x", **{param: M.copy()})
    if k is None:
        return
    xs = [mu0 + rs.uniform(-1.5, 1.5, k0) for _ in range(3)]
    small_vals = []
    for x in xs:
        k, v = _val(ctx, "logpdf", small.logpdf, x.copy(), cfg=base_cfg)
        if k is None:
            return
        small_vals.append(_scalar(v))
    for dtot in EMBED_DIMS[1:]:
        kk = dtot - k0
        side = "sparse" if dtot > cuqi.config.MIN_DIM_SPARSE else "dense"
        cfg = {**base_cfg, "side": side}
        big = np.zeros((dtot, dtot)); big[:k0, :k0] = M; big[k0:, k0:] = c * np.eye(kk)
        mut = rs.uniform(-1, 1, kk)
        k, g = _val(ctx, "construct", cuqi.distribution.Gaussian, np.concatenate([mu0, mut]), cfg=cfg, name="x", **{param: big})
        if k is None:
            continue
        for x, sv in zip(xs, small_vals):
            y = mut + math.sqrt(var_tail) * rs.uniform(-2, 2, kk)
            k, v = _val(ctx, "logpdf", g.logpdf, np.concatenate([x, y]), cfg=cfg)
            if k is None:
                break
            expect = sv + float(np.sum(R.normal_logpdf1(y, mut, math.sqrt(var_tail))))
            ctx.count("threshold_embedding_checked")
            if not _close(_scalar(v), expect):
                ctx.violation("gaussian_differs_across_dimension", cfg,
                              detail=f"{param}=blockdiag(M,{c:.3g}*I) ({kind}) at dim {dtot} ({side} storage): logpdf {_scalar(v)!r}; the dim-{k0} "
                                     f"object with {param}=M times the independent tail gives {expect!r} - not one and the same distribution")
                break
    ctx.nontrivial(f"embed/{param}/{kind}")

# ----------------------------------------------------------------------------- extreme scales

def _run_gscale(case, ctx, rs):
    """Sigma = s*Sigma0 (s = 10^k, strong correlations). Reference in log space from Sigma0:
    logpdf(mean) = -0.5*(d log 2pi + log det Sigma0 + d log s);  logpdf(x) - logpdf(mean) = -(x-m)^T Sigma0^-1 (x-m) / (2 s)."""
    import cuqi
    import scipy.sparse as sp
    d, k10, struct = case["dim"], case["log10_scale"], case["struct"]
    s = 10.0 ** k10
    side = "sparse" if d > cuqi.config.MIN_DIM_SPARSE else "dense"
    std = rs.uniform(0.5, 2.0, d)
    if struct == "full":
        rho = float(rs.uniform(0.4, 0.8))
        S0 = np.outer(std, std) * ((1 - rho) * np.eye(d) + rho * np.ones((d, d)))
    else:
        S0 = np.diag(std ** 2)
    P0 = np.linalg.inv(S0); P0 = (P0 + P0.T) / 2
    ld0 = float(np.linalg.slogdet(S0)[1])
    mu = rs.uniform(-1, 1, d) if case["rep"] % 2 == 0 else np.zeros(d)
    L0 = np.linalg.cholesky(S0)
    xs = [mu + math.sqrt(s) * (L0 @ rs.standard_normal(d)) for _ in range(2)]
    const_ref = -0.5 * (d * R.LOG2PI + ld0 + d * math.log(s))
    rs_, rp_ = math.sqrt(s), 1.0 / math.sqrt(s)
    E = []
    if struct == "full":
        Ssq, Psq, Up = _sym_sqrt(S0), _sym_sqrt(P0), np.linalg.cholesky(P0).T
        for param, M in (("cov", s * S0), ("prec", P0 / s), ("sqrtcov", rs_ * Ssq), ("sqrtprec", rp_ * Psq)):
            E.append((param, "dense", "sym" if param.startswith("sqrt") else "-", M, False))
            E.append((param, "list2d", "sym" if param.startswith("sqrt") else "-", M.tolist(), False))
            E.append((param, "sp_csr_full", "sym" if param.startswith("sqrt") else "-", sp.csr_matrix(M), True))
        E.append(("sqrtprec", "dense", "upper", rp_ * Up, False))
    else:
        v = std ** 2
        for param, vec in (("cov", s * v), ("prec", 1 / (s * v)), ("sqrtcov", rs_ * std), ("sqrtprec", rp_ / std)):
            E.append((param, "vector", "-", vec.copy(), False))
            E.append((param, "diag_dense", "-", np.diag(vec), False))
            E.append((param, "sp_csr_diag", "-", sp.diags(vec, format="csr"), False))
            E.append((param, "sp_dia_diag", "-", sp.diags(vec), False))
    for param, storage, kind, value, may in E:
        cfg = {"kind": "gscale", "family": "Gaussian", "param": param, "storage": storage, "sqrt_kind": kind, "struct": struct,
               "side": side, "log10_scale": k10}
        k, g = _val(ctx, "construct", cuqi.distribution.Gaussian, mu.copy(), may_refuse=may, cfg=cfg, name="x", **{param: value})
        if k is None:
            continue
        k, v = _val(ctx, "logpdf", g.logpdf, mu.copy(), may_refuse=may, cfg=cfg)
        if k is None:
            continue
        c_obs = _scalar(v)
        ctx.count("scaled_constant_checked")
        ctx.nontrivial(f"gscale/{param}/{storage}/{side}")
        if not _close(c_obs, const_ref, rtol=1e-9, atol=1e-8):
            mech = "gaussian_scaled_constant_mismatch"
            if side == "dense" and struct == "full" and storage in ("dense", "list2d"):
                # hypothesis of a known defect: the dense branch takes log(det(M)) - det under/overflows although log det is moderate
                M = np.asarray(value, dtype=float)
                with np.errstate(all="ignore"):
                    A = M if param in ("cov", "prec") else M @ M.T
                    ldh = float(np.log(np.linalg.det(A)))
                    ldh = ldh if param in ("cov", "sqrtcov") else -ldh
                hyp = -0.5 * (d * R.LOG2PI + ldh)
                if (c_obs is not None) and (_close(c_obs, hyp, rtol=1e-9, atol=1e-8) or (math.isnan(c_obs) and math.isnan(hyp))):
                    mech = "gaussian_dense_logdet_via_det_overflows"
            ctx.violation(mech, cfg, detail=f"dim={d} Sigma=1e{k10}*Sigma0 ({param}/{storage}): logpdf(mean) = {c_obs!r}; "
                                            f"-0.5*(d log 2pi + log det Sigma) = {const_ref!r}")
        if c_obs is None or not math.isfinite(c_obs):
            continue
        for x in xs:
            dev = x - mu                                   # the representable deviation (what the library sees)
            qref = -0.5 * float(dev @ P0 @ dev) / s
            k, v = _val(ctx, "logpdf", g.logpdf, x.copy(), cfg=cfg)
            if k is None:
                break
            ctx.count("scaled_quadratic_checked")
            got = _scalar(v) - c_obs
            if not (abs(got - qref) <= 1e-6 * max(1.0, abs(qref)) + 1e-10 * abs(c_obs)):   # second term: cancellation against the constant
                ctx.violation("gaussian_scaled_quadratic_mismatch", cfg,
                              detail=f"dim={d} Sigma=1e{k10}*Sigma0 ({param}/{storage}): logpdf(x)-logpdf(mean) = {got!r}; "
                                     f"-(x-m)^T Sigma^-1 (x-m)/2 = {qref!r}")
                break
        if d <= 30 and not storage.startswith("sp_"):
            k, C = _val(ctx, "compute_cov", g.compute_cov, cfg=cfg)
            if k is not None:
                C = np.asarray(C, dtype=float)
                ctx.count("compute_cov_checked")
                if C.shape != (d, d) or not np.allclose(C / s, S0, rtol=0, atol=1e-6 * float(np.max(S0))):
                    ctx.violation("compute_cov_differs_from_density", cfg, detail=f"dim={d} Sigma=1e{k10}*Sigma0: compute_cov()/s differs from Sigma0")

# ----------------------------------------------------------------------------- exactly on the edge of the support

def _run_boundary(case, ctx, rs):
    """One coordinate exactly on the closed/open edge of the support (or on the kink / location); value = the documented
    expression evaluated there (its limit), pdf = exp(logpdf), cdf = integral up to the edge."""
    import cuqi
    fam, cls, edge, d = case["family"], case["cls"], case["edge"], case["dim"]
    cfg = {"kind": "boundary", "family": fam, "cls": cls, "edge": edge, "dim_gt1": d > 1}
    i = int(rs.randint(d))
    clsval = {"lt1": float(rs.uniform(0.3, 0.9)), "eq1": 1.0, "gt1": float(rs.uniform(1.2, 5.0)), "-": None}[cls]
    if fam == "Lognormal":
        mu = rs.uniform(-1, 1, d); v = _logu(rs, 0.2, 2.0, d)
        k, dist = _val(ctx, "construct", cuqi.distribution.Lognormal, float(mu[0]) if d == 1 else mu.copy(),
                       float(v[0]) if d == 1 else v.copy(), cfg=cfg, name="x")
        if k is None:
            return
        x = np.exp(mu + np.sqrt(v) * rs.uniform(-1, 1, d)); x[i] = 0.0
        ref = -np.inf
        judge, P = True, None
    else:
        roles = _roles(fam, "scalar1" if d == 1 else "array")
        P = _draw_params(fam, roles, d, rs)
        if clsval is not None:
            pname = {"Gamma": "shape", "InverseGamma": "shape", "Beta": "alpha" if edge == "lower" else "beta"}[fam]
            P[pname] = P[pname].copy(); P[pname][i] = clsval
        arg = lambda p: (float(P[p][0]) if (roles[p] == "s" or d == 1) else P[p].copy())
        k, dist = _val(ctx, "construct", getattr(cuqi.distribution, fam), cfg=cfg, name="x", **{p: arg(p) for p in R.UNI[fam]["params"]})
        if k is None:
            return
        lo, hi = _support(fam, P)
        x = _interior(fam, P, d, rs)
        x[i] = lo[i] if edge == "lower" else (hi[i] if edge == "upper" else _centre(fam, P)[i])
        ref = R.indep_logpdf(fam, x, P)
        # Beta: the class states no support and the implementation is open at both ends; where the documented expression
        # has a non-zero limit at the edge (alpha<=1 at 0, beta<=1 at 1) the value on that null set is not judged.
        judge = not (fam == "Beta" and cls in ("lt1", "eq1"))
    for as_float in ((True, False) if d == 1 else (False,)):
        xin = float(x[0]) if as_float else x.copy()
        k, v = _val(ctx, "logpdf", dist.logpdf, xin, cfg=cfg)
        if k is None:
            return
        got = _scalar(v)
        if judge:
            ctx.count("boundary_value_checked")
            if not _close(got, ref):
                ctx.violation("density_value_at_support_boundary", cfg,
                              detail=f"{fam} ({cls}, {edge} edge, dim {d}): logpdf({x.tolist()}) = {got!r}; documented density there {ref!r}"
                                     + (f"; params { {k_: v_.tolist() for k_, v_ in P.items()} }" if P else ""))
        else:
            ctx.count("boundary_value_not_judged")
        k, pv = _val(ctx, "pdf", dist.pdf, xin, cfg=cfg)
        if k is not None and got is not None and not math.isnan(got):
            ctx.count("pdf_vs_logpdf_checked")
            e = math.inf if got == math.inf else math.exp(got)
            if not _close(_scalar(pv), e, rtol=1e-9, atol=1e-300):
                ctx.violation("pdf_vs_logpdf", cfg, detail=f"at the edge: pdf={_scalar(pv)!r} exp(logpdf)={e!r}")
    if fam in HAS_CDF:
        k, v = _val(ctx, "cdf", dist.cdf, x.copy(), cfg=cfg)
        if k is not None:
            _judge_cdf(ctx, fam, cfg, x, _scalar(v), P)
    ctx.nontrivial(f"boundary/{fam}/{cls}/{edge}")

# ----------------------------------------------------------------------------- re-assignment histories

def _sequences(names):
    import itertools
    out = []
    for r in range(1, len(names) + 1):
        out += list(itertools.permutations(names, r))
    return out

def _run_reassign(case, ctx, rs):
    """Build with parameters P0, optionally evaluate once (fills caches), re-assign a sequence of parameters to their P1
    values, then the FIRST access through logpdf / pdf / cdf must be the density of the current parameters."""
    import cuqi
    fam, form = case["family"], case["form"]
    D = cuqi.distribution
    d = 1 if form == "scalar1" else 3
    cfg0 = {"kind": "reassign", "family": fam, "form": form}
    if fam in UNI_FAMS:
        roles = _roles(fam, "scalar1" if d == 1 else "array")
        names = list(R.UNI[fam]["params"])
        P0, P1 = _draw_params(fam, roles, d, rs), _draw_params(fam, roles, d, rs)
        if fam == "Uniform":      # every mixture of old/new bounds must stay ordered
            for P in (P0, P1):
                P["low"] = rs.uniform(-3, 0, d) if roles["low"] == "v" else np.full(d, rs.uniform(-3, 0))
                P["high"] = rs.uniform(1, 5, d) if roles["high"] == "v" else np.full(d, rs.uniform(1, 5))
        arg = lambda p, P: (float(P[p][0]) if (roles[p] == "s" or d == 1) else P[p].copy())
        build = lambda: getattr(D, fam)(**{p: arg(p, P0) for p in names}, name="x", **({"geometry": d} if d > 1 and all(r == "s" for r in roles.values()) else {}))
        point = lambda P: _interior(fam, P, d, rs)
        ref_logpdf = lambda x, P: R.indep_logpdf(fam, x, P)
        methods = ("logpdf", "pdf") + (("cdf",) if fam in HAS_CDF else ())
    elif fam == "Lognormal":
        names = ["mean", "cov"]
        def draw():
            mu = rs.uniform(-1, 1, d)
            if d == 1 or case["rep"] % 3 == 0:
                v = float(_logu(rs, 0.2, 2.0)); return {"mean": mu, "cov": v, "_S": v * np.eye(d)}
            if case["rep"] % 3 == 1:
                v = _logu(rs, 0.2, 2.0, d); return {"mean": mu, "cov": v, "_S": np.diag(v)}
            Sg = _spd(rs, d, "full") * 0.4; return {"mean": mu, "cov": Sg, "_S": Sg}
        P0, P1 = draw(), draw()
        arg = lambda p, P: (float(P[p][0]) if (p == "mean" and d == 1) else (P[p].copy() if isinstance(P[p], np.ndarray) else P[p]))
        build = lambda: D.Lognormal(arg("mean", P0), arg("cov", P0), name="x")
        point = lambda P: np.exp(P["mean"] + np.sqrt(np.diag(P["_S"])) * rs.uniform(-1.5, 1.5, d))
        ref_logpdf = lambda x, P: R.lognormal_logpdf(x, P["mean"], P["_S"])
        methods = ("logpdf", "pdf")
    elif fam == "Gaussian":
        gp = ("cov", "prec", "sqrtcov", "sqrtprec")[case["rep"] % 4]
        names = ["mean", gp]
        def draw():
            mu = rs.uniform(-1, 1, d)
            if d == 1:
                v = float(_logu(rs, 0.3, 3.0)); Sg = v * np.eye(1)
            else:
                Sg = _spd(rs, d, "full" if case["rep"] % 2 else "diag")
            Pm = np.linalg.inv(Sg)
            Mv = {"cov": Sg, "prec": Pm, "sqrtcov": _sym_sqrt(Sg), "sqrtprec": _sym_sqrt(Pm)}[gp]
            if d == 1:
                Mv = float(Mv[0, 0])
            elif case["rep"] % 2 == 0:
                Mv = np.diag(Mv).copy()          # vector storage
            return {"mean": mu, gp: Mv, "_S": Sg}
        P0, P1 = draw(), draw()
        arg = lambda p, P: (float(P[p][0]) if (p == "mean" and d == 1) else (P[p].copy() if isinstance(P[p], np.ndarray) else P[p]))
        build = lambda: D.Gaussian(arg("mean", P0), name="x", **{gp: arg(gp, P0)})
        point = lambda P: P["mean"] + np.sqrt(np.diag(P["_S"])) * rs.uniform(-2, 2, d)
        ref_logpdf = lambda x, P: R.gaussian_logpdf(x, P["mean"], cov=P["_S"])
        methods = ("logpdf", "pdf")
    else:   # MRF priors on a regular structure (zero bc, order 1: no known finding in the way)
        N = 6; d = N
        pd_ = 1 + case["rep"] % 2
        n = N ** pd_; d = n
        geom = cuqi.geometry.Continuous1D(N) if pd_ == 1 else cuqi.geometry.Image2D((N, N))
        Dm = S.diff_op(N, "zero", 1, pd_)
        locname, parname = ("mean", "prec") if fam == "GMRF" else ("location", "scale")
        names = [locname, parname]
        def draw():
            loc = np.full(n, float(rs.uniform(-1, 1))) if form == "scalar_loc" else rs.standard_normal(n)
            return {locname: loc, parname: float(_logu(rs, 0.2, 8.0))}
        P0, P1 = draw(), draw()
        arg = lambda p, P: (P[p] if p == parname else (float(P[p][0]) if form == "scalar_loc" else P[p].copy()))
        build = lambda: getattr(D, fam)(arg(locname, P0), arg(parname, P0), bc_type="zero", geometry=geom, name="x")
        sp_ = lambda P: (1 / math.sqrt(P[parname]) if fam == "GMRF" else P[parname])
        point = lambda P: P[locname] + rs.standard_normal(n) * sp_(P)
        if fam == "GMRF":
            ref_logpdf = lambda x, P: R.gmrf_logpdf(x, P[locname], P[parname], Dm)[0]
        elif fam == "LMRF":
            ref_logpdf = lambda x, P: R.lmrf_logpdf(x, P[locname], P[parname], Dm)
        else:
            ref_logpdf = lambda x, P: R.cmrf_logpdf(x, P[locname], P[parname], Dm)
        methods = ("logpdf", "pdf")
    for seq in _sequences(names):
        Pm = dict(P0)
        for p in seq:
            Pm[p] = P1[p]
        if "_S" in P0:
            Pm["_S"] = P1["_S"] if names[1] in seq else P0["_S"]
        for touched in (False, True):
            for via in methods:
                cfg = {**cfg0, "seq": ">".join(seq), "touched": touched, "via": via}
                k, obj = _val(ctx, "construct", build, cfg=cfg0)
                if k is None:
                    return
                if touched:
                    k, _ = _val(ctx, "logpdf", obj.logpdf, point(P0), cfg=cfg)
                    if k is None:
                        return
                bad = False
                for p in seq:
                    k, _ = _val(ctx, "reassign", setattr, obj, p, arg(p, P1), cfg=cfg)
                    bad = bad or k is None
                if bad:
                    continue
                x = point(Pm)
                xin = float(x[0]) if d == 1 else x.copy()
                k, v = _val(ctx, via, getattr(obj, via), xin, cfg=cfg)
                if k is None:
                    continue
                got = _scalar(v)
                ctx.count("reassign_history_checked")
                if via == "cdf":
                    refc = R.indep_cdf(fam, x, Pm)
                    okv = got is not None and abs(got - refc) <= 1e-9 + 1e-8 * abs(refc)
                    if not okv and fam == "Cauchy" and d > 1 and abs(got - float(np.sum(R.cauchy_cdf1(x, Pm["location"], Pm["scale"])))) <= 1e-9:
                        okv = True      # the known sum-instead-of-product finding is reported by the 'uni' cases
                    refv = refc
                else:
                    refv = ref_logpdf(x, Pm)
                    refv = math.exp(refv) if via == "pdf" else refv
                    okv = _close(got, refv, rtol=1e-7, atol=1e-300 if via == "pdf" else ATOL)
                if not okv:
                    stale = None
                    if via != "cdf":
                        old = ref_logpdf(x, P0); old = math.exp(old) if via == "pdf" else old
                        stale = _close(got, old, rtol=1e-7, atol=1e-300 if via == "pdf" else ATOL)
                    ctx.violation("stale_after_reassign", cfg,
                                  detail=f"{fam} ({form}): after re-assigning {' then '.join(seq)}{' (evaluated once before)' if touched else ''} the first "
                                         f"{via} gives {got!r}; density of the current parameters {refv!r}"
                                         + ("; equals the value for the OLD parameters" if stale else ""))
    ctx.nontrivial(f"reassign/{fam}/{form}")

# ----------------------------------------------------------------------------- entry points

def run_case(case, ctx):
    rs = core.np_rng(ctx.seed, PROPERTY, core.canon(case))
    kind = case["kind"]
    with np.errstate(all="ignore"):
        if kind in ("uni", "uni2d"):
            _run_uni(case, ctx, rs)
        elif kind == "gauss":
            _run_gauss(case, ctx, rs)
        elif kind == "lognormal":
            _run_lognormal(case, ctx, rs)
        elif kind == "mhn":
            _run_mhn(case, ctx, rs)
        elif kind == "mrf":
            _run_mrf(case, ctx, rs)
        elif kind == "user":
            _run_user(case, ctx, rs)
        elif kind == "embed":
            _run_embed(case, ctx, rs)
        elif kind == "gscale":
            _run_gscale(case, ctx, rs)
        elif kind == "boundary":
            _run_boundary(case, ctx, rs)
        elif kind == "reassign":
            _run_reassign(case, ctx, rs)
        else:
            raise ValueError(kind)

def selftest(ctx):
    """Reference closed forms against scipy.stats (only here), quadrature and numpy."""
    import scipy.stats as st
    from scipy.integrate import quad
    rs = np.random.RandomState(12345)
    for _ in range(6):
        x = rs.uniform(0.05, 0.95, 3)
        m, s = rs.uniform(-2, 2, 3), _logu(rs, 0.2, 5, 3)
        a, b = _logu(rs, 0.5, 8, 3), _logu(rs, 0.5, 8, 3)
        pairs = [
            (R.normal_logpdf1(x, m, s), st.norm.logpdf(x, m, s)), (R.normal_cdf1(x, m, s), st.norm.cdf(x, m, s)),
            (R.laplace_logpdf1(x, m, s), st.laplace.logpdf(x, m, s)),
            (R.cauchy_logpdf1(x, m, s), st.cauchy.logpdf(x, m, s)), (R.cauchy_cdf1(x, m, s), st.cauchy.cdf(x, m, s)),
            (R.gamma_logpdf1(x, a, b), st.gamma.logpdf(x, a, scale=1 / b)), (R.gamma_cdf1(x, a, b), st.gamma.cdf(x, a, scale=1 / b)),
            (R.invgamma_logpdf1(x + 3, a, m, s), st.invgamma.logpdf(x + 3, a, loc=m, scale=s)),
            (R.invgamma_cdf1(x + 3, a, m, s), st.invgamma.cdf(x + 3, a, loc=m, scale=s)),
            (R.beta_logpdf1(x, a, b), st.beta.logpdf(x, a, b)), (R.beta_cdf1(x, a, b), st.beta.cdf(x, a, b)),
            (R.uniform_logpdf1(m + x * s, m, m + s), st.uniform.logpdf(m + x * s, m, s)),
        ]
        for i, (mine, theirs) in enumerate(pairs):
            if not np.allclose(mine, theirs, rtol=1e-10, atol=1e-12):
                ctx.inconclusive(f"reference formula {i} disagrees with scipy.stats: {mine} vs {theirs}")
        d = 4
        A = rs.standard_normal((d, d)); Sg = A @ A.T + np.eye(d); mu = rs.standard_normal(d); xx = rs.standard_normal(d)
        if abs(R.gaussian_logpdf(xx, mu, cov=Sg) - st.multivariate_normal.logpdf(xx, mu, Sg)) > 1e-9 or \
                abs(R.gaussian_logpdf(xx, mu, prec=np.linalg.inv(Sg)) - st.multivariate_normal.logpdf(xx, mu, Sg)) > 1e-9:
            ctx.inconclusive("reference Gaussian disagrees with scipy.stats.multivariate_normal")
        ks = _sqrt_kinds(Sg, rs)
        for kname, Rm in ks.items():
            if not np.allclose(Rm.T @ Rm, Sg, atol=1e-10):
                ctx.inconclusive(f"square-root generator '{kname}' does not satisfy R^T R = M")
        if not (np.allclose(ks["upper"], np.triu(ks["upper"])) and np.allclose(ks["lower"], np.tril(ks["lower"]))
                and not np.allclose(ks["nonsym"], ks["nonsym"].T)):
            ctx.inconclusive("square-root generator: triangular / non-symmetric kinds are not what they claim")
        xl = np.exp(xx)
        ref = st.multivariate_normal.logpdf(xx, mu, Sg) - np.sum(xx)
        if abs(R.lognormal_logpdf(xl, mu, Sg) - ref) > 1e-9:
            ctx.inconclusive("reference lognormal wrong")
    b_, be_ = 0.7, 0.05
    val, _ = quad(lambda t: math.exp(float(R.smoothed_laplace_logpdf1(t, 0.3, b_, be_))), -np.inf, np.inf)
    if abs(val - R.smoothed_laplace_mass(b_, be_)) > 1e-8:
        ctx.inconclusive("smoothed-Laplace mass formula disagrees with quadrature")
    for N, bc, order in ((5, "zero", 1), (6, "neumann", 1), (6, "periodic", 2)):
        D = S.diff_op(N, bc, order, 1)
        x = rs.standard_normal(N); mu = rs.standard_normal(N)
        val, const, r, lpd = R.gmrf_logpdf(x, mu, 2.5, D)
        if bc == "zero":
            if abs(val - st.multivariate_normal.logpdf(x, mu, np.linalg.inv(2.5 * D.T @ D))) > 1e-8:
                ctx.inconclusive("reference GMRF disagrees with scipy for a regular precision")
        elif r != N - 1:
            ctx.inconclusive("reference GMRF rank wrong")
