"""C03 - every gradient equals the derivative of the same object's log-density, or is refused.

Workload (W): every distribution family x parameter form (scalar / 1-element array / vector /
diagonal matrix / full matrix / sparse), zero and non-zero location, every Gaussian
parameterisation, every GMRF/CMRF/LMRF boundary condition, order and physical dimension,
points inside / near the edge / on the edge / outside the support; likelihoods, posteriors and
multiple-likelihood posteriors over matrix, function+adjoint, Jacobian, direction-Jacobian and
PDE (Poisson, Heat) models; domain geometries identity-like, Image2D, mapped with a user
`gradient`, a user geometry class with its own `gradient`, mapped without one, KL and Step
expansions (must refuse); the finite-difference option switched on with several epsilons and
off again; DistributionGallery targets; shipped test problems; gradient calls made internally
by NUTS/MALA/ULA.  A magnitude axis multiplies every matrix / scale parameter (Gaussian 4 parameterisations x
full/banded/sparse/vector/scalar, GMRF precision, Lognormal covariance, Cauchy/CMRF/SmoothedLaplace/InverseGamma/Uniform
scales, likelihood noise, priors inside posteriors, model amplitude) by 10^k, k in -16..12, with locations, data and
evaluation points generated on the matching scale.  A 'large and ill-conditioned' class: Gaussians of dimension 76..120
(above cuqi.config.MIN_DIM_SPARSE) and small ones with that threshold lowered at run time (restored afterwards), all four
parameterisations x dense / sparse / diagonal / vector, spectra with condition numbers 1e2..1e14 and numerically low-rank
ones, as prior, as noise model of a Likelihood / Posterior over a LinearModel and as prior inside a Posterior; judged
coordinate-wise and along eigen- and random directions against the object's own logd with a tolerance that grants
1e5*eps*cond (never more than 50 %; observed on the unchanged tree: <= 0.2 % at cond 1e10 and <= 0.4 % at cond 1e12, from the asymmetry of inv(cov) in the small dense branch) of the gradient norm.  A 'degenerate shapes' class: models with one parameter and several
outputs, several parameters and one output, 1x1, whose Jacobian / direction-Jacobian product comes back as 2-D array,
flattened 1-D array or (nested) lists.

Monitors (M): a runtime contract (vlib.contracts.ensure) on `Density.gradient` and on the
classes that override `gradient` (Cauchy, Uniform, SmoothedLaplace,
MultipleLikelihoodPosterior), re-entrant, so that *every* gradient call made anywhere in the
workload - also those the library makes internally (Posterior -> Likelihood -> conditional
distribution -> prior; samplers) - is observed with its arguments and its return value.

Oracle (O): the returned vector against an error-estimated Richardson central difference
(vlib/refs/c03_fd.py, no cuqi import) of the **same object's** `logd` in the evaluated variable;
size = number of parameters; outside the support (own logd = -inf) at least one non-finite entry;
`None` instead of an exception is a violation; an exception of a documented type is a refusal.
With the finite-difference option on, the returned vector must be the derivative of the same
logd within the truncation/round-off error of a forward difference of the configured epsilon.
"""
import contextlib
import numpy as np
from vlib import core, contracts
from vlib.refs import c03_fd as FD
from vlib.refs import c03_pde as RP

PROPERTY = "C03"
RULE = ("discrete axes (family, parameterisation, parameter form, location kind, boundary condition, order, physical "
        "dimension, model kind, domain/range geometry kind, prior family, PDE kind, FD epsilon) are enumerated, continuous "
        "ones (sizes, values, points) sampled per seed; a case is non-trivial when at least one returned gradient was "
        "compared component-wise against the error-estimated numerical derivative of the same object's logd (or a "
        "non-finite gradient was confirmed where that logd is -inf, or a must-refuse configuration refused); "
        "distinct = distinct descriptors, sub-cases = (class judged, mode, nested) combinations")
ASSUMPTIONS = ["the log-density returned by logd is taken as given (C04 judges it); only its derivative is compared",
               "a gradient whose size equals the number of parameters is compared after flattening (a (1,n) or (n,1) "
               "layout is counted, not judged); a different size is a violation",
               "outside the support 'non-finite' is read as 'not a finite vector' (at least one NaN/inf entry)",
               "with the FD option on, a raised exception is a violation only when the object's own logd is a finite scalar at x "
               "and at every x+eps*e_i (then the documented forward difference exists and has to be returned)"]
REQUIRED_COUNTERS = {
    "quick": {"gradient_compared": 6000, "components_compared": 30000, "chain_rule_compared": 2000, "fd_option_compared": 1400,
              "outside_support_checked": 230, "must_refuse_refused": 1100, "nested_calls_judged": 2800, "sampler_internal_calls_judged": 400,
              "scaled_problem_calls": 150, "illcond_compared": 2800, "directional_derivatives_compared": 1000,
              "degenerate_shape_compared": 1100},
    "thorough": {"gradient_compared": 60000, "components_compared": 300000, "chain_rule_compared": 20000, "fd_option_compared": 14000,
                 "outside_support_checked": 2300, "must_refuse_refused": 11000, "nested_calls_judged": 28000,
                 "sampler_internal_calls_judged": 4000, "scaled_problem_calls": 700,
                 "illcond_compared": 7000, "directional_derivatives_compared": 2500, "degenerate_shape_compared": 5000},
}
BUDGET_S = {"quick": 240.0, "thorough": 2400.0}

# ------------------------------------------------------------------------------------------------
# the oracle
# ------------------------------------------------------------------------------------------------

RTOL_COMP = 1e-6      # relative to the component
RTOL_VEC = 1e-8       # relative to the largest component of the vector
ERR_FACTOR = 100.0    # times the reference's own error estimate
POOR_REF = 1e-4       # reference component unusable when its error estimate exceeds this (relative)


def _as_point(x):
    """Evaluation point as 1-D float array, or None when it is not a single parameter vector."""
    try:
        import cuqi
        if isinstance(x, cuqi.array.CUQIarray) and not x.is_par:
            return None
        a = np.array(x, dtype=float)
    except Exception:  # noqa
        return None
    if a.ndim == 0:
        return a.reshape(1)
    if a.ndim == 1:
        return a
    return None


def _overrides_gradient(obj):
    from cuqi.density import Density
    for c in type(obj).__mro__:
        if c is Density:
            return False
        if "gradient" in c.__dict__:
            return True
    return False


def _variable_and_logd(obj, args, kwargs):
    """(x, f, why): the evaluated variable and z -> logd of the *same object* with that variable set to z."""
    import cuqi
    cond = []
    if isinstance(obj, cuqi.distribution.Distribution):
        try:
            cond = list(obj.get_conditioning_variables())
        except Exception:  # noqa
            cond = []
    if cond:
        # conditional distribution: gradient(main_value, cond_value) differentiates w.r.t. the conditioning variable
        if len(cond) == 1 and len(args) == 2 and not kwargs:
            val, x = args
            return x, (lambda z: obj(**{cond[0]: z}).logd(val)), None
        if len(cond) == 1 and len(args) == 1 and list(kwargs) == cond:
            val, x = args[0], kwargs[cond[0]]
            return x, (lambda z: obj(**{cond[0]: z}).logd(val)), None
        return None, None, "conditional call form not modelled"
    if len(args) == 1 and not kwargs:
        return args[0], (lambda z: obj.logd(z)), None
    if not args and len(kwargs) == 1:
        k = next(iter(kwargs))
        return kwargs[k], (lambda z: obj.logd(**{k: z})), None
    return None, None, "call form not modelled"


def judge_call(obj, args, kwargs, result, expect_outside=False, twin_logd=None, cond_allow=0.0):
    """Judge one observed gradient call. Returns an event dict with `status` in
    ok | mismatch | size | none | not_array | outside_ok | outside_finite | unjudged."""
    ev = {"cls": type(obj).__name__, "mode": "analytic", "status": "unjudged", "why": "", "detail": "", "ncomp": 0}
    fd_on = bool(getattr(obj, "FD_enabled", False))
    if fd_on:
        # FD option on: the result must be the forward quotient of the same logd or the derivative within the
        # modelled forward-difference error (an analytic override that is exact passes the second test as well)
        ev["mode"] = "fd"
    if result is None:
        ev.update(status="none", detail="gradient returned None instead of raising")
        return ev
    try:
        g = np.asarray(result.toarray() if hasattr(result, "toarray") else result, dtype=float)
    except Exception as e:  # noqa
        ev.update(status="not_array", detail=f"gradient returned {type(result).__name__}: {core.short(repr(result), 120)} ({e})")
        return ev
    xraw, f, why = _variable_and_logd(obj, args, kwargs)
    if f is None:
        ev["why"] = why
        return ev
    x = _as_point(xraw)
    if x is None:
        ev["why"] = "batch or function-value input"
        return ev
    fscalar = lambda z: FD._scalar(f(z))
    ev["ref"] = "own_logd"
    try:
        f0 = fscalar(x.copy())
    except Exception as e:  # noqa
        if twin_logd is None or len(args) != 1 or kwargs:
            ev["why"] = f"logd unavailable: {type(e).__name__}"
            return ev
        fscalar = lambda z: FD._scalar(twin_logd(z))
        f0 = fscalar(x.copy())
        ev["ref"] = "dense_twin_logd"
    if g.size != x.size:
        ev.update(status="size", detail=f"gradient has shape {g.shape} for a parameter vector of length {x.size}")
        return ev
    ev["layout"] = "flat" if g.shape == x.shape or (x.size == 1 and g.ndim <= 1) else "reshaped"
    g = g.reshape(-1)
    if not np.isfinite(f0):
        if not np.all(np.isfinite(g)):
            ev.update(status="outside_ok")
        elif f0 == -np.inf and expect_outside:
            ev.update(status="outside_finite", detail=f"logd={f0} at x={x.tolist()} (outside the support) but gradient is the finite vector {g.tolist()}")
        else:
            ev["why"] = f"logd is {f0} at a point not declared outside the support"
        return ev
    only = None
    if cond_allow > 0 and x.size > 40:
        # large ill-conditioned workload: a fixed-size random subset of the coordinates (the call site adds eigen- and
        # random-direction derivatives); the subset is a deterministic function of the point
        sub = np.random.RandomState(int(abs(float(np.sum(x))) * 1e6) % (2 ** 31 - 1))
        only = sorted(sub.choice(x.size, 12, replace=False).tolist())
    try:
        R, err, hs = FD.richardson_gradient(fscalar, x, only=only)
    except Exception as e:  # noqa
        ev["why"] = f"logd failed inside the stencil: {type(e).__name__}: {core.short(str(e), 80)}"
        return ev
    scale = max(float(np.max(np.abs(R[np.isfinite(R)]))) if np.any(np.isfinite(R)) else 0.0,
                float(np.max(np.abs(g[np.isfinite(g)]))) if np.any(np.isfinite(g)) else 0.0)
    # everything below is relative to the gradient's own magnitude (no absolute floor: a 1e-12 gradient of a very wide
    # prior and a 1e+12 gradient of a very sharp likelihood are judged alike)
    if not np.any(g != 0.0) and np.all(np.isfinite(R)) and np.all(np.abs(R) <= 10.0 * err):
        # an exactly-zero gradient (flat density): confirmed when the numerical derivative is zero within its own resolution
        ev.update(status="ok", ncomp=int(x.size), headroom_ok=True, zero=True)
        return ev
    # cond_allow (> 0 only in the 'large and ill-conditioned' workload, where the harness knows the condition number of
    # the matrix it handed in): floating point cannot make P@dev and the derivative of |sqrt(P)@dev|^2 agree better than
    # ~eps*cond(P) relative to the whole gradient, so 1e5*eps*cond - never more than 50 % - is granted on top
    gnorm = float(np.linalg.norm(g[np.isfinite(g)])) if cond_allow > 0 else 0.0
    usable = np.isfinite(R) & (err <= max(POOR_REF, cond_allow) * scale)
    if not np.any(usable):
        ev["why"] = "reference derivative not accurate enough"
        return ev
    tol = ERR_FACTOR * err + RTOL_COMP * np.abs(R) + RTOL_VEC * scale + cond_allow * gnorm
    if ev["mode"] == "fd":
        eps = float(getattr(obj, "FD_epsilon", 1e-8) or 1e-8)
        # (a) the forward-difference quotient of the same object's logd with the configured epsilon, recomputed here
        try:
            Q = FD.forward_quotient(fscalar, x, eps)
            qtol = 1e-6 * np.abs(Q) + 1e-8 * scale + 32 * FD.EPS * abs(f0) / eps
            with np.errstate(invalid="ignore"):
                if np.all(np.isfinite(Q)) and np.all(np.abs(g - Q) <= qtol):
                    ev.update(status="ok", ncomp=int(x.size), headroom_ok=True, fd_ref="forward_quotient")
                    return ev
        except Exception:  # noqa
            pass
        # (b) otherwise: the derivative itself, within the modelled error of a forward difference
        try:
            H = FD.second_derivative_diag(fscalar, x)
        except Exception:  # noqa
            H = np.full(x.size, np.nan)
        usable = usable & np.isfinite(H)
        if not np.any(usable):
            ev["why"] = "curvature estimate unavailable"
            return ev
        H = np.where(np.isfinite(H), np.abs(H), 0.0)
        # forward difference: truncation eps*|f''|/2 (+ next term), round-off 2 ulp(f)/eps
        tol = tol + 20.0 * (0.5 * eps * H + 8 * FD.EPS * abs(f0) / eps)
    with np.errstate(invalid="ignore"):
        bad = usable & ~(np.abs(g - R) <= tol)
    ev["ncomp"] = int(np.sum(usable))
    with np.errstate(invalid="ignore", divide="ignore"):
        ratio = np.abs(g - R)[usable] / tol[usable]
    # analytic gradients: numerical noise must stay 100x below the tolerance; FD option: the tolerance models the
    # forward-difference error itself with a factor 20, so the bar is 1/3 of it
    bar = 0.01 if ev["mode"] != "fd" else 1.0 / 3
    ev["headroom_ok"] = bool(np.all(ratio <= bar)) if np.all(np.isfinite(ratio)) else False
    ev["ratio"] = float(np.max(ratio)) if ratio.size and np.all(np.isfinite(ratio)) else float("inf")
    ev["maxrel"] = float(np.max(np.abs(g - R)[usable] / max(scale, 1e-300))) if scale > 0 and np.all(np.isfinite(g[usable])) else 0.0
    if np.any(bad):
        i = int(np.argmax(np.where(bad, np.abs(np.nan_to_num(g - R, nan=np.inf)), -1)))
        ev.update(status="mismatch",
                  detail=f"component {i}: gradient={g[i]!r} numerical d logd/dx={R[i]!r} (+-{err[i]:.2g}, tol {tol[i]:.2g}); "
                         f"x={np.round(x, 6).tolist()} gradient={g.tolist()} reference={R.tolist()}")
    else:
        ev["status"] = "ok"
    return ev


def _forward_difference_exists(obj, xraw):
    """None when the same object's logd is a finite scalar at x and at x + eps e_i for every i (so the documented
    finite-difference fall-back has a value); otherwise the reason why this cannot be claimed."""
    x = _as_point(xraw)
    if x is None:
        return "not a single point"
    eps = float(getattr(obj, "FD_epsilon", None) or 1e-8)
    try:
        pts = [x] + [x + eps * np.eye(x.size)[i] for i in range(x.size)]
        vals = [FD._scalar(obj.logd(p.copy())) for p in pts]
    except Exception as e:  # noqa
        return f"logd not available: {type(e).__name__}"
    return None if np.all(np.isfinite(vals)) else "logd not finite in the stencil"


class GradMonitor:
    """Runtime contract on every gradient entry point of the real classes."""

    def __init__(self):
        self.log = contracts.ContractLog()
        self.events = []
        self.expect_outside = False
        self.top_id = None
        self.judge_errors = []
        self.cond_allow = 0.0         # see judge_call; set only by the ill-conditioned workload
        self.fallback = {}            # id(object) -> logd of an identical twin, used only when the object's own logd raises
        self._stack = None
        self.enabled = True

    def __enter__(self):
        import cuqi
        from cuqi.density import Density
        D = cuqi.distribution
        self._stack = contextlib.ExitStack()
        for cls in (Density, D.Cauchy, D.Uniform, D.SmoothedLaplace, D.MultipleLikelihoodPosterior):
            self._stack.enter_context(contracts.ensure(cls, "gradient", self._post, self.log, reentrant=True,
                                                       name=f"{cls.__name__}.gradient"))
        return self

    def __exit__(self, *a):
        self._stack.close()
        return False

    def _post(self, obj, args, kwargs, result, snap):
        if not self.enabled:
            return None
        self.enabled = False          # the oracle's own logd calls must never be observed as workload
        try:
            # the call site's "this point is outside the support" refers to the object it called, not to the objects
            # that object consults internally (their own logd may be -inf for other reasons, e.g. an underflowing pdf)
            ev = judge_call(obj, args, kwargs, result, self.expect_outside and id(obj) == self.top_id, self.fallback.get(id(obj)),
                            self.cond_allow)
        except Exception as e:  # noqa  - a harness problem, never the library's
            import traceback
            self.judge_errors.append("".join(traceback.format_exception(type(e), e, e.__traceback__))[-600:])
            ev = {"cls": type(obj).__name__, "mode": "?", "status": "unjudged", "why": "judge raised", "detail": "", "ncomp": 0}
        finally:
            self.enabled = True
        ev["obj_id"] = id(obj)
        self.events.append(ev)
        return None


_MECH = {"mismatch": "gradient_mismatch", "size": "gradient_size", "none": "gradient_none_returned",
         "not_array": "gradient_not_array", "outside_finite": "finite_gradient_outside_support"}


class Probe:
    """Call-site side: classifies value / refused / crashed and books what the contract observed."""

    def __init__(self, ctx, mon, cfg):
        self.ctx, self.mon, self.cfg = ctx, mon, dict(cfg)
        self.compared = 0

    def call(self, obj, *args, outside=False, must_refuse=False, chain=False, via="direct", extra=None, **kwargs):
        ctx, mon = self.ctx, self.mon
        cfg = dict(self.cfg)
        if extra:
            cfg.update(extra)
        n0 = len(mon.events)
        mon.expect_outside, mon.top_id = outside, id(obj)
        # a refusal is a *documented* exception; AttributeError/KeyError/IndexError/... from gradient() is a crash
        # (python lists are not a documented input type: any refusal of those is accepted)
        narrow = not any(isinstance(a, (list, tuple)) for a in list(args) + list(kwargs.values()))
        kind, val = core.outcome(obj.gradient, *args, refusal=(NotImplementedError, ValueError, TypeError) if narrow else core.REFUSAL_TYPES_BROAD, **kwargs)
        mon.expect_outside, mon.top_id = False, None
        evs = mon.events[n0:]
        top = evs[-1] if (kind == "value" and evs and evs[-1].get("obj_id") == id(obj)) else None
        ctx.count("gradient_calls_made")
        if kind == "refused":
            ctx.refused(f"{type(obj).__name__}", val)
            ctx.count("refused")
            if must_refuse:
                ctx.count("must_refuse_refused")
                ctx.nontrivial()
            if bool(getattr(obj, "FD_enabled", False)) and not outside and len(args) == 1 and not kwargs:
                # the finite-difference option is on: the forward difference of the object's own logd exists -> must be returned
                why = _forward_difference_exists(obj, args[0])
                ctx.count("fd_option_refusals_examined")
                if why is None:
                    ctx.violation("fd_option_refused", {**cfg, "cls": type(obj).__name__, "exc": type(val).__name__},
                                  detail=f"{type(obj).__name__}.enable_FD() was called and logd is finite at x and at every x+eps*e_i, "
                                         f"but gradient(x) raised {type(val).__name__}: {core.short(str(val), 200)}")
        elif kind == "crashed":
            ctx.violation("crash", {**cfg, "cls": type(obj).__name__, "exc": type(val).__name__}, detail=f"gradient raised {type(val).__name__}: {val}")
        elif must_refuse:
            ctx.count("must_refuse_returned_value")   # judged by value: a correct vector is not a violation
        for ev in evs:
            nested = ev is not top
            self._book(ev, cfg, nested, chain, via, outside)
        if mon.judge_errors:
            ctx.inconclusive("oracle raised: " + mon.judge_errors[-1][-200:])
            ctx.count("harness_error")
            del mon.judge_errors[:]
        return kind, val, top

    def _book(self, ev, cfg, nested, chain, via, outside):
        ctx = self.ctx
        st = ev["status"]
        c = {**cfg, "cls": ev["cls"], "mode": ev["mode"], "nested": bool(nested)}
        ctx.count("contract_evaluations")
        if st == "ok":
            ctx.count("gradient_compared")
            ctx.count("components_compared", ev["ncomp"])
            if ev["mode"] == "fd":
                ctx.count("fd_option_compared")
                if ev.get("fd_ref") == "forward_quotient":
                    ctx.count("fd_option_equals_forward_quotient")
            if chain and not nested:
                ctx.count("chain_rule_compared")
            if nested:
                ctx.count("nested_calls_judged")
            if via != "direct":
                ctx.count("sampler_internal_calls_judged")
            if ev.get("layout") == "reshaped":
                ctx.count("layout_not_flat")
            if not ev.get("headroom_ok", True):
                ctx.count("low_headroom_" + ("fd" if ev["mode"] == "fd" else "analytic"))
                if len(ctx.notes) < 10:
                    ctx.note(f"low_headroom_{ev['cls']}_{ev['mode']}", ev.get("ratio"))
            if ev.get("ref") == "dense_twin_logd":
                ctx.count("compared_against_dense_twin")
            ctx.nontrivial(f"{ev['cls']}/{ev['mode']}/{'nested' if nested else 'top'}")
            self.compared += 1
            if len(ctx.notes) < 6:
                ctx.note(f"maxrel_{ev['cls']}_{ev['mode']}", ev.get("maxrel", 0.0))
        elif st == "outside_ok":
            ctx.count("outside_support_checked")
            ctx.nontrivial(f"{ev['cls']}/outside")
        elif st in _MECH:
            if st == "outside_finite":
                ctx.count("outside_support_checked")
            else:
                ctx.count("gradient_compared")
            ctx.violation(_MECH[st], c, detail=f"{ev['cls']}.gradient ({ev['mode']}{', nested call' if nested else ''}): {ev['detail']}")
        else:
            ctx.count("unjudged")
            key = "unjudged:" + ev["why"].split(":")[0][:40]
            ctx.count(key)


# ------------------------------------------------------------------------------------------------
# generators of well-posed inputs
# ------------------------------------------------------------------------------------------------

def _spd(rs, n, lo=0.5, hi=4.0):
    Q, _ = np.linalg.qr(rs.standard_normal((n, n)))
    lam = rs.uniform(lo, hi, n)
    S = (Q * lam) @ Q.T
    return (S + S.T) / 2


def _scaled(M, scale):
    return M if scale == 1.0 else M * scale


def _form_value(form, rs, n, sqrt=False, scale=1.0):
    """Matrix-like parameter of a Gaussian in the given representation (always well conditioned), times `scale`
    (scale only changes the magnitude: 1e-16 .. 1e+12 are all legal covariances / precisions)."""
    import scipy.sparse as sp
    v = rs.uniform(0.4, 3.0, n)
    if form == "scalar":
        return float(rs.uniform(0.4, 3.0)) * scale
    if form == "arr1":
        return np.array([float(rs.uniform(0.4, 3.0))]) * scale
    if form == "vector":
        return _scaled(v, scale)
    if form == "diagmat":
        return _scaled(np.diag(v), scale)
    if form == "sparse_diag":
        return sp.diags(_scaled(v, scale))
    if form.endswith("banded"):
        # dense tridiagonal, diagonally dominant (the classic smoothness-prior / correlated-noise matrix)
        d = rs.uniform(2.0, 3.0, n)
        o = rs.uniform(0.3, 0.95, max(n - 1, 0)) * rs.choice([-1.0, 1.0])
        S = np.diag(d) + np.diag(o, 1) + np.diag(o, -1)
    else:
        S = _spd(rs, n)
    if sqrt:
        S = np.linalg.cholesky(S)          # a genuinely non-symmetric square root
    S = _scaled(S, scale)
    if form in ("full", "banded"):
        return S
    if form in ("sparse_full", "sparse_banded"):
        return sp.csc_matrix(S)
    raise ValueError(form)


def _std_factor(param, scale):
    """How the standard deviations change when the Gaussian's matrix parameter is multiplied by `scale`."""
    return {"cov": np.sqrt(scale), "prec": 1.0 / np.sqrt(scale), "sqrtcov": scale, "sqrtprec": 1.0 / scale}[param]


SCALE_KS = (-16, -12, -10, -8, -6, -4, 0, 4, 8, 12)
SCALE_KS_SMALL = (-12, -8, -4, 4, 8, 12)


def _loc_value(kind, rs, n):
    if kind == "zero":
        return np.zeros(n)
    if kind == "scalar":
        return float(rs.uniform(0.3, 2.0) * rs.choice([-1, 1]))
    return rs.standard_normal(n) * 1.5 + rs.choice([-1.0, 1.0])


class _ScaledGeometry:
    """Placeholder replaced at import time of cuqi (see _geom)."""


def _geom(kind, n, rs=None):
    """Domain/parameter geometry of `n` parameters. Returns (geometry argument, fun_shape)."""
    import cuqi
    G = cuqi.geometry
    N = int(round(np.sqrt(n)))
    if kind == "default":
        return n, (n,)
    if kind == "cont1d":
        return G.Continuous1D(n), (n,)
    if kind == "discrete":
        return G.Discrete(n), (n,)
    if kind == "default2d":
        return (N, N), (N, N)
    if kind == "image2d":
        return G.Image2D((N, N)), (N, N)
    if kind == "image2d_F":
        return G.Image2D((N, N), order="F"), (N, N)
    if kind == "cont2d":
        return G.Continuous2D((N, N)), (n,)
    if kind == "mapped_grad_exp":
        g = G.MappedGeometry(G.Continuous1D(n), map=lambda p: np.exp(p), imap=lambda f: np.log(f))
        g.gradient = lambda direction, wrt: np.exp(wrt) * direction
        return g, (n,)
    if kind == "mapped_grad_cube":
        g = G.MappedGeometry(G.Continuous1D(n), map=lambda p: p ** 3 + p, imap=None)
        g.gradient = lambda direction, wrt: (3 * wrt ** 2 + 1) * direction
        return g, (n,)
    if kind == "custom_grad":
        class ScaledShift(G.Continuous1D):          # user geometry class with its own chain-rule factor
            def par2fun(self, p):
                return 2.5 * np.asarray(p) + np.sin(np.asarray(p))
            def fun2par(self, f):
                raise NotImplementedError("no inverse")
            def gradient(self, direction, wrt):
                return (2.5 + np.cos(wrt)) * direction
        return ScaledShift(n), (n,)
    if kind == "mapped_nograd":
        return G.MappedGeometry(G.Continuous1D(n), map=lambda p: np.exp(p), imap=lambda f: np.log(f)), (n,)
    if kind == "kl":
        return G.KLExpansion(np.linspace(0, 1, n + 3), num_modes=n), (n + 3,)
    if kind == "step":
        return G.StepExpansion(np.linspace(0, 1, 2 * n), n_steps=n), (2 * n,)
    raise ValueError(kind)


IDENTITY_GEOMS = ("default", "cont1d", "discrete", "default2d", "image2d", "image2d_F", "cont2d")
GRAD_GEOMS = ("mapped_grad_exp", "mapped_grad_cube", "custom_grad")
REFUSE_GEOMS = ("mapped_nograd", "kl", "step")


def _model(kind, geom, fs, m, rs):
    """Forward model of the given kind on domain geometry `geom` (function space shape fs) with m outputs."""
    import cuqi
    import scipy.sparse as sp
    M = cuqi.model
    nf = int(np.prod(fs))
    A = rs.standard_normal((m, nf)) / np.sqrt(nf)
    B = rs.standard_normal((m, nf)) / np.sqrt(nf)
    C = rs.standard_normal((m, nf)) / np.sqrt(nf)
    flat = lambda u: np.asarray(u, dtype=float).reshape(-1)
    def F(u):
        u = flat(u)
        return B @ np.tanh(u) + 0.5 * (C @ (u * u)) + A @ u
    def J(u):
        u = flat(u)
        return B * (1 - np.tanh(u) ** 2)[None, :] + C * u[None, :] + A
    if kind == "matrix":
        return M.LinearModel(A, domain_geometry=geom)
    if kind == "spmatrix":
        return M.LinearModel(sp.csr_matrix(A), domain_geometry=geom)
    if kind == "funadj":
        return M.LinearModel(lambda x: A @ flat(x), lambda y: (A.T @ y).reshape(fs), range_geometry=m, domain_geometry=geom)
    if kind == "jac":
        return M.Model(lambda x: F(x), m, geom, jacobian=lambda x: J(x))
    if kind == "dirjac":
        return M.Model(lambda x: F(x), m, geom, gradient=lambda direction, wrt: (J(wrt).T @ direction).reshape(fs))
    if kind == "nograd":
        return M.Model(lambda x: F(x), m, geom)
    raise ValueError(kind)


def _data_dist(form, model, m, rs, name="y"):
    """Data distribution with the forward model as its mean. Returns (distribution, is_lognormal)."""
    import cuqi
    D = cuqi.distribution
    if form.startswith("lognormal"):
        cf = form.split(":")[1]
        cov = _form_value(cf, rs, m)
        if cf in ("scalar", "vector"):
            cov = np.asarray(cov) * 0.3
        return D.Lognormal(model, cov, name=name), True
    param, f = form.split(":")
    val = _form_value(f, rs, m, sqrt=param.startswith("sqrt"))
    return D.Gaussian(model, **{param: val}, name=name), False


def _x_for(geomkind, n, rs, positive=False):
    x = rs.standard_normal(n) * rs.choice([0.3, 1.0])
    if geomkind == "mapped_grad_exp":
        x = 0.5 * x
    if positive:
        x = np.exp(0.5 * rs.standard_normal(n))
    return x


# ------------------------------------------------------------------------------------------------
# case enumeration
# ------------------------------------------------------------------------------------------------

G_PARAMS = ("cov", "prec", "sqrtcov", "sqrtprec")
G_FORMS = ("scalar", "arr1", "vector", "diagmat", "full", "sparse_diag", "sparse_full")
LOCS = ("zero", "scalar", "vector")
BCS = ("zero", "periodic", "neumann")
GALLERY = ("CalSom91", "BivariateGaussian", "funnel", "mixture", "squiggle", "donut", "banana")
DATA_FORMS = ("cov:scalar", "cov:vector", "cov:full", "cov:sparse_diag", "cov:diagmat", "prec:scalar", "prec:arr1", "prec:vector",
              "prec:full", "prec:sparse_full", "sqrtcov:vector", "sqrtcov:full", "sqrtprec:vector",
              "lognormal:full", "lognormal:diagmat", "lognormal:vector")
POST_DATA = tuple(d for d in DATA_FORMS if d not in ("prec:scalar", "prec:sparse_full", "sqrtprec:vector"))
MODELS = ("matrix", "spmatrix", "funadj", "jac", "dirjac", "nograd")
DGEOMS = IDENTITY_GEOMS[:3] + ("image2d", "image2d_F") + GRAD_GEOMS + REFUSE_GEOMS
RGEOMS = ("default", "cont1d", "mapped")
PRIORS = ("gaussian_cov", "gaussian_prec", "gaussian_geom", "gmrf", "cmrf", "cauchy", "smoothedlaplace", "beta", "inversegamma",
          "lognormal", "uniform", "laplace", "lmrf", "userdefined")
SAMPLERS = ("NUTS", "MALA", "ULA", "expNUTS", "expMALA", "expULA", "MAP")
TESTPROBLEMS = ("Deconvolution1D", "WangCubic", "Abel1D", "Deconvolution2D", "Poisson1D", "Heat1D")


def _dist_cases():
    out = []
    for p in G_PARAMS:
        for f in G_FORMS:
            for loc in LOCS:
                out.append({"family": "Gaussian", "param": p, "form": f, "loc": loc, "geom": "default"})
    for p in ("cov", "prec"):
        for f in ("vector", "full"):
            for g in ("cont1d", "discrete", "image2d", "cont2d", "mapped_grad_exp", "mapped_nograd", "kl"):
                out.append({"family": "Gaussian", "param": p, "form": f, "loc": "vector", "geom": g})
    for p in ("cov", "prec", "sqrtcov"):
        for f in ("scalar", "vector", "full", "sparse_full"):
            out.append({"family": "Gaussian", "param": p, "form": f, "loc": "vector", "geom": "default", "big": True})
    for bc in BCS:
        for order in (0, 1, 2):
            for pd in (1, 2):
                for loc in LOCS:
                    out.append({"family": "GMRF", "bc": bc, "order": order, "pd": pd, "loc": loc})
    for bc in BCS + ("backward", "none"):
        for pd in (1, 2):
            for loc in LOCS:
                out.append({"family": "CMRF", "bc": bc, "pd": pd, "loc": loc})
    for bc in BCS:
        for pd in (1, 2):
            out.append({"family": "LMRF", "bc": bc, "pd": pd, "loc": "vector"})
    for loc in LOCS:
        for sc in ("scalar", "vector"):
            for g in ("default", "cont1d", "discrete", "kl"):
                out.append({"family": "Cauchy", "loc": loc, "form": sc, "geom": g})
            for beta in (1e-3, 1e-1, 1e-5):
                out.append({"family": "SmoothedLaplace", "loc": loc, "form": sc, "beta": beta})
            out.append({"family": "InverseGamma", "loc": loc, "form": sc})
            out.append({"family": "Laplace", "loc": loc, "form": sc})
            out.append({"family": "Normal", "loc": loc, "form": sc})
            out.append({"family": "Uniform", "loc": loc, "form": sc})
        for cf in ("scalar", "vector", "diagmat", "full"):
            out.append({"family": "Lognormal", "loc": loc, "form": cf})
    out.append({"family": "Cauchy", "loc": "vector", "form": "bad_scale", "geom": "default"})
    # --- magnitude axis: the same matrices / scales multiplied by 10^k (all legal), locations and points on the matching scale
    for p in G_PARAMS:
        for f in ("full", "banded", "sparse_full", "sparse_banded", "vector", "scalar"):
            for k in SCALE_KS:
                out.append({"family": "Gaussian", "param": p, "form": f, "loc": "vector", "geom": "default", "scale_k": k})
    for bc in BCS:
        for k in SCALE_KS:
            out.append({"family": "GMRF", "bc": bc, "order": (0, 1, 2)[(k // 2) % 3], "pd": 1 + (k // 4) % 2, "loc": "vector", "scale_k": k})
    for k in SCALE_KS_SMALL:
        out.append({"family": "CMRF", "bc": BCS[(k // 4) % 3], "pd": 1, "loc": "vector", "scale_k": k})
        out.append({"family": "Cauchy", "loc": "vector", "form": "vector", "geom": "default", "scale_k": k})
        out.append({"family": "SmoothedLaplace", "loc": "vector", "form": "vector", "beta": 1e-2, "scale_k": k})
        out.append({"family": "InverseGamma", "loc": "vector", "form": "vector", "scale_k": k})
        out.append({"family": "Uniform", "loc": "vector", "form": "vector", "scale_k": k})
    for k in (-6, -4, -2, 2):
        for cf in ("vector", "full", "banded"):
            out.append({"family": "Lognormal", "loc": "vector", "form": cf, "scale_k": k})
    for a in ("scalar", "vector"):
        for b in ("scalar", "vector"):
            out.append({"family": "Beta", "form": a, "form2": b})
            out.append({"family": "Gamma", "form": a, "form2": b})
    out.append({"family": "Beta", "form": "bad_alpha", "form2": "scalar"})
    out.append({"family": "ModifiedHalfNormal", "form": "scalar", "dim1": True})
    out.append({"family": "ModifiedHalfNormal", "form": "scalar", "dim1": False})
    out.append({"family": "ModifiedHalfNormal", "form": "vector", "dim1": False})
    out.append({"family": "UserDefined", "form": "with_gradient"})
    out.append({"family": "UserDefined", "form": "no_gradient"})
    out.append({"family": "JointGaussianSqrtPrec", "form": "list"})
    for name in GALLERY:
        out.append({"family": "Gallery", "form": name})
    for fam in ("Gaussian", "Lognormal", "GMRF", "CMRF"):
        out.append({"family": fam, "form": "plain_callable", "cond": True})
    return out


def cases(tier, seed):
    R = core.rng_for(seed, PROPERTY, tier)
    quick = tier == "quick"
    out = []
    # --- distributions: every discrete combination, `reps` sampled variants each
    reps = 2 if quick else 30
    for d in _dist_cases():
        nrep = (1 if quick else 2) if d.get("big") else ((1 if quick else 6) if "scale_k" in d else reps)
        for r in range(nrep):
            out.append({"kind": "dist", **d, "rep": r, "s": R.randrange(10 ** 9)})
    # --- likelihoods: model x domain geometry x data form x range geometry
    combos = []
    for mk in MODELS:
        for dg in DGEOMS:
            if dg.startswith("image2d") and mk in ("matrix", "spmatrix", "jac"):
                continue
            forms = list(DATA_FORMS) if (not quick or dg == "default") else R.sample(DATA_FORMS, 3)
            for df in forms:
                combos.append((mk, dg, df, "default"))
    for mk in ("matrix", "funadj", "jac", "dirjac"):
        for rg in ("cont1d", "mapped"):
            for df in ("cov:vector", "prec:full", "lognormal:full"):
                combos.append((mk, "cont1d", df, rg))
    lreps = 2 if quick else 6
    for mk, dg, df, rg in combos:
        for r in range(lreps):
            out.append({"kind": "lik", "model": mk, "dgeom": dg, "data": df, "rgeom": rg, "rep": r, "s": R.randrange(10 ** 9)})
    # --- posteriors: prior family x model x domain geometry
    pcombos = []
    for pr in PRIORS:
        for mk in MODELS:
            dgs = ("default", "cont1d", "image2d", "mapped_grad_exp", "custom_grad", "mapped_nograd", "kl")
            for dg in (dgs if not quick else R.sample(dgs, 2) + ["default"]):
                if dg.startswith("image2d") and mk in ("matrix", "spmatrix", "jac"):
                    continue
                pcombos.append((pr, mk, dg))
    for pr in PRIORS:
        pcombos.append((pr, "userlik", "default"))
    for mk in MODELS[:5]:
        for dg in ("default", "cont1d", "mapped_grad_exp"):
            pcombos.append(("hier_gaussian", mk, dg))
    preps = 2 if quick else 6
    for pr, mk, dg in pcombos:
        for r in range(preps):
            out.append({"kind": "post", "prior": pr, "model": mk, "dgeom": dg, "data": R.choice(POST_DATA),
                        "rep": r, "s": R.randrange(10 ** 9)})
    # --- magnitude axis for likelihood noise and for priors inside posteriors
    sreps = 1 if quick else 5
    for nparam in ("cov", "prec", "sqrtcov"):
        for nform in ("full", "banded", "sparse_banded", "vector"):
            for k in SCALE_KS:
                for r in range(sreps):
                    out.append({"kind": "scaled", "role": "lik", "data": f"{nparam}:{nform}", "noise_k": k,
                                "model": R.choice(("matrix", "funadj", "jac", "dirjac")), "amp_k": R.choice((0, 0, -8, 8)),
                                "rep": r, "s": R.randrange(10 ** 9)})
    for prior in ("cov:full", "cov:banded", "prec:full", "prec:banded", "sqrtcov:full", "sqrtcov:banded", "gmrf:prec"):
        for k in SCALE_KS:
            for r in range(sreps):
                out.append({"kind": "scaled", "role": "post", "prior": prior, "scale_k": k,
                            "data": R.choice(("cov:full", "cov:banded", "prec:full", "prec:banded", "prec:vector", "sqrtcov:banded")),
                            "noise_k": R.choice(SCALE_KS), "model": R.choice(("matrix", "funadj", "jac", "dirjac")), "amp_k": 0,
                            "rep": r, "s": R.randrange(10 ** 9)})
    # --- large and ill-conditioned Gaussians (prior / noise model / prior inside a posterior)
    ill = []
    for param in G_PARAMS:
        for form in ("full", "sparse_full", "diagmat", "vector"):
            for cond in COND_KS + ("lowrank",):
                if form == "sparse_full" and (cond == "lowrank" or cond > 6):
                    continue            # a sparse Gaussian has no logd of its own (no cholmod); its dense twin truncates beyond 1e-10
                for role in ("prior", "lik", "post_noise", "post_prior"):
                    ill.append({"param": param, "form": form, "cond": cond, "role": role})
    for d in ill:
        for dm in ("lowered", "below"):
            if dm == "below" and d["cond"] in (12, 14, "lowrank"):
                continue        # the small dense branch (inv + cholesky) refuses these or is itself only accurate to ~1 %
            for r in range(1 if quick else 3):
                out.append({"kind": "illcond", **d, "dimmode": dm, "rep": r, "s": R.randrange(10 ** 9)})
    true_dim = [d for d in ill if d["form"] in ("full", "sparse_full")] + [d for d in ill if d["form"] not in ("full", "sparse_full") and d["cond"] in (8, 14)]
    must = [d for d in true_dim if d["form"] == "full" and d["cond"] in (10, 12, 14, "lowrank") and d["role"] in ("prior", "lik")]
    rest = [d for d in true_dim if d not in must]
    for d in must + (R.sample(rest, 24) if quick else rest):
        for r in range(1 if quick else 2):
            out.append({"kind": "illcond", **d, "dimmode": "true", "rep": r, "s": R.randrange(10 ** 9)})
    # --- degenerate shapes of the model derivative
    for shape in ("1xm", "nx1", "1x1"):
        for mk in ("jac", "dirjac"):
            for ret in SHAPE_RETURNS:
                for df in ("cov:scalar", "cov:vector", "prec:vector", "cov:full", "sqrtcov:vector", "lognormal:vector"):
                    for r in range(1 if quick else 5):
                        out.append({"kind": "shape", "shape": shape, "model": mk, "ret": ret, "data": df,
                                    "prior": R.choice(("gaussian_cov", "gaussian_prec", "cauchy", "uniform")), "scalar_data": R.random() < 0.5,
                                    "rep": r, "s": R.randrange(10 ** 9)})
    # --- multiple-likelihood posteriors
    for r in range(60 if quick else 1500):
        nl = R.choice([2, 2, 3])
        out.append({"kind": "mlp", "ctor": ("joint", "direct", "direct_user", "direct_user")[r % 4], "models": [R.choice(MODELS[:5]) for _ in range(nl)],
                    "datas": [R.choice(POST_DATA) for _ in range(nl)],
                    "prior": R.choice(("gaussian_cov", "gaussian_prec", "gmrf", "cmrf", "cauchy", "smoothedlaplace", "laplace")),
                    "dgeom": R.choice(("default", "cont1d", "mapped_grad_exp", "custom_grad", "kl")), "rep": r, "s": R.randrange(10 ** 9)})
    # --- PDE based models
    for pde in ("poisson", "heat_forward_euler", "heat_backward_euler"):
        for deriv in ("jacobian", "gradient", "none"):
            for dg in ("cont1d", "default", "mapped_grad_exp", "mapped_nograd"):
                for r in range(2 if quick else 12):
                    out.append({"kind": "pde", "pde": pde, "deriv": deriv, "dgeom": dg, "prior": R.choice(("gaussian_cov", "gmrf", "cauchy")),
                                "rep": r, "s": R.randrange(10 ** 9)})
    # --- gradient calls made by the library's own samplers
    for sm in SAMPLERS:
        for r in range(3 if quick else 40):
            out.append({"kind": "sampler", "sampler": sm, "model": R.choice(("matrix", "jac", "dirjac", "funadj")),
                        "prior": R.choice(("gaussian_cov", "gmrf", "cmrf", "cauchy", "smoothedlaplace")),
                        "dgeom": R.choice(("default", "cont1d", "mapped_grad_exp")), "rep": r, "s": R.randrange(10 ** 9)})
    # --- shipped test problems
    for tp in TESTPROBLEMS:
        for r in range(2 if quick else 10):
            out.append({"kind": "testproblem", "name": tp, "rep": r, "s": R.randrange(10 ** 9)})
    return out


def crash_config(case):
    return {k: case[k] for k in ("kind", "family", "form", "param", "model", "dgeom", "prior", "data", "pde", "sampler", "name", "scale_k", "role", "noise_k", "cond", "dimmode") if k in case}


def _cfg(case):
    return crash_config(case)


# ------------------------------------------------------------------------------------------------
# workloads
# ------------------------------------------------------------------------------------------------

FD_EPS = (None, 1e-6, 1e-4)     # None = library default (1e-8)


def _fd_cycle(pr, obj, x, rs, extra=None, chain=False, n_eps=None):
    """Switch the finite-difference option on (several epsilons) and off again."""
    eps_list = FD_EPS if n_eps is None else FD_EPS[:n_eps]
    for eps in eps_list:
        k, e = core.outcome(obj.enable_FD) if eps is None else core.outcome(obj.enable_FD, eps)
        if k != "value":
            pr.ctx.refused("enable_FD", e)
            return
        pr.call(obj, x, chain=chain, extra={**(extra or {}), "fd_eps": "default" if eps is None else eps})
    obj.disable_FD()
    pr.ctx.count("fd_switched_off_again")


def _run_dist(case, ctx, mon, rs):
    cfg = _cfg(case)
    pr = Probe(ctx, mon, cfg)
    st = rs.get_state()
    built = _build_dist(case, ctx, pr, rs)
    if built is None:
        return
    obj, points, must_refuse = built
    fam = case["family"]
    if case.get("form") in ("sparse_full", "sparse_banded"):
        # no normalising constant without cholmod -> logd raises; reference = logd of the identical Gaussian given densely
        rs2 = np.random.RandomState(); rs2.set_state(st)
        twin = _build_dist({**case, "form": case["form"][7:]}, ctx, Probe(ctx, mon, cfg), rs2)
        if twin is not None:
            mon.fallback[id(obj)] = twin[0].logd
    _probe_dist(case, ctx, mon, rs, pr, obj, points, must_refuse)


def _build_dist(case, ctx, pr, rs):
    import cuqi
    D = cuqi.distribution
    fam = case["family"]
    cfg = pr.cfg
    points = []          # (x, outside?, label)
    must_refuse = False
    n = int(rs.choice([1, 2, 3, 4, 5, 6, 8]))
    obj = None

    if case.get("cond"):
        # plain-callable mean/location: no analytic gradient exists -> the call has to raise
        m = 3
        A = rs.standard_normal((m, 2))
        if fam == "Gaussian":
            y = D.Gaussian(mean=lambda x: A @ x, cov=0.7, geometry=m, name="y")
            obj, args = y(y=rs.standard_normal(m)), (rs.standard_normal(2),)
        elif fam == "Lognormal":
            y = D.Lognormal(mean=lambda x: A @ x, cov=0.5 * np.eye(m), geometry=m, name="y")
            obj, args = y(y=np.exp(rs.standard_normal(m))), (rs.standard_normal(2),)
        elif fam == "GMRF":
            obj, args = D.GMRF(mean=lambda z: z * np.ones(5), prec=2.0, geometry=5, name="x"), (rs.standard_normal(5),)
        else:
            obj, args = D.CMRF(location=lambda z: z * np.ones(5), scale=0.4, geometry=5, name="x"), (rs.standard_normal(5),)
        pr.call(obj, *args, must_refuse=True)
        return None

    if fam == "Gaussian":
        gk = case["geom"]
        if case.get("big"):
            n = int(rs.choice([76, 80, 90]))           # above cuqi.config.MIN_DIM_SPARSE: sparse code path
        if gk in ("image2d", "cont2d"):
            n = int(rs.choice([4, 9]))
        geom, _ = _geom(gk, n)
        sk = case.get("scale_k")
        mscale = 1.0 if sk is None else 10.0 ** sk
        stdf = _std_factor(case["param"], mscale)       # location and points live on the distribution's own scale
        if sk is not None:
            n = int(rs.choice([2, 3, 4, 5]))
            geom = n
        mean = _loc_value(case["loc"], rs, n)
        mean = mean * stdf if sk is not None else mean
        val = _form_value(case["form"], rs, n, sqrt=case["param"].startswith("sqrt"), scale=mscale)
        k, obj = core.outcome(D.Gaussian, mean, **{case["param"]: val}, geometry=geom, name="x")
        if k != "value":
            ctx.refused("ctor", obj); return None
        mu = np.broadcast_to(np.asarray(mean, dtype=float).reshape(-1), (n,)) if np.ndim(mean) else np.full(n, float(mean))
        for sc in ((0.1, 1.0, 10.0) if not case.get("big") else (1.0,)):
            points.append((mu + sc * stdf * rs.standard_normal(n), False, f"inside_{sc}"))
        must_refuse = gk in REFUSE_GEOMS or case["param"] == "sqrtprec"
    elif fam in ("GMRF", "CMRF", "LMRF"):
        pd, bc = case["pd"], case["bc"]
        if pd == 1:
            n = int(rs.choice([5, 6, 7, 9, 12]))
            gk = rs.choice(["default", "cont1d"])
        else:
            N = int(rs.choice([4, 5] if case.get("order") == 2 else [3, 4]))
            n = N * N
            gk = rs.choice(["default2d", "image2d", "cont2d"])
        geom, _ = _geom(gk, n)
        if gk == "cont2d":
            geom = cuqi.geometry.Continuous2D((int(np.sqrt(n)), int(np.sqrt(n))))
        loc = _loc_value(case["loc"], rs, n)
        mscale = 10.0 ** case.get("scale_k", 0)
        stdf = (1.0 / np.sqrt(mscale)) if fam == "GMRF" else mscale
        loc = loc * stdf
        if fam == "GMRF":
            k, obj = core.outcome(D.GMRF, loc, float(rs.uniform(0.5, 20)) * mscale, bc_type=bc, order=case["order"], geometry=geom, name="x")
        elif fam == "CMRF":
            k, obj = core.outcome(D.CMRF, loc, float(rs.uniform(0.05, 2)) * mscale, bc_type=bc, geometry=geom, name="x")
        else:
            k, obj = core.outcome(D.LMRF, loc, float(rs.uniform(0.05, 2)), bc_type=bc, geometry=geom, name="x")
            must_refuse = True
        if k != "value":
            ctx.refused("ctor", obj); return None
        mu = np.broadcast_to(np.asarray(loc, dtype=float).reshape(-1), (n,)) if np.ndim(loc) else np.full(n, float(loc))
        for sc in (0.1, 1.0, 5.0):
            points.append((mu + sc * stdf * rs.standard_normal(n), False, f"inside_{sc}"))
        pr.cfg.update(geom=gk)
    elif fam in ("Cauchy", "SmoothedLaplace", "Laplace", "Normal"):
        gk = case.get("geom", "default")
        geom, _ = _geom(gk, n)
        mscale = 10.0 ** case.get("scale_k", 0)
        loc = _loc_value(case["loc"], rs, n) * mscale
        sc = (float(rs.uniform(0.2, 3)) if case["form"] == "scalar" else rs.uniform(0.2, 3, n)) * mscale
        if case["form"] == "bad_scale":
            sc = rs.uniform(0.2, 3, n); sc[rs.randint(n)] = -0.5
        if fam == "Cauchy":
            obj = D.Cauchy(loc, sc, geometry=geom, name="x")
            must_refuse = gk in REFUSE_GEOMS
        elif fam == "SmoothedLaplace":
            obj = D.SmoothedLaplace(loc, sc, case["beta"] * mscale ** 2, geometry=geom, name="x")
        elif fam == "Laplace":
            obj = D.Laplace(loc, sc, geometry=geom, name="x"); must_refuse = True
        else:
            obj = D.Normal(loc, sc, geometry=geom, name="x"); must_refuse = True
        mu = np.broadcast_to(np.asarray(loc, dtype=float).reshape(-1), (n,)) if np.ndim(loc) else np.full(n, float(loc))
        if case["form"] == "bad_scale":
            points.append((mu + rs.standard_normal(n), True, "bad_scale"))
        else:
            for s_ in (0.05, 1.0, 10.0):
                points.append((mu + s_ * mscale * rs.standard_normal(n), False, f"inside_{s_}"))
    elif fam in ("Beta", "Gamma"):
        a = float(rs.uniform(0.5, 5)) if case["form"] != "vector" else rs.uniform(0.5, 5, n)
        b = float(rs.uniform(0.5, 5)) if case["form2"] == "scalar" else rs.uniform(0.5, 5, n)
        if fam == "Beta":
            if case["form"] == "bad_alpha":
                a = -1.0
            obj = D.Beta(a, b, geometry=n, name="x")
            if case["form"] == "bad_alpha":
                points.append((rs.uniform(0.1, 0.9, n), True, "bad_alpha"))
            else:
                points.append((rs.uniform(0.02, 0.98, n), False, "inside"))
                points.append((rs.uniform(0.2, 0.8, n), False, "inside"))
                x = rs.uniform(0.1, 0.9, n); x[0] = 1e-6; x[-1] = 1 - 1e-6
                points.append((x, False, "near_edge"))
                for bad in (-0.3, 0.0, 1.0, 1.4):
                    x = rs.uniform(0.1, 0.9, n); x[rs.randint(n)] = bad
                    points.append((x, True, f"outside_{bad}"))
        else:
            obj = D.Gamma(a, b, geometry=n, name="x"); must_refuse = True
            points.append((rs.uniform(0.2, 4, n), False, "inside"))
    elif fam == "InverseGamma":
        ms = 10.0 ** case.get("scale_k", 0)
        loc = _loc_value(case["loc"], rs, n) * ms
        sh = float(rs.uniform(1, 5)) if case["form"] == "scalar" else rs.uniform(1, 5, n)
        sc = (float(rs.uniform(0.3, 3)) if case["form"] == "scalar" else rs.uniform(0.3, 3, n)) * ms
        obj = D.InverseGamma(sh, loc, sc, geometry=n, name="x")
        mu = np.broadcast_to(np.asarray(loc, dtype=float).reshape(-1), (n,)) if np.ndim(loc) else np.full(n, float(loc))
        points.append((mu + ms * rs.uniform(0.1, 3, n), False, "inside"))
        points.append((mu + ms * rs.uniform(0.3, 1.5, n), False, "inside"))
        x = mu + ms * rs.uniform(0.3, 2, n); x[0] = mu[0] + ms * 2e-2
        points.append((x, False, "near_edge"))
        for bad in (-0.5, 0.0):
            x = mu + ms * rs.uniform(0.3, 2, n); j = rs.randint(n); x[j] = mu[j] + ms * bad
            points.append((x, True, f"outside_{bad}"))
    elif fam == "Lognormal":
        loc = _loc_value(case["loc"], rs, n)
        if np.ndim(loc):
            loc = 0.4 * loc
        sk = case.get("scale_k")
        cov = _form_value(case["form"], rs, n, scale=1.0 if sk is None else 10.0 ** sk)
        if case["form"] in ("scalar", "vector", "diagmat"):
            cov = cov * 0.4
        k, obj = core.outcome(D.Lognormal, loc, cov, geometry=n, name="x")
        if k != "value":
            ctx.refused("ctor", obj); return None
        if sk is None:
            points.append((np.exp(0.5 * rs.standard_normal(n)), False, "inside"))
            points.append((np.exp(1.0 * rs.standard_normal(n)), False, "inside"))
            x = np.exp(0.5 * rs.standard_normal(n)); x[0] = 1e-3
            points.append((x, False, "near_edge"))
        else:
            mu_l = np.broadcast_to(np.asarray(loc, dtype=float).reshape(-1), (n,)) if np.ndim(loc) else np.full(n, float(loc))
            for c_ in (0.5, 1.5):
                points.append((np.exp(mu_l + c_ * 10.0 ** (sk / 2.0) * rs.standard_normal(n)), False, "inside"))
        for bad in (-0.3, 0.0):
            x = np.exp(0.5 * rs.standard_normal(n)); x[rs.randint(n)] = bad
            points.append((x, True, f"outside_{bad}"))
    elif fam == "ModifiedHalfNormal":
        if case["dim1"]:
            n = 1
        else:
            n = 3
        pr.cfg.update(dim_gt1=not case["dim1"])
        mk = (lambda lo, hi: float(rs.uniform(lo, hi))) if case["form"] == "scalar" else (lambda lo, hi: rs.uniform(lo, hi, n))
        obj = D.ModifiedHalfNormal(mk(0.5, 5), mk(0.2, 3), mk(-2, 2), geometry=n, name="x")
        points.append((rs.uniform(0.1, 3, n), False, "inside"))
        points.append((rs.uniform(0.5, 2, n), False, "inside"))
        x = rs.uniform(0.5, 2, n); x[0] = -0.4
        points.append((x, True, "outside"))
    elif fam == "Uniform":
        ms = 10.0 ** case.get("scale_k", 0)
        loc = _loc_value(case["loc"], rs, n) * ms
        w = (float(rs.uniform(0.5, 3)) if case["form"] == "scalar" else rs.uniform(0.5, 3, n)) * ms
        low = loc if np.ndim(loc) else (float(loc) if case["form"] == "scalar" else np.full(n, float(loc)))
        high = low + w
        obj = D.Uniform(low, high, geometry=n, name="x")
        lo_v = np.broadcast_to(np.asarray(low, dtype=float).reshape(-1), (n,)).copy()
        hi_v = np.broadcast_to(np.asarray(high, dtype=float).reshape(-1), (n,)).copy()
        points.append((lo_v + rs.uniform(0.1, 0.9, n) * (hi_v - lo_v), False, "inside"))
        x = lo_v + rs.uniform(0.1, 0.9, n) * (hi_v - lo_v); x[0] = lo_v[0]; x[-1] = hi_v[-1]
        points.append((x, False, "on_edge"))
        for t in (-0.5, 1.5):
            x = lo_v + rs.uniform(0.1, 0.9, n) * (hi_v - lo_v); j = rs.randint(n); x[j] = lo_v[j] + t * (hi_v[j] - lo_v[j])
            points.append((x, True, f"outside_{t}"))
    elif fam == "UserDefined":
        S = _spd(rs, n)
        logpdf = lambda x: float(-0.5 * np.atleast_1d(x) @ S @ np.atleast_1d(x) + np.sum(np.sin(x)))
        grad = (lambda x: -S @ np.atleast_1d(x) + np.cos(np.atleast_1d(x))) if case["form"] == "with_gradient" else None
        obj = D.UserDefinedDistribution(dim=n, logpdf_func=logpdf, gradient_func=grad, name="x")
        must_refuse = grad is None
        points.append((rs.standard_normal(n), False, "inside"))
        points.append((3 * rs.standard_normal(n), False, "inside"))
    elif fam == "JointGaussianSqrtPrec":
        obj = D.JointGaussianSqrtPrec([rs.standard_normal(n), rs.standard_normal(n)], [np.eye(n), 2 * np.eye(n)], name="x")
        must_refuse = True
        points.append((rs.standard_normal(n), False, "inside"))
    elif fam == "Gallery":
        n = 2
        obj = D.DistributionGallery(case["form"], name="x")
        for s_ in (0.3, 1.0, 2.5):
            points.append((s_ * rs.standard_normal(2) + (np.array([0, 2.0]) if case["form"] == "banana" else 0), False, f"inside_{s_}"))
    else:
        raise ValueError(fam)
    return obj, points, must_refuse


def _probe_dist(case, ctx, mon, rs, pr, obj, points, must_refuse):
    fam = case["family"]
    inside = [p for p in points if not p[1]]
    for x, outside, label in points:
        pr.call(obj, x, outside=outside, must_refuse=must_refuse and not outside, extra={"point": label.split("_")[0]})
    # representation of the point: python list and (dim 1) python float
    if inside and fam not in ("ModifiedHalfNormal",):
        pr.call(obj, list(inside[0][0]), must_refuse=must_refuse, extra={"point": "list"})
        if len(inside[0][0]) == 1:
            pr.call(obj, float(inside[0][0][0]), must_refuse=must_refuse, extra={"point": "float"})
            k, e = core.outcome(obj.enable_FD)
            pr.call(obj, float(inside[0][0][0]), extra={"point": "float", "fd_eps": "default"})
            obj.disable_FD()
    # the finite-difference option: on with several epsilons (also where no analytic gradient exists), then off
    if inside and fam != "JointGaussianSqrtPrec":
        x = inside[min(1, len(inside) - 1)][0]
        _fd_cycle(pr, obj, x, rs)
        outs = [p for p in points if p[1]]
        if outs:
            obj.enable_FD()
            pr.call(obj, outs[0][0], outside=True, extra={"point": "outside", "fd_eps": "default"})
            obj.disable_FD()
        pr.call(obj, x, must_refuse=must_refuse, extra={"point": "after_fd_off"})


def _prior(kind, n, geomkind, rs, geom_obj=None):
    """Prior of the given family for `n` parameters. Returns (prior, positive_support?, refuses?)."""
    import cuqi
    D = cuqi.distribution
    loc = rs.standard_normal(n) * 0.5 + 0.3
    if kind == "gaussian_cov":
        return D.Gaussian(loc, _form_value(rs.choice(["scalar", "vector", "full"]), rs, n), name="x"), False, False
    if kind == "gaussian_prec":
        return D.Gaussian(loc, prec=_form_value(rs.choice(["arr1", "vector", "full", "sparse_diag"]), rs, n), name="x"), False, False
    if kind == "gaussian_geom":
        geom = geom_obj if geom_obj is not None else _geom(geomkind, n)[0]     # the model's own domain geometry object
        return D.Gaussian(loc, _form_value("vector", rs, n), geometry=geom, name="x"), False, False
    N = int(round(np.sqrt(n)))
    mrf_geom = (N, N) if (N * N == n and n >= 9 and rs.uniform() < 0.5) else n
    bc = rs.choice(list(BCS))
    if kind == "gmrf":
        return D.GMRF(loc, float(rs.uniform(0.5, 10)), bc_type=bc, order=int(rs.choice([0, 1] if n < 5 else [0, 1, 2])), geometry=mrf_geom, name="x"), False, False
    if kind == "cmrf":
        return D.CMRF(loc, float(rs.uniform(0.1, 2)), bc_type=bc, geometry=mrf_geom, name="x"), False, False
    if kind == "lmrf":
        return D.LMRF(loc, float(rs.uniform(0.1, 2)), bc_type=bc, geometry=mrf_geom, name="x"), False, True
    if kind == "cauchy":
        return D.Cauchy(loc, rs.uniform(0.2, 2, n), name="x"), False, False
    if kind == "smoothedlaplace":
        return D.SmoothedLaplace(loc, rs.uniform(0.2, 2, n), 1e-2, name="x"), False, False
    if kind == "laplace":
        return D.Laplace(loc, 1.0, name="x"), False, True
    if kind == "beta":
        return D.Beta(rs.uniform(1, 4, n), rs.uniform(1, 4, n), name="x"), "unit", False
    if kind == "inversegamma":
        return D.InverseGamma(rs.uniform(1, 4, n), np.zeros(n), rs.uniform(0.5, 2, n), name="x"), True, False
    if kind == "lognormal":
        return D.Lognormal(0.2 * loc, 0.4 * _form_value("vector", rs, n), name="x"), True, False
    if kind == "uniform":
        return D.Uniform(-3 * np.ones(n), 3 * np.ones(n), name="x"), False, False
    if kind == "userdefined":
        S = _spd(rs, n)
        return D.UserDefinedDistribution(dim=n, logpdf_func=lambda x: float(-0.5 * x @ S @ x), gradient_func=lambda x: -S @ x, name="x"), False, False
    raise ValueError(kind)


def _make_likelihood(case_model, dgeom, data_form, rgeom, n, m, rs, name="y"):
    """Returns (likelihood, model, x_true, is_lognormal) or raises a refusal type."""
    import cuqi
    geom, fs = _geom(dgeom, n)
    model = _model(case_model, geom, fs, m, rs)
    if rgeom == "cont1d":
        model.range_geometry = cuqi.geometry.Continuous1D(m)
    elif rgeom == "mapped":
        model.range_geometry = cuqi.geometry.MappedGeometry(cuqi.geometry.Continuous1D(m), map=lambda p: 2 * p, imap=lambda f: f / 2)
    y, is_ln = _data_dist(data_form, model, m, rs, name=name)
    x_true = _x_for(dgeom, n, rs)
    clean = np.asarray(model.forward(x_true), dtype=float).reshape(-1)
    noise = 0.3 * rs.standard_normal(m)
    data = np.exp(clean + noise) if is_ln else clean + noise
    return y(**{name: data}), model, x_true, is_ln


def _n_for(dgeom, rs):
    if dgeom.startswith("image2d"):
        return int(rs.choice([4, 9]))
    return int(rs.choice([2, 3, 4, 5, 6]))


def _call_with_cuqiarray(pr, obj, x, geometry, must_refuse):
    """The same point handed over as a CUQIarray of parameters on the model's domain geometry."""
    import cuqi
    k, xa = core.outcome(cuqi.array.CUQIarray, np.array(x, dtype=float), is_par=True, geometry=geometry)
    if k == "value":
        pr.call(obj, xa, must_refuse=must_refuse, chain=True, extra={"point": "cuqiarray"})


def _user_likelihood(n, m, rs):
    """UserDefinedLikelihood wrapping a smooth log-likelihood with its true gradient."""
    import cuqi
    A = rs.standard_normal((m, n)) / np.sqrt(n)
    d = rs.standard_normal(m)
    w = rs.uniform(0.5, 3, m)
    logpdf = lambda x: float(-0.5 * np.sum(w * (A @ np.sin(x) - d) ** 2))
    grad = lambda x: -np.cos(x) * (A.T @ (w * (A @ np.sin(x) - d)))
    return cuqi.likelihood.UserDefinedLikelihood(dim=n, logpdf_func=logpdf, gradient_func=grad, name="y")


def _run_lik(case, ctx, mon, rs):
    cfg = _cfg(case); cfg["rgeom"] = case["rgeom"]
    pr = Probe(ctx, mon, cfg)
    n = _n_for(case["dgeom"], rs); m = int(rs.choice([1, 2, 3, 5, 7]))
    st = rs.get_state()
    k, res = core.outcome(_make_likelihood, case["model"], case["dgeom"], case["data"], case["rgeom"], n, m, rs)
    if k != "value":
        ctx.refused("build", res); ctx.count("build_refused")
        return
    L, model, x_true, is_ln = res
    if case["data"].endswith("sparse_full"):
        rs2 = np.random.RandomState(); rs2.set_state(st)
        k2, res2 = core.outcome(_make_likelihood, case["model"], case["dgeom"], case["data"].replace("sparse_full", "full"), case["rgeom"], n, m, rs2)
        if k2 == "value":
            mon.fallback[id(L)] = res2[0].logd
    must_refuse = (case["model"] == "nograd" or case["dgeom"] in REFUSE_GEOMS or case["rgeom"] == "mapped"
                   or case["data"] in ("prec:scalar",) and m > 1 or case["data"].startswith("sqrtprec"))
    xs = [x_true + 0.3 * rs.standard_normal(n), _x_for(case["dgeom"], n, rs)]
    for x in xs:
        pr.call(L, x, must_refuse=must_refuse, chain=True)
    _call_with_cuqiarray(pr, L, xs[0], model.domain_geometry, must_refuse)
    # the conditional data distribution called directly: gradient(data, x) w.r.t. the conditioning variable
    pr.call(L.distribution, L.data, xs[0], must_refuse=must_refuse, chain=True, extra={"call": "conditional"})
    if case["data"] in ("prec:sparse_full",):
        ctx.count("logd_unavailable_forms")
    _fd_cycle(pr, L, xs[1], rs, chain=True, n_eps=2)
    pr.call(L, xs[1], must_refuse=must_refuse, chain=True, extra={"point": "after_fd_off"})
    if is_ln:
        # a non-positive datum is outside the support of the data distribution
        y = L.distribution
        bad = np.array(L.data, dtype=float); bad[rs.randint(m)] = -0.5
        pr.call(y(y=bad), xs[0], outside=True, chain=True, extra={"point": "outside"})


def _run_post(case, ctx, mon, rs):
    import cuqi
    cfg = _cfg(case)
    pr = Probe(ctx, mon, cfg)
    n = _n_for(case["dgeom"], rs) if case["prior"] not in ("gmrf", "cmrf", "lmrf") else (9 if case["dgeom"].startswith("image2d") else int(rs.choice([4, 5, 6])))
    if case["dgeom"].startswith("image2d") and case["prior"] in ("gmrf", "cmrf", "lmrf"):
        n = 9
    m = int(rs.choice([2, 3, 5]))
    if case["prior"] == "hier_gaussian":
        return _run_hier(case, ctx, mon, rs, pr, n, m)
    if case["model"] == "userlik":
        L, model, x_true, is_ln = _user_likelihood(n, m, rs), None, rs.standard_normal(n), False
    else:
        k, res = core.outcome(_make_likelihood, case["model"], case["dgeom"], case["data"], "default", n, m, rs)
        if k != "value":
            ctx.refused("build", res); ctx.count("build_refused"); return
        L, model, x_true, is_ln = res
    k, res = core.outcome(_prior, case["prior"], n, case["dgeom"], rs, model.domain_geometry if model is not None else None)
    if k != "value":
        ctx.refused("build_prior", res); ctx.count("build_refused"); return
    prior, positive, prior_refuses = res
    k, P = core.outcome(cuqi.distribution.Posterior, L, prior)
    if k != "value":
        ctx.refused("build_posterior", P); ctx.count("build_refused"); return
    must_refuse = case["model"] == "nograd" or case["dgeom"] in REFUSE_GEOMS or prior_refuses or case["data"].startswith("sqrtprec")
    if positive == "unit":
        xs = [rs.uniform(0.1, 0.9, n), rs.uniform(0.2, 0.8, n)]
    elif positive:
        xs = [np.exp(0.4 * rs.standard_normal(n)), np.exp(0.4 * rs.standard_normal(n))]
    else:
        xs = [x_true + 0.3 * rs.standard_normal(n), _x_for(case["dgeom"], n, rs)]
    for x in xs:
        pr.call(P, x, must_refuse=must_refuse, chain=True)
    if model is not None:
        _call_with_cuqiarray(pr, P, xs[0], model.domain_geometry, must_refuse)
    _fd_cycle(pr, P, xs[1], rs, chain=True, n_eps=2)
    pr.call(P, xs[1], must_refuse=must_refuse, chain=True, extra={"point": "after_fd_off"})
    if positive:
        bad = xs[0].copy(); bad[rs.randint(n)] = -0.2
        pr.call(P, bad, outside=True, chain=True, extra={"point": "outside"})


def _run_hier(case, ctx, mon, rs, pr, n, m):
    """Posterior of x obtained by conditioning a hierarchical joint p(s) p(x|s) p(y|x,s) on y and on the hyper-parameter s."""
    import cuqi
    D = cuqi.distribution
    geom, fs = _geom(case["dgeom"], n)
    def build():
        model = _model(case["model"], geom, fs, m, rs)
        c1, c2 = float(rs.uniform(0.5, 3)), float(rs.uniform(0.2, 2))
        mu = rs.standard_normal(n)
        s = D.Gamma(2.0, 1.0, name="s")
        x = D.Gaussian(mu, cov=lambda s: c1 / s, name="x")
        y = D.Gaussian(model, cov=lambda s: c2 / s, name="y")
        x_true = _x_for(case["dgeom"], n, rs)
        data = np.asarray(model.forward(x_true), dtype=float).reshape(-1) + 0.3 * rs.standard_normal(m)
        return D.JointDistribution(s, x, y)(y=data, s=float(rs.uniform(0.5, 4))), x_true
    k, res = core.outcome(build)
    if k != "value":
        ctx.refused("build", res); ctx.count("build_refused"); return
    P, x_true = res
    for x in (x_true + 0.3 * rs.standard_normal(n), _x_for(case["dgeom"], n, rs)):
        pr.call(P, x, chain=True, extra={"ctor": "hierarchical"})
    _fd_cycle(pr, P, x_true, rs, chain=True, n_eps=1, extra={"ctor": "hierarchical"})


def _run_scaled(case, ctx, mon, rs):
    """Likelihoods and posteriors whose noise / prior matrices are multiplied by 10^k (and models by 10^a):
    every quantity is generated on the matching scale, so the problem stays well posed at every magnitude."""
    import cuqi
    D = cuqi.distribution
    cfg = _cfg(case)
    pr = Probe(ctx, mon, cfg)
    n = int(rs.choice([2, 3, 4, 5])); m = int(rs.choice([2, 3, 4, 5]))
    amp = 10.0 ** case.get("amp_k", 0)
    nparam, nform = case["data"].split(":")
    nscale = 10.0 ** case["noise_k"]
    nstd = _std_factor(nparam, nscale)
    if case["role"] == "post" and case["prior"].startswith("gmrf") and n < 3:
        n = 3
    st = rs.get_state()

    def build(noise_form, rs):
        model = _model(case["model"], n, (n,), m, rs)
        if amp != 1.0:
            inner = model
            model = (cuqi.model.LinearModel(inner.get_matrix() * amp) if case["model"] == "matrix" else
                     cuqi.model.Model(lambda x: amp * inner._forward_func(x), m, n,
                                      gradient=lambda direction, wrt: amp * inner._gradient_func(direction, wrt)))
        y = D.Gaussian(model, **{nparam: _form_value(noise_form, rs, m, sqrt=nparam.startswith("sqrt"), scale=nscale)}, name="y")
        if case["role"] == "post":
            pparam, pform = case["prior"].split(":")
            pscale = 10.0 ** case["scale_k"]
            pstd = _std_factor("prec" if pparam == "gmrf" else pparam, pscale)
            mean = pstd * (rs.standard_normal(n) + 1.0)
            if pparam == "gmrf":
                prior = D.GMRF(mean, float(rs.uniform(0.5, 5)) * pscale, bc_type=str(rs.choice(list(BCS))), order=int(rs.choice([0, 1])),
                               geometry=n, name="x")
            else:
                prior = D.Gaussian(mean, **{pparam: _form_value(pform, rs, n, sqrt=pparam.startswith("sqrt"), scale=pscale)}, name="x")
            xsc = pstd
            x_true = mean + pstd * rs.standard_normal(n)
        else:
            prior = None
            xsc = max(1.0, nstd / amp)          # far enough from the data for the misfit to be visible next to the constant
            x_true = xsc * rs.standard_normal(n)
        data = np.asarray(model.forward(x_true), dtype=float).reshape(-1) + nstd * rs.standard_normal(m)
        L = y(y=data)
        return L, (D.Posterior(L, prior) if prior is not None else None), x_true, xsc

    k, res = core.outcome(build, nform, rs)
    if k != "value":
        ctx.refused("build", res); ctx.count("build_refused"); return
    L, P, x_true, xsc = res
    target = P if P is not None else L
    if nform.startswith("sparse_") and P is None:
        rs2 = np.random.RandomState(); rs2.set_state(st)
        k2, res2 = core.outcome(build, nform[7:], rs2)
        if k2 == "value":
            mon.fallback[id(L)] = res2[0].logd
    must_refuse = nparam == "sqrtprec"
    xs = [x_true + 0.3 * xsc * rs.standard_normal(n), x_true + 1.0 * xsc * rs.standard_normal(n)]
    for x in xs:
        pr.call(target, x, must_refuse=must_refuse, chain=True)
        ctx.count("scaled_problem_calls")
    if P is not None:
        pr.call(L, xs[0], must_refuse=must_refuse, chain=True)
    _fd_cycle(pr, target, xs[0], rs, chain=True, n_eps=1)


COND_KS = (2, 4, 6, 8, 10, 12, 14)


def _illcond_spectrum(case, rs, n):
    """Eigenvalues of the covariance (descending) and the condition number the harness hands in."""
    if case["cond"] == "lowrank":
        r = int(rs.choice([1, 3]))
        s = np.logspace(0, -6, n)
        s[-r:] *= 1e-10                                  # numerically low rank: the last r directions are ~1e-16 relative
    else:
        s = np.logspace(0, -float(case["cond"]), n)
    return s, float(s.max() / s.min())


def _illcond_value(param, form, Q, s, perm):
    """The matrix parameter with covariance eigenvalues s (eigenvectors Q for the full forms)."""
    import scipy.sparse as sp
    ev = {"cov": s, "prec": 1.0 / s, "sqrtcov": np.sqrt(s), "sqrtprec": 1.0 / np.sqrt(s)}[param]
    if form == "vector":
        return ev[perm]
    if form == "diagmat":
        return np.diag(ev[perm])
    M = (Q * ev) @ Q.T
    M = 0.5 * (M + M.T)
    return M if form == "full" else sp.csc_matrix(M)


def _directional_check(pr, ctx, obj, x, g, dirs, allow, cfg):
    """g.v against the error-estimated derivative of t -> logd(x + t*sigma*v) of the same object, for eigen-directions
    (sigma = that direction's standard deviation) and random directions; a direction the log-density ignores must have
    a gradient component that vanishes on the scale of the whole gradient."""
    g = np.asarray(g, dtype=float).reshape(-1)
    if g.size != x.size or not np.all(np.isfinite(g)):
        return
    gnorm = float(np.linalg.norm(g))
    for v, sig, lab in dirs:
        f = lambda t: FD._scalar(obj.logd(x + float(t[0]) * sig * v))
        try:
            R, err, _ = FD.richardson_gradient(f, np.zeros(1))
        except Exception:  # noqa
            ctx.count("unjudged"); continue
        ref, e = R[0] / sig, err[0] / sig
        if not np.isfinite(ref) or e > max(POOR_REF, allow) * max(gnorm, abs(ref)):
            ctx.count("unjudged:directional reference not accurate enough"); continue
        gv = float(g @ v)
        tol = ERR_FACTOR * e + RTOL_COMP * abs(ref) + (RTOL_VEC + allow) * gnorm
        ctx.count("directional_derivatives_compared")
        ctx.count("illcond_compared")
        if abs(gv - ref) > 0.01 * tol:
            ctx.count("low_headroom_directional")
        if not abs(gv - ref) <= tol:
            ctx.violation("gradient_mismatch", {**cfg, "cls": type(obj).__name__, "mode": "analytic", "nested": False, "direction": lab.rstrip("0123456789")},
                          detail=f"{type(obj).__name__}.gradient: component along {lab} direction (std {sig:.3g}) is {gv!r}, the derivative of the "
                                 f"object's own logd along it is {ref!r} (+-{e:.2g}, tol {tol:.2g}); |gradient|={gnorm:.3g}")


def _run_illcond(case, ctx, mon, rs):
    """Large (dim just above cuqi.config.MIN_DIM_SPARSE, or the threshold lowered at run time) and ill-conditioned
    Gaussians in all four parameterisations: as prior, as noise model of a Likelihood/Posterior over a LinearModel,
    and as prior inside a Posterior."""
    import cuqi
    D = cuqi.distribution
    cfg = _cfg(case)
    pr = Probe(ctx, mon, cfg)
    old_threshold = cuqi.config.MIN_DIM_SPARSE
    try:
        if case["dimmode"] == "lowered":
            cuqi.config.MIN_DIM_SPARSE = int(rs.choice([3, 5]))
            n = int(rs.choice([8, 10, 14]))
        elif case["dimmode"] == "below":
            n = int(rs.choice([8, 10, 14]))              # dense small-dimension branch with the same spectra
        else:
            n = int(rs.choice([76, 80, 90, 100, 120]))
        s, cond = _illcond_spectrum(case, rs, n)
        Qm, _ = np.linalg.qr(rs.standard_normal((n, n)))
        perm = rs.permutation(n)
        full = case["form"] in ("full", "sparse_full")
        if not full:                                        # axis-aligned: eigenvectors are unit vectors
            Qm = np.eye(n)[:, np.argsort(perm)]
        param = case["param"]
        allow = float(min(1e5 * FD.EPS * cond, 0.5))
        mon.cond_allow = allow
        val = _illcond_value(param, case["form"], Qm, s, perm)
        draw = lambda: (Qm * np.sqrt(s)) @ rs.standard_normal(n)       # a draw of the Gaussian itself (zero mean)
        role = case["role"]
        before = pr.compared
        if role in ("prior", "post_prior"):
            mean = rs.standard_normal(n)
            k, X = core.outcome(D.Gaussian, mean, **{param: val}, name="x")
            if k != "value":
                ctx.refused("ctor", X); ctx.count("build_refused"); return
            if case["form"] == "sparse_full":
                k2, Xd = core.outcome(D.Gaussian, mean, **{param: val.toarray()}, name="x")
                if k2 == "value":
                    mon.fallback[id(X)] = Xd.logd
            pts = [mean + draw(), mean + 0.3 * rs.standard_normal(n)]
            if role == "prior":
                must_refuse = param == "sqrtprec"
                js = sorted(set([0, n // 4, n // 2, (3 * n) // 4, n - 3, n - 2, n - 1]))
                dirs = [(Qm[:, j], float(np.sqrt(s[j])), f"eigen{j}") for j in js]
                for v in rs.standard_normal((3, n)):
                    v = v / np.linalg.norm(v)
                    dirs.append((v, float(1.0 / np.sqrt(np.sum((Qm.T @ v) ** 2 / s))), "random"))
                for x in pts:
                    kind, g, top = pr.call(X, x, must_refuse=must_refuse)
                    if kind == "value" and g is not None and case["form"] != "sparse_full":
                        mon.enabled = False
                        try:
                            _directional_check(pr, ctx, X, x, g, dirs, allow, pr.cfg)
                        finally:
                            mon.enabled = True
                _fd_cycle(pr, X, pts[0], rs, n_eps=1)
            else:
                mo = int(rs.choice([2, 3, 5]))
                A = cuqi.model.LinearModel(rs.standard_normal((mo, n)) / np.sqrt(n))
                y = D.Gaussian(A, float(rs.uniform(0.05, 0.5)), name="y")
                L = y(y=A @ pts[0] + 0.1 * rs.standard_normal(mo))
                k, P = core.outcome(D.Posterior, L, X)
                if k != "value":
                    ctx.refused("build", P); ctx.count("build_refused"); return
                for x in pts:
                    pr.call(P, x, must_refuse=param == "sqrtprec", chain=True)
                _fd_cycle(pr, P, pts[0], rs, chain=True, n_eps=1)
        else:
            mz = int(rs.choice([2, 3, 5]))
            Amat = rs.standard_normal((n, mz)) / np.sqrt(mz)
            A = cuqi.model.LinearModel(Amat)
            k, y = core.outcome(D.Gaussian, A, **{param: val}, name="y")
            if k != "value":
                ctx.refused("ctor", y); ctx.count("build_refused"); return
            z_true = rs.standard_normal(mz)
            data = Amat @ z_true + draw()
            L = y(y=data)
            if case["form"] == "sparse_full":
                k2, yd = core.outcome(D.Gaussian, A, **{param: val.toarray()}, name="y")
                if k2 == "value":
                    mon.fallback[id(L)] = yd(y=data).logd
            target = L if role == "lik" else D.Posterior(L, D.Gaussian(np.zeros(mz), float(rs.uniform(0.5, 2)), name="x"))
            must_refuse = param == "sqrtprec"
            for q in (z_true + 1e-3 * rs.standard_normal(mz), z_true + 0.3 * rs.standard_normal(mz)):
                pr.call(target, q, must_refuse=must_refuse, chain=True)
            _fd_cycle(pr, target, z_true + 1e-3 * rs.standard_normal(mz), rs, chain=True, n_eps=1)
        ctx.count("illcond_compared", pr.compared - before)
        ctx.count("illcond_cases_run")
    finally:
        cuqi.config.MIN_DIM_SPARSE = old_threshold
        mon.cond_allow = 0.0


SHAPE_RETURNS = ("2d", "1d", "list2d", "list1d")


def _run_shape(case, ctx, mon, rs):
    """Degenerate shapes: one parameter / many outputs and many parameters / one output, with the Jacobian (or the
    direction-Jacobian product) handed back as 2-D array, flattened 1-D array or (nested) python lists. The gradient of
    the Likelihood / Posterior must have as many entries as there are parameters and equal d logd/dx, or be refused."""
    import cuqi
    D = cuqi.distribution
    cfg = _cfg(case); cfg.update(shape=case["shape"], ret=case["ret"])
    pr = Probe(ctx, mon, cfg)
    n, m = {"1xm": (1, int(rs.choice([2, 3, 4, 6]))), "nx1": (int(rs.choice([2, 3, 4, 6])), 1), "1x1": (1, 1)}[case["shape"]]
    a = rs.standard_normal((m, n)); b = rs.standard_normal((m, n)) * 0.5
    flat = lambda x: np.atleast_1d(np.asarray(x, dtype=float)).reshape(-1)
    F = lambda x: a @ np.sin(flat(x)) + b @ (flat(x) ** 2)
    J = lambda x: a * np.cos(flat(x))[None, :] + 2 * b * flat(x)[None, :]
    ret = case["ret"]
    def shaped(M2):                                   # M2 is the 2-D (m, n) Jacobian
        if ret == "2d": return M2
        if ret == "1d": return M2.reshape(-1)
        if ret == "list2d": return M2.tolist()
        return M2.reshape(-1).tolist()
    if case["model"] == "jac":
        model = cuqi.model.Model(lambda x: F(x), m, n, jacobian=lambda x: shaped(J(x)))
    else:
        def vjp(direction, wrt):
            v = J(wrt).T @ flat(direction)            # (n,)
            if ret == "2d": return v
            if ret == "1d": return float(v[0]) if n == 1 else v
            if ret == "list2d": return v.tolist()
            return v.tolist() if n > 1 else [float(v[0])]
        model = cuqi.model.Model(lambda x: F(x), m, n, gradient=vjp)
    df = case["data"]
    def build():
        if df.startswith("lognormal"):
            y = D.Lognormal(model, 0.3 * _form_value(df.split(":")[1], rs, m), name="y")
            is_ln = True
        else:
            param, f = df.split(":")
            y = D.Gaussian(model, **{param: _form_value(f, rs, m, sqrt=param.startswith("sqrt"))}, name="y")
            is_ln = False
        x_true = rs.standard_normal(n)
        clean = F(x_true) + 0.2 * rs.standard_normal(m)
        data = np.exp(clean) if is_ln else clean
        if m == 1 and case.get("scalar_data"):
            data = float(data[0])
        L = y(y=data)
        prior = _prior(case["prior"], n, "default", rs)[0]
        return L, D.Posterior(L, prior), x_true
    k, res = core.outcome(build)
    if k != "value":
        ctx.refused("build", res); ctx.count("build_refused"); return
    L, P, x_true = res
    before = pr.compared
    xs = [x_true + 0.3 * rs.standard_normal(n), rs.standard_normal(n)]
    for x in xs:
        pr.call(L, x, chain=True)
        pr.call(P, x, chain=True)
    if n == 1:
        pr.call(L, float(xs[0][0]), chain=True, extra={"point": "float"})
        pr.call(P, float(xs[0][0]), chain=True, extra={"point": "float"})
    pr.call(L.distribution, L.data, xs[0], chain=True, extra={"call": "conditional"})
    _fd_cycle(pr, P, xs[1], rs, chain=True, n_eps=1)
    pr.call(P, xs[1], chain=True, extra={"point": "after_fd_off"})
    ctx.count("degenerate_shape_compared", pr.compared - before)


def _run_mlp(case, ctx, mon, rs):
    import cuqi
    D = cuqi.distribution
    cfg = _cfg(case); cfg["n_lik"] = len(case["models"]); cfg["ctor"] = case.get("ctor", "joint")
    pr = Probe(ctx, mon, cfg)
    n = int(rs.choice([3, 4, 5]))
    geom, fs = _geom(case["dgeom"], n)
    def build():
        ys, datas = [], {}
        x_true = _x_for(case["dgeom"], n, rs)
        for i, (mk, df) in enumerate(zip(case["models"], case["datas"])):
            m = int(rs.choice([2, 3, 4]))
            model = _model(mk, geom, fs, m, rs)
            y, is_ln = _data_dist(df, model, m, rs, name=f"y{i}")
            clean = np.asarray(model.forward(x_true), dtype=float).reshape(-1)
            d = clean + 0.3 * rs.standard_normal(m)
            datas[f"y{i}"] = np.exp(d) if is_ln else d
            ys.append(y)
        prior, _, refuses = _prior(case["prior"], n, case["dgeom"], rs)
        if case.get("ctor", "joint") == "joint":
            J = D.JointDistribution(prior, *ys)
            return J(**datas), x_true, refuses
        # built directly from likelihood objects; optionally with user-defined likelihood terms in between
        dens = [y(**{y.name: datas[y.name]}) for y in ys]
        if case["ctor"] == "direct_user":
            for j in range(int(rs.choice([1, 2]))):
                u = _user_likelihood(n, int(rs.choice([2, 3])), rs)
                u._name = f"u{j}"
                dens.insert(int(rs.randint(len(dens) + 1)), u)
        dens.insert(int(rs.randint(len(dens) + 1)), prior)
        return D.MultipleLikelihoodPosterior(*dens), x_true, refuses
    k, res = core.outcome(build)
    if k != "value":
        ctx.refused("build", res); ctx.count("build_refused"); return
    P, x_true, prior_refuses = res
    if not isinstance(P, D.MultipleLikelihoodPosterior):
        ctx.inconclusive(f"joint reduced to {type(P).__name__}"); return
    must_refuse = prior_refuses or case["dgeom"] in REFUSE_GEOMS
    for x in (x_true + 0.3 * rs.standard_normal(n), _x_for(case["dgeom"], n, rs)):
        pr.call(P, x, must_refuse=must_refuse, chain=True)
    # keyword call form
    pr.call(P, must_refuse=must_refuse, chain=True, extra={"call": "keyword"}, x=x_true)
    _fd_cycle(pr, P, x_true, rs, chain=True, n_eps=1)


def _run_pde(case, ctx, mon, rs):
    import cuqi
    D = cuqi.distribution
    cfg = _cfg(case); cfg["deriv"] = case["deriv"]
    pr = Probe(ctx, mon, cfg)
    N = int(rs.choice([4, 5, 6, 8]))
    m = int(rs.choice([2, 3, N]))
    O = rs.standard_normal((m, N))
    deriv = case["deriv"]
    if case["pde"] == "poisson":
        Dx, rhs, grid = RP.poisson_matrices(N, rs)
        n = N + 1
        form = RP.poisson_form(Dx, rhs)
        jac = lambda k: RP.poisson_jacobian(Dx, rhs, np.asarray(k, dtype=float), O)
        Base = cuqi.pde.SteadyStateLinearPDE
        kwargs = {}
        positive = True
    else:
        method = case["pde"][5:]
        Dxx, src, ts = RP.heat_matrices(N, int(rs.choice([3, 6, 10])), rs)
        n = N
        form = RP.heat_form(Dxx, src)
        Pm = RP.heat_propagator(Dxx, ts, method)
        jac = lambda ic: O @ Pm
        Base = cuqi.pde.TimeDependentLinearPDE
        kwargs = {"time_steps": ts, "method": method}
        positive = False
    if deriv == "jacobian":
        class PDEWithJacobian(Base):
            def jacobian_wrt_parameter(self, wrt):
                return jac(wrt)
        cls = PDEWithJacobian
    elif deriv == "gradient":
        class PDEWithGradient(Base):
            def gradient_wrt_parameter(self, direction, wrt):
                return direction @ jac(wrt)
        cls = PDEWithGradient
    else:
        cls = Base
    pde = cls(form, observation_map=lambda u: O @ u, **kwargs)
    geom, fs = _geom(case["dgeom"], n)
    def build():
        model = cuqi.model.PDEModel(pde, m, geom)
        y = D.Gaussian(model, _form_value(rs.choice(["scalar", "vector", "full"]), rs, m) * 0.05, name="y")
        mapped = case["dgeom"] in ("mapped_grad_exp", "mapped_nograd")
        x_true = 0.3 * rs.standard_normal(n) if (mapped or not positive) else np.exp(0.3 * rs.standard_normal(n))
        data = np.asarray(model.forward(x_true), dtype=float).reshape(-1) + 0.05 * rs.standard_normal(m)
        L = y(y=data)
        if positive and not mapped:
            prior = D.Lognormal(np.zeros(n), 0.3 * np.ones(n), name="x") if case["prior"] != "gaussian_cov" else D.Gaussian(np.ones(n), 0.2, name="x")
        else:
            prior = _prior(case["prior"], n, case["dgeom"], rs)[0]
        return L, D.Posterior(L, prior), x_true
    k, res = core.outcome(build)
    if k != "value":
        ctx.refused("build", res); ctx.count("build_refused"); return
    L, P, x_true = res
    must_refuse = deriv == "none" or case["dgeom"] in REFUSE_GEOMS
    x = x_true + (0.05 if positive else 0.3) * rs.standard_normal(n)
    if positive and case["dgeom"] not in ("mapped_grad_exp", "mapped_nograd"):
        x = np.abs(x) + 0.05
    pr.call(L, x, must_refuse=must_refuse, chain=True)
    pr.call(P, x, must_refuse=must_refuse, chain=True)
    pr.call(P, x_true, must_refuse=must_refuse, chain=True)
    _fd_cycle(pr, P, x, rs, chain=True, n_eps=1)


def _run_sampler(case, ctx, mon, rs):
    import cuqi
    cfg = _cfg(case)
    pr = Probe(ctx, mon, cfg)
    n = int(rs.choice([3, 4, 5])); m = int(rs.choice([3, 5]))
    k, res = core.outcome(_make_likelihood, case["model"], case["dgeom"], "cov:vector", "default", n, m, rs)
    if k != "value":
        ctx.refused("build", res); return
    L = res[0]
    prior = _prior(case["prior"], n, case["dgeom"], rs)[0]
    P = cuqi.distribution.Posterior(L, prior)
    x0 = res[2] + 0.1 * rs.standard_normal(n)
    name = case["sampler"]
    st = np.random.get_state()
    np.random.seed(int(rs.randint(2 ** 31 - 1)))
    n0 = len(mon.events)
    try:
        def run():
            if name == "NUTS":
                cuqi.sampler.NUTS(P, x0=x0, max_depth=4).sample(3, 3)
            elif name == "MALA":
                cuqi.sampler.MALA(P, scale=1e-3, x0=x0).sample(8)
            elif name == "ULA":
                cuqi.sampler.ULA(P, scale=1e-3, x0=x0).sample(8)
            elif name == "expNUTS":
                s = cuqi.experimental.mcmc.NUTS(P, initial_point=x0, max_depth=4); s.warmup(3); s.sample(3)
            elif name == "expMALA":
                s = cuqi.experimental.mcmc.MALA(P, scale=1e-3, initial_point=x0); s.sample(8)
            elif name == "expULA":
                s = cuqi.experimental.mcmc.ULA(P, scale=1e-3, initial_point=x0); s.sample(8)
            else:
                BP = cuqi.problem.BayesianProblem(L.distribution, prior).set_data(**{L.distribution.name: L.data})
                BP.MAP(disp=False, x0=x0)
        k, e = core.outcome(run)
    finally:
        np.random.set_state(st)
    if k != "value":
        ctx.refused(f"sampler_{name}", e)
    for ev in mon.events[n0:]:
        pr._book(ev, pr.cfg, nested=(ev["cls"] != "Posterior"), chain=True, via=name, outside=False)
    if mon.judge_errors:
        ctx.inconclusive("oracle raised: " + mon.judge_errors[-1][-200:]); ctx.count("harness_error"); del mon.judge_errors[:]


def _run_testproblem(case, ctx, mon, rs):
    import cuqi
    cfg = _cfg(case)
    pr = Probe(ctx, mon, cfg)
    name = case["name"]
    kw = {"Deconvolution1D": dict(dim=int(rs.choice([6, 8, 11])), PSF=str(rs.choice(["gauss", "sinc", "vonmises"]))),
          "WangCubic": {}, "Abel1D": dict(dim=int(rs.choice([6, 9]))), "Deconvolution2D": dict(dim=int(rs.choice([3, 4]))),
          "Poisson1D": dict(dim=int(rs.choice([6, 8]))), "Heat1D": dict(dim=int(rs.choice([6, 8])))}[name]
    st = np.random.get_state()
    np.random.seed(int(rs.randint(2 ** 31 - 1)))
    try:
        k, tp = core.outcome(lambda: getattr(cuqi.testproblem, name)(**kw))
    finally:
        np.random.set_state(st)
    if k != "value":
        ctx.refused("build", tp); return
    k, P = core.outcome(lambda: tp.posterior)
    if k != "value":
        ctx.refused("posterior", P); return
    n = P.dim
    must_refuse = name in ("Poisson1D", "Heat1D")
    for _ in range(2):
        x = np.abs(rs.standard_normal(n)) + 0.3 if must_refuse else rs.standard_normal(n)
        pr.call(P, x, must_refuse=must_refuse, chain=True)
        pr.call(P.likelihood, x, must_refuse=must_refuse, chain=True)
    _fd_cycle(pr, P, np.abs(rs.standard_normal(n)) + 0.3, rs, chain=True, n_eps=1)


_RUN = {"illcond": _run_illcond, "shape": _run_shape, "scaled": _run_scaled, "dist": _run_dist, "lik": _run_lik, "post": _run_post, "mlp": _run_mlp, "pde": _run_pde,
        "sampler": _run_sampler, "testproblem": _run_testproblem}


def run_case(case, ctx):
    import warnings
    rs = core.np_rng(ctx.seed, PROPERTY, case["s"], case["kind"])
    with warnings.catch_warnings():
        warnings.simplefilter("ignore")
        with np.errstate(all="ignore"):
            with GradMonitor() as mon:
                _RUN[case["kind"]](case, ctx, mon, rs)
                for k_, v in mon.log.evaluations.items():
                    ctx.count("contract:" + k_, v)


@contextlib.contextmanager
def gradient_contract(ctx, cfg=None):
    """For other checks (VERIF_CROSS=1): judge every gradient call made inside the block."""
    with GradMonitor() as mon:
        n0 = 0
        try:
            yield mon
        finally:
            pr = Probe(ctx, mon, cfg or {"kind": "cross"})
            for ev in mon.events[n0:]:
                pr._book(ev, pr.cfg, nested=True, chain=False, via="cross", outside=False)


def selftest(ctx):
    for msg in FD.selftest():
        ctx.inconclusive("c03_fd: " + msg)
    for msg in RP.selftest():
        ctx.inconclusive("c03_pde: " + msg)
    # the oracle must accept a correct gradient and reject a wrong one on a plain python object
    class Toy:
        FD_enabled = False
        def __init__(self, bad): self.bad = bad
        def logd(self, x): return float(-np.sum(np.cosh(x)) + x[0] * x[-1])
        def grad(self, x):
            g = -np.sinh(x); g[0] += x[-1]; g[-1] += x[0]
            return g * (1.0 + 1e-4) if self.bad else g
    x = np.array([0.3, -1.2, 2.0])
    for bad in (False, True):
        t = Toy(bad)
        ev = judge_call(t, (x,), {}, t.grad(x))
        if ev["status"] != ("mismatch" if bad else "ok"):
            ctx.inconclusive(f"oracle self-test: bad={bad} judged {ev['status']} {ev.get('why')}")
