"""C01 - conditioning a joint distribution preserves the joint log-density.

Workload: random model graphs (2-6 named variables) drawn from a grammar of roots (Gamma, InverseGamma,
Uniform, Beta, Normal, Gaussian, Lognormal, Cauchy, Laplace), hyper-parameters entering through callables
(one or two arguments, so the partial-application route is reached), field nodes (Gaussian in its four
parameter forms, GMRF, LMRF, CMRF, Laplace, Lognormal), 1-3 data nodes with lambda / LinearModel /
function-backed LinearModel / non-linear Model forward maps.  For every graph an admissible full assignment
and *conditioning programs*: every subset of the variables (sampled above 4 variables), fixed in one keyword
call, positionally, positional+keyword, one variable at a time in every order (sampled above 3), in random
groupings; evaluation of every intermediate object by keyword / position; the stacked view; the
BayesianProblem(...).set_data route; shared-prefix histories; standalone factor / likelihood programs and
malformed evaluations (missing / unknown / already fixed / doubly specified / too many positionals).

Monitors: the return value (or exception) of logd / __call__ of every object produced, with the reduction
branch taken (JointDistribution / Posterior / Distribution / MultipleLikelihoodPosterior / stacked /
EvaluatedDensity / Likelihood) recorded; get_parameter_names() of every object; the originals re-evaluated
at the end.

Oracle: (i) metamorphic  reduced.logd(rest) == joint.logd(all);  (ii) absolute  joint.logd(all) == sum of the
closed-form factor log-densities of vlib/refs/c01_graph.py (no cuqi import), posterior == log-lik + log-prior +
contributions of the fixed variables;  (iii) malformed evaluations must raise.
"""
import itertools, math
import numpy as np
from vlib import core
from vlib.refs import c01_graph as G

PROPERTY = "C01"
RULE = ("random model graphs (profile x families x link kinds x forward-model representation x density order) with "
        "programs = (subset of fixed variables) x (one call keyword / positional+keyword / one-at-a-time permutations / "
        "random groupings / stacked / BayesianProblem / shared-prefix history) x (keyword / positional evaluation); a case is "
        "non-trivial when at least one reduced object (not the original joint) was evaluated and compared with the joint "
        "log-density and the closed-form reference; distinct = distinct graph descriptors, sub-cases = reduction branch x "
        "program kind reached")
ASSUMPTIONS = [
    "closed-form factor densities of vlib/refs/c01_graph.py are self-tested against scipy.stats at start-up",
    "only evaluations (logd calls) with missing/unknown/doubly specified variables are required to raise; a conditioning "
    "call that silently ignores an unknown or already fixed keyword is counted (unjudged_*) but not judged",
    "wrong-length stacked vectors and wrong-shaped values are not judged (the property speaks about variables, not shapes)",
]
REQUIRED_COUNTERS = {
    "quick": {"metamorphic_checked": 14000, "absolute_joint_checked": 180, "absolute_factor_checked": 1900,
              "malformed_refused": 5500, "branch_Posterior": 1300, "branch_Distribution": 2400,
              "branch_MultipleLikelihoodPosterior": 1000, "branch_Stacked": 600, "branch_JointDistribution": 9000,
              "branch_EvaluatedDensity": 1200, "branch_Likelihood": 350, "posterior_decomposition_checked": 180,
              "bayesianproblem_checked": 300, "original_intact_checked": 60, "assembled_checked": 120,
              "history_recheck": 170, "partial_conditioning_checked": 120},
    "thorough": {"metamorphic_checked": 170000, "absolute_joint_checked": 2200, "absolute_factor_checked": 23000,
                 "malformed_refused": 66000, "branch_Posterior": 16000, "branch_Distribution": 30000,
                 "branch_MultipleLikelihoodPosterior": 12000, "branch_Stacked": 7000, "branch_JointDistribution": 110000,
                 "branch_EvaluatedDensity": 14000, "branch_Likelihood": 4300, "posterior_decomposition_checked": 2200,
                 "bayesianproblem_checked": 3700, "original_intact_checked": 700, "assembled_checked": 1500,
                 "history_recheck": 2100, "partial_conditioning_checked": 1400},
}
BUDGET_S = {"quick": 240.0, "thorough": 2400.0}

RTOL = 1e-7          # relative to 1 + sum |factor log-densities|; defects of interest are O(1)
BOGUS = "qq"         # a keyword that is never a variable name

# =========================================================================== structure generator

SCALAR_NAMES = ["z", "d", "l", "s", "a", "t"]
FIELD_NAMES = ["x", "m", "u", "w"]
DATA_NAMES = ["y", "b", "h"]

class _Gen:
    """Draws a structure descriptor (no numbers). Nodes are appended in topological order."""
    def __init__(self, R):
        self.R = R
        self.nodes = []
        self.free = {"s": list(SCALAR_NAMES), "f": list(FIELD_NAMES), "d": list(DATA_NAMES)}

    # -- parents available
    def _scal(self, sup):
        out = []
        for nd in self.nodes:
            if nd["dim"] != 1:
                continue
            s = G.SUPPORT[nd["fam"]]
            if sup == "pos" and s in ("pos", "unit", "box"):
                out.append(nd["name"])
            if sup == "real" and s == "real":
                out.append(nd["name"])
            if sup == "any":
                out.append(nd["name"])
        return out

    def _vecs(self, dim=None):
        return [nd["name"] for nd in self.nodes if nd["dim"] >= 2 and (dim is None or nd["dim"] == dim)
                and G.SUPPORT[nd["fam"]] == "real"]

    # -- links
    def pos_link(self, shape="scalar", dep=0.7, allow_vec_parent=True):
        R = self.R
        opts = []
        if R.random() < dep:
            pp, rr = self._scal("pos"), self._scal("real")
            if pp: opts += [("inv", 1), ("mul", 1)]
            if rr: opts += [("absc", 1), ("exp", 1)]
            if len(pp) >= 2: opts += [("inv2", 2), ("ratio", 2), ("inv2", 2)]
            if allow_vec_parent and self._vecs(): opts += [("normsq", 1)]
        if not opts:
            return {"k": "const", "role": "pos", "shape": shape}
        k, _ = R.choice(opts)
        if k in ("inv", "mul"): of = [R.choice(self._scal("pos"))]
        elif k in ("absc", "exp"): of = [R.choice(self._scal("real"))]
        elif k in ("inv2", "ratio"): of = R.sample(self._scal("pos"), 2)
        else: of = [R.choice(self._vecs())]
        return {"k": k, "of": of, "role": "pos", "shape": shape}

    def loc_link(self, dim, dep=0.6, need_vec=False):
        R = self.R
        shape = "scalar" if dim == 1 else R.choice(["vector", "vector", "scalar"])
        opts = []
        vec, same, sc = self._vecs(), self._vecs(dim), self._scal("any")
        if need_vec or R.random() < dep:
            if vec: opts += ["matvec", "matvec", "nonlin"]
            if len(vec) >= 2: opts += ["matvec2"]
            if vec and sc and not need_vec: opts += ["smatvec"]
            if same and dim >= 2: opts += ["ident"]
            if not need_vec:
                if sc: opts += ["lin"]
                if len(sc) >= 2: opts += ["lin2"]
        if not opts:
            return {"k": "const", "role": "loc", "shape": shape}
        k = R.choice(opts)
        if k in ("matvec", "nonlin"): of = [R.choice(vec)]
        elif k == "matvec2": of = R.sample(vec, 2)
        elif k == "smatvec": of = [R.choice(sc), R.choice(vec)]
        elif k == "ident": of = [R.choice(same)]
        elif k == "lin": of = [R.choice(sc)]
        else: of = R.sample(sc, 2)
        return {"k": k, "of": of, "role": "loc", "shape": "vector" if dim > 1 else "scalar"}

    def _add(self, pool, fam, dim, links, opts=None, via=None):
        name = self.free[pool].pop(0)
        self.nodes.append({"name": name, "fam": fam, "dim": dim, "opts": opts or {}, "links": links, "via": via or {}})
        return name

    def room(self):
        return len(self.nodes) < 6

    # -- node kinds
    def add_scalar(self, dep=0.7, fam=None):
        R = self.R
        fam = fam or R.choice(["Gamma", "Gamma", "InverseGamma", "Uniform", "Beta", "Lognormal", "Normal", "Normal",
                               "Gaussian", "Cauchy", "Laplace"])
        c = lambda role: {"k": "const", "role": role, "shape": "scalar"}
        if fam == "Gamma":
            shp = self.pos_link(dep=dep * 0.5, allow_vec_parent=False)
            if shp["k"] == "const": shp = c("shape")
            links = {"shape": shp, "rate": self.pos_link(dep=dep, allow_vec_parent=False)}
        elif fam == "InverseGamma":
            links = {"shape": c("shape"), "location": c("zero" if R.random() < 0.5 else "low"),
                     "scale": self.pos_link(dep=dep, allow_vec_parent=False)}
        elif fam == "Uniform":
            links = {"low": c("low"), "high": c("high")}
        elif fam == "Beta":
            al = self.pos_link(dep=dep * 0.6, allow_vec_parent=False)
            if al["k"] == "const": al = c("shape")
            links = {"alpha": al, "beta": c("shape")}
        elif fam == "Lognormal":
            links = {"mean": self.loc_link(1, dep=dep), "cov": {"k": "const", "role": "pos", "shape": "vector"}}
        elif fam == "Normal":
            links = {"mean": self.loc_link(1, dep=dep), "std": self.pos_link(dep=dep, allow_vec_parent=False)}
        elif fam == "Gaussian":
            form = R.choice(["cov", "prec", "sqrtcov", "sqrtprec"])
            links = {"mean": self.loc_link(1, dep=dep), form: self.pos_link(dep=dep, allow_vec_parent=False)}
            return self._add("s", fam, 1, links, {"form": form})
        elif fam == "Cauchy":
            links = {"location": self.loc_link(1, dep=dep), "scale": self.pos_link(dep=dep, allow_vec_parent=False)}
        elif fam == "Laplace":
            links = {"location": self.loc_link(1, dep=dep), "scale": self.pos_link(dep=dep, allow_vec_parent=False)}
        else:
            raise ValueError(fam)
        return self._add("s", fam, 1, links)

    def add_vector(self, pool, dim=None, dep=0.8, need_vec=False, fams=None):
        """A field (pool 'f') or data (pool 'd') node of dimension >= 2."""
        R = self.R
        fams = fams or (["Gaussian"] * 5 + ["GMRF", "GMRF", "LMRF", "CMRF", "Laplace", "Normal", "Cauchy", "Lognormal"])
        fam = R.choice(fams)
        opts, via = {}, {}
        if fam in ("GMRF", "LMRF", "CMRF"):
            pd = 2 if (dim is None and R.random() < 0.25) else 1
            if pd == 2:
                N = R.choice([2, 3]); dim = N * N
            else:
                dim = dim or R.randint(3, 7)
            opts = {"pd": pd}
            if fam == "GMRF":
                opts["order"] = R.choice([1, 1, 2])
                opts["bc"] = "zero" if opts["order"] == 2 else R.choice(["zero", "zero", "periodic", "neumann"])
                if opts["order"] == 2 and pd == 1:
                    dim = max(dim, 4)
            else:
                opts["bc"] = R.choice(["zero", "periodic", "neumann"])
        dim = dim or R.randint(2, 7)
        if fam == "Gaussian":
            form = R.choice(["cov", "cov", "prec", "sqrtcov", "sqrtprec"])
            opts["form"] = form
            loc = self.loc_link(dim, dep=dep, need_vec=need_vec)
            links = {"mean": loc, form: self.pos_link(shape=R.choice(["scalar", "scalar", "vector", "matrix"]), dep=dep)}
            lname = "mean"
        elif fam == "GMRF":
            loc = self.loc_link(dim, dep=dep * 0.5, need_vec=need_vec)
            links = {"mean": loc, "prec": self.pos_link(dep=dep)}
            lname = "mean"
        elif fam in ("LMRF", "CMRF", "Laplace"):
            loc = self.loc_link(dim, dep=dep * 0.5 if fam != "Laplace" else dep, need_vec=need_vec)
            links = {"location": loc, "scale": self.pos_link(dep=dep)}
            lname = "location"
        elif fam == "Cauchy":
            loc = self.loc_link(dim, dep=dep, need_vec=need_vec)
            links = {"location": loc, "scale": self.pos_link(shape=R.choice(["scalar", "vector"]), dep=dep)}
            lname = "location"
        elif fam == "Normal":
            loc = self.loc_link(dim, dep=dep, need_vec=need_vec)
            links = {"mean": loc, "std": self.pos_link(shape=R.choice(["scalar", "vector"]), dep=dep)}
            lname = "mean"
        elif fam == "Lognormal":
            loc = self.loc_link(dim, dep=dep, need_vec=need_vec)
            if loc["k"] == "const":
                loc["shape"] = "vector"
                cov = self.pos_link(shape=R.choice(["vector", "matrix"]), dep=dep)
            else:   # constructor limitation: callable mean needs a concrete covariance
                cov = {"k": "const", "role": "pos", "shape": R.choice(["vector", "matrix"])}
            links = {"mean": loc, "cov": cov}
            lname = "mean"
        else:
            raise ValueError(fam)
        # representation of a forward map with a single vector parent
        if loc["k"] in ("matvec", "nonlin", "ident") and fam in ("Gaussian", "Laplace", "Normal", "Cauchy", "Lognormal", "GMRF"):
            if loc["k"] == "matvec":
                v = R.choice(["lambda", "linmodel", "linmodel", "linmodel_fn", "model"])
            else:
                v = R.choice(["lambda", "model", "model"])
            if v in ("linmodel", "linmodel_fn"):
                loc["nob"] = True
            via[lname] = v
        return self._add(pool, fam, dim, links, opts, via)


PROFILES = ["hier", "hier", "hier", "multilik", "multilik", "chain", "twofield", "flat", "small2", "hyperdata"]

def gen_struct(R, profile):
    g = _Gen(R)
    if profile == "flat":
        for _ in range(R.randint(2, 4)):
            if R.random() < 0.6: g.add_scalar(dep=0.0)
            else: g.add_vector("f", dep=0.0)
    elif profile == "small2":
        if R.random() < 0.5:
            g.add_scalar(dep=0.0); g.add_scalar(dep=1.0) if R.random() < 0.5 else g.add_vector("f", dep=1.0)
        else:
            g.add_vector("f", dep=0.0, fams=["Gaussian", "GMRF", "LMRF", "Normal"]); g.add_vector("d", dep=1.0, need_vec=True,
                                                                                                  fams=["Gaussian", "Gaussian", "Laplace", "Lognormal", "Normal", "Cauchy"])
    elif profile == "chain":
        g.add_scalar(dep=0.0, fam=R.choice(["Normal", "Gamma", "Uniform", "Beta"]))
        for _ in range(R.randint(2, 4)):
            g.add_scalar(dep=1.0)
        if R.random() < 0.5:
            g.add_vector("f", dep=1.0)
    elif profile == "hier":
        for i in range(R.choice([1, 2, 2, 3])):
            g.add_scalar(dep=0.5 if i else 0.0, fam=R.choice(["Gamma", "Gamma", "InverseGamma", "Uniform", "Normal", "Beta", "Lognormal"]))
        g.add_vector("f", dep=0.9)
        for _ in range(R.choice([1, 1, 2])):
            if g.room():
                g.add_vector("d", dep=0.8, need_vec=True, fams=["Gaussian"] * 4 + ["Laplace", "Lognormal", "Normal", "Cauchy"])
    elif profile == "multilik":
        if R.random() < 0.5:
            g.add_scalar(dep=0.0, fam=R.choice(["Gamma", "Uniform", "InverseGamma"]))
        g.add_vector("f", dep=0.8)
        for _ in range(R.choice([2, 2, 3])):
            g.add_vector("d", dep=R.choice([0.0, 0.0, 0.7]), need_vec=True, fams=["Gaussian"] * 3 + ["Laplace", "Normal", "Cauchy"])
    elif profile == "twofield":
        if R.random() < 0.6:
            g.add_scalar(dep=0.0, fam=R.choice(["Gamma", "Uniform", "Normal"]))
        n = R.randint(2, 6)
        g.add_vector("f", dim=n, dep=0.5, fams=["Gaussian", "Gaussian", "Normal", "GMRF"] if n >= 3 else ["Gaussian", "Normal"])
        g.add_vector("f", dim=n, dep=1.0, fams=["Gaussian", "Gaussian", "GMRF", "LMRF", "Laplace"] if n >= 3 else ["Gaussian", "Laplace"])
        for _ in range(R.choice([1, 2])):
            g.add_vector("d", dep=0.8, need_vec=True, fams=["Gaussian"] * 3 + ["Laplace", "Normal"])
    elif profile == "hyperdata":
        # noise level of the data depends on hyper-parameters *and* on the field (normsq / two-argument callables)
        g.add_scalar(dep=0.0, fam=R.choice(["Gamma", "Uniform", "InverseGamma"]))
        g.add_scalar(dep=0.5, fam=R.choice(["Gamma", "Beta", "Lognormal", "Gamma"]))
        g.add_vector("f", dep=0.9, fams=["Gaussian", "Gaussian", "GMRF", "LMRF", "CMRF"])
        g.add_vector("d", dep=1.0, need_vec=True, fams=["Gaussian", "Gaussian", "Normal", "Laplace"])
        if R.random() < 0.5:
            g.add_vector("d", dep=1.0, need_vec=True, fams=["Gaussian", "Normal", "Cauchy"])
    else:
        raise ValueError(profile)
    nodes = g.nodes[:6]
    if R.random() < 0.2:
        _alias_rename(R, nodes)
    return nodes

ALIAS_SLOTS = ("prec", "scale", "std", "cov")

def _alias_rename(R, nodes):
    """Name a scalar hyper-parameter after the slot it enters (x ~ GMRF(mean, prec=lambda prec: prec)): the natural
    spelling in user code, and the one where a conditioning keyword is at the same time the name of a mutable
    attribute of the child. Only done when every child that has an attribute of that name feeds the variable into it."""
    names = {nd["name"] for nd in nodes}
    cands = []
    for nd in nodes:
        for pname, ln in nd["links"].items():
            if pname in ALIAS_SLOTS and ln.get("of") and len(ln["of"]) == 1 and pname not in names:
                cands.append((ln["of"][0], pname))
    R.shuffle(cands)
    for old, new in cands:
        src = next(nd for nd in nodes if nd["name"] == old)
        if src["dim"] != 1 or new in src["links"]:
            continue
        ok = True
        for nd in nodes:
            uses = any(old in ln.get("of", []) for ln in nd["links"].values())
            if uses and new in nd["links"] and old not in nd["links"][new].get("of", []):
                ok = False
        if not ok:
            continue
        src["name"] = new
        for nd in nodes:
            for ln in nd["links"].values():
                if "of" in ln:
                    ln["of"] = [new if q == old else q for q in ln["of"]]
        return

def cases(tier, seed):
    n = 160 if tier == "quick" else 2000
    out = []
    for i in range(n):
        R = core.rng_for(seed, PROPERTY, tier, i)
        profile = PROFILES[i % len(PROFILES)]
        struct = gen_struct(R, profile)
        order = list(range(len(struct)))
        R.shuffle(order)
        out.append({"i": i, "profile": profile, "struct": struct, "order": order,
                    "scalar_as": R.choice(["float", "float", "array"]),
                    "vector_as": R.choice(["ndarray", "ndarray", "ndarray", "ndarray", "cuqiarray"])})
    return out

def crash_config(case):
    return {"profile": case.get("profile")}

# =========================================================================== building the cuqi objects

def _mk_callable(names, f):
    """A python function whose *argument names* are the parent variable names (that is how cuqi finds
    the conditioning variables)."""
    src = "lambda %s: _f(%s)" % (", ".join(names), ", ".join(names))
    return eval(src, {"_f": f})

def _geometry(cuqi, nd):
    if nd["opts"].get("pd") == 2:
        N = int(round(math.sqrt(nd["dim"])))
        return cuqi.geometry.Image2D((N, N))
    return int(nd["dim"])

def _param_object(cuqi, nd, pname, link, bydim):
    if link["k"] == "const":
        v = link["v"]
        return float(v) if np.ndim(v) == 0 else np.array(v, dtype=float)
    f = lambda *vals, _l=link: G.eval_link_vals(_l, vals)
    via = nd["via"].get(pname, "lambda")
    names = list(link["of"])
    if via == "lambda":
        return _mk_callable(names, f)
    par = bydim[names[0]]
    dom, ran = _geometry(cuqi, par), int(nd["dim"])
    if via == "linmodel" and names[0] == "x" and par["opts"].get("pd") != 2:
        return cuqi.model.LinearModel(np.array(link["A"], dtype=float))
    if via in ("linmodel", "linmodel_fn"):
        A = np.array(link["A"], dtype=float)
        fwd = _mk_callable(names, lambda v: A @ np.asarray(v, dtype=float).ravel())
        adj = _mk_callable(["y"], lambda v: A.T @ np.asarray(v, dtype=float).ravel())
        return cuqi.model.LinearModel(fwd, adj, range_geometry=ran, domain_geometry=dom)
    if via == "model":
        return cuqi.model.Model(_mk_callable(names, f), range_geometry=ran, domain_geometry=dom)
    raise ValueError(via)

def build(cuqi, graph):
    """The list of cuqi distributions (graph order)."""
    D = cuqi.distribution
    byname = {nd["name"]: nd for nd in graph}
    out = {}
    for nd in graph:
        prm = {p: _param_object(cuqi, nd, p, ln, byname) for p, ln in nd["links"].items()}
        fam, kw = nd["fam"], {"name": nd["name"], "geometry": _geometry(cuqi, nd)}
        if fam in ("GMRF", "LMRF", "CMRF"):
            kw["bc_type"] = nd["opts"]["bc"]
            if fam == "GMRF":
                kw["order"] = nd["opts"]["order"]
        out[nd["name"]] = getattr(D, fam)(**prm, **kw)
    return out

# =========================================================================== the monitor / oracle engine

def _branch(cuqi, obj_x):
    D = cuqi.distribution
    JD = D.JointDistribution
    if isinstance(obj_x, D._joint_distribution._StackedJointDistribution): return "Stacked"
    if isinstance(obj_x, D.MultipleLikelihoodPosterior): return "MultipleLikelihoodPosterior"
    if isinstance(obj_x, JD): return "JointDistribution"
    if isinstance(obj_x, D.Posterior): return "Posterior"
    if isinstance(obj_x, cuqi.density.EvaluatedDensity): return "EvaluatedDensity"
    if isinstance(obj_x, cuqi.likelihood.Likelihood): return "Likelihood"
    if isinstance(obj_x, D.Distribution): return "Distribution"
    return type(obj_x).__name__

def _cause(e):
    """Coarse, discrete classification of a refusal by its message (used to match known findings narrowly)."""
    m = str(e)
    if "non-broadcastable output operand" in m:
        return "inplace_add_broadcast"
    if "is not a mutable, conditioning variable or parameter name" in m:
        return "keyword_not_recognised"
    if "does not match prior geometry" in m:
        return "geometry_mismatch"
    return "other"

class Engine:
    def __init__(self, cuqi, ctx, case, graph, env, dists):
        self.cuqi, self.ctx, self.case, self.graph, self.env, self.dists = cuqi, ctx, case, graph, env, dists
        self.names = [nd["name"] for nd in graph]
        self.dims = {nd["name"]: nd["dim"] for nd in graph}
        self.fvals = G.factor_values(graph, env)
        self.T = float(sum(self.fvals.values()))
        self.scale = 1.0 + float(sum(abs(v) for v in self.fvals.values()))
        self.R = core.rng_for(ctx.seed, PROPERTY, "prog", case["i"])
        self.max_rel = 0.0

    # ---- values as handed to the library
    def val(self, k):
        v = np.array(self.env[k], dtype=float)
        if self.dims[k] == 1 and self.case["scalar_as"] == "float":
            return float(v.ravel()[0])
        if self.dims[k] > 1 and self.case.get("vector_as") == "cuqiarray":
            return self.cuqi.array.CUQIarray(v, geometry=self.dists[k].geometry)
        return v

    def kw(self, names, shuffle=True):
        names = list(names)
        if shuffle:
            self.R.shuffle(names)
        return {k: self.val(k) for k in names}

    def cfg(self, **extra):
        c = {"profile": self.case["profile"], "vector_as": self.case.get("vector_as", "ndarray")}
        c.update(extra)
        return c

    # ---- classification of library calls
    def wellformed(self, fn, cfg, what):
        """Run a well-formed call. Returns (True, value) or (False, None) after reporting the refusal."""
        try:
            return True, fn()
        except Exception as e:  # noqa  - any exception on a well-formed program is a violation of C01
            self.ctx.count("wellformed_refused")
            cfg = dict(cfg, cause=_cause(e))
            self.ctx.violation("wellformed_refused", {**cfg, "exc": type(e).__name__},
                               detail=f"{what}: {type(e).__name__}: {core.short(str(e), 300)}")
            return False, None

    def malformed(self, fn, cfg, what):
        try:
            v = fn()
        except Exception as e:  # noqa - the property asks for "an error"
            self.ctx.count("malformed_refused")
            self.ctx.refused("malformed_" + cfg.get("kind", "?"), e)
            return
        self.ctx.count("malformed_accepted")
        self.ctx.violation("malformed_accepted", cfg, detail=f"{what} returned {core.short(repr(v), 120)} instead of raising")

    # ---- numeric oracle
    def number(self, v):
        a = np.asarray(v, dtype=float)
        return float(a.ravel()[0]) if a.size == 1 else None

    def compare(self, v, target, mech, cfg, what):
        x = self.number(v)
        if x is None:
            self.ctx.violation("non_scalar_logd", cfg, detail=f"{what}: logd returned shape {np.shape(v)}")
            return False
        err = abs(x - target) / self.scale if math.isfinite(x) and math.isfinite(target) else (0.0 if x == target else math.inf)
        if err <= RTOL:
            self.max_rel = max(self.max_rel, err)
            return True
        self.ctx.violation(mech, cfg, detail=f"{what}: got {x!r}, expected {target!r} (sum of factors {self.fvals}); rel.err {err:.3g}")
        return False

    # ---- evaluation of an object at the remaining variables
    def evaluate(self, obj_x, fixed, how, prog, target=None, mech="metamorphic_mismatch"):
        """Evaluate obj_x (all variables in `fixed` are fixed) by keyword/position and compare with the joint value."""
        cuqi, ctx = self.cuqi, self.ctx
        br = _branch(cuqi, obj_x)
        cfg = self.cfg(branch=br, prog=prog, how=how, nfixed=min(len(fixed), 9))
        target = self.T if target is None else target
        expected = [k for k in self.names if k not in fixed]
        if br == "EvaluatedDensity":
            ok, v = self.wellformed(lambda: obj_x.logd(), cfg, "EvaluatedDensity.logd()")
            if ok:
                ctx.count("metamorphic_checked"); ctx.count("branch_" + br); ctx.nontrivial(f"{br}/{prog}")
                self.compare(v, target, mech, cfg, f"logd() of fully fixed object after {sorted(fixed)}")
            return
        ok, names = self.wellformed(lambda: list(obj_x.get_parameter_names()), cfg, "get_parameter_names")
        if not ok:
            return
        ctx.count("parameter_names_checked")
        if sorted(names) != sorted(expected):
            ctx.violation("parameter_names_mismatch", cfg, detail=f"after fixing {sorted(fixed)} the object reports parameters {names}, expected {expected}")
            return
        if br == "Stacked":
            vec = np.concatenate([np.asarray(self.env[k], dtype=float).ravel() for k in names]) if names else np.zeros(0)
            fn = lambda: obj_x.logd(vec)
            how = "stackedvec"; cfg["how"] = how
        elif how == "kw":
            kw = self.kw(names)
            fn = lambda: obj_x.logd(**kw)
        elif how == "pos":
            args = [self.val(k) for k in names]
            fn = lambda: obj_x.logd(*args)
        elif how == "mix":
            j = self.R.randint(1, max(1, len(names) - 1)) if names else 0
            args = [self.val(k) for k in names[:j]]; kw = self.kw(names[j:])
            fn = lambda: obj_x.logd(*args, **kw)
        else:
            raise ValueError(how)
        if how == "mix" and kw and args and br not in ("JointDistribution", "MultipleLikelihoodPosterior"):
            # positional + keyword in one evaluation: documented for the joint, explicitly refused by single densities
            try:
                v = fn()
            except Exception as e:  # noqa
                ctx.count("mix_refused"); ctx.refused("mix_" + br, e)
                return
        else:
            ok, v = self.wellformed(fn, {**cfg, "op": "logd"}, f"logd by {how} of {br} after fixing {sorted(fixed)}")
            if not ok:
                return
        ctx.count("metamorphic_checked"); ctx.count("branch_" + br)
        if fixed:
            ctx.nontrivial(f"{br}/{prog}")
        self.compare(v, target, mech, cfg, f"{br}.logd by {how} after fixing {sorted(fixed)} (program {prog})")

    # ---- one conditioning step
    def condition(self, obj_x, block, passing, fixed, prog):
        """Fix the variables of `block` on obj_x. passing: 'kw' | 'pos' (as many leading parameters as possible
        positionally, the rest by keyword). Returns the new object or None."""
        cuqi = self.cuqi
        br = _branch(cuqi, obj_x)
        cfg = self.cfg(branch=br, prog=prog, op="condition", passing=passing, nfixed=min(len(fixed), 9))
        args, kw = [], self.kw(block)
        if passing == "pos":
            ok, names = self.wellformed(lambda: list(obj_x.get_parameter_names()), cfg, "get_parameter_names")
            if not ok:
                return None
            for k in names:
                if k in kw:
                    args.append(kw.pop(k))
                else:
                    break
            if not args:
                cfg["passing"] = "kw"
            elif kw:
                cfg["passing"] = "pos+kw"
        self.ctx.count("condition_calls")
        ok, new = self.wellformed(lambda: obj_x(*args, **kw), cfg,
                                  f"conditioning {br} on {sorted(block)} ({cfg['passing']}) after {sorted(fixed)}")
        return new if ok else None

    def run_program(self, obj_j, blocks, passings, prog, hows=("kw",), check_every=True, fixed0=()):
        fixed = set(fixed0)
        obj_cur = obj_j
        for blk, ps in zip(blocks, passings):
            obj_cur = self.condition(obj_cur, blk, ps, fixed, prog)
            if obj_cur is None:
                return None, fixed
            fixed = fixed | set(blk)
            if check_every or len(fixed) == len(fixed0) + sum(len(b) for b in blocks):
                for how in hows:
                    self.evaluate(obj_cur, fixed, how, prog)
        return obj_cur, fixed

    # ---- malformed evaluations
    def malformed_suite(self, obj_x, fixed, prog):
        cuqi = self.cuqi
        br = _branch(cuqi, obj_x)
        if br in ("Stacked",):
            return
        if br == "EvaluatedDensity":
            self.malformed(lambda: obj_x.logd(1.0), self.cfg(kind="too_many_pos", branch=br), "EvaluatedDensity.logd(1.0)")
            self.malformed(lambda: obj_x.logd(**{BOGUS: 1.0}), self.cfg(kind="unknown_extra", branch=br), "EvaluatedDensity.logd(qq=1.0)")
            return
        try:
            names = list(obj_x.get_parameter_names())
        except Exception:  # noqa
            return
        R = self.R
        def C(kind): return self.cfg(kind=kind, branch=br)
        if names:
            drop = R.choice(names)
            kw = self.kw([k for k in names if k != drop])
            self.malformed(lambda: obj_x.logd(**kw), C("missing"), f"{br}.logd without {drop!r} (parameters {names})")
            kw2 = dict(kw); kw2[BOGUS] = self.val(drop)
            self.malformed(lambda: obj_x.logd(**kw2), C("unknown_replace"), f"{br}.logd with {BOGUS!r} instead of {drop!r}")
            first = names[0]
            kwa = self.kw(names)
            self.malformed(lambda: obj_x.logd(self.val(first), **kwa), C("double"), f"{br}.logd({first} positionally and by keyword)")
            args = [self.val(k) for k in names]
            if len(names) >= 2:
                self.malformed(lambda: obj_x.logd(*args[:-1]), C("missing_pos"), f"{br}.logd with {len(names)-1} of {len(names)} positionals")
        else:
            args = []
        kwb = self.kw(names); kwb[BOGUS] = 1.0
        self.malformed(lambda: obj_x.logd(**kwb), C("unknown_extra"), f"{br}.logd with extra keyword {BOGUS!r}")
        if fixed:
            again = R.choice(sorted(fixed))
            kwc = self.kw(names); kwc[again] = self.val(again)
            self.malformed(lambda: obj_x.logd(**kwc), C("fixed_again"), f"{br}.logd with already fixed {again!r} passed again")
        extra = self.val(self.names[0])
        self.malformed(lambda: obj_x.logd(*args, extra), C("too_many_pos"), f"{br}.logd with {len(args)+1} positionals for {len(args)} parameters")

    # ---- conditioning calls whose treatment the property does not fix: observed, not judged
    def unjudged_conditioning(self, obj_x, fixed):
        ctx = self.ctx
        br = _branch(self.cuqi, obj_x)
        progs = [("unknown_kw", [], {BOGUS: 1.0})]
        if fixed:
            progs.append(("fixed_again", [], {sorted(fixed)[0]: self.val(sorted(fixed)[0])}))
        try:
            names = list(obj_x.get_parameter_names())
        except Exception:  # noqa
            names = []
        if names and br != "Stacked":
            progs.append(("double", [self.val(names[0])], {names[0]: self.val(names[0])}))
        for kind, args, kw in progs:
            try:
                obj_new = obj_x(*args, **kw)
            except Exception as e:  # noqa
                ctx.count("unjudged_condition_refused"); ctx.refused(f"condition_{kind}_{br}", e)
                continue
            ctx.count("unjudged_condition_silently_accepted")
            # whatever the library decides to do with the surplus keyword, it must not change the density
            self.evaluate(obj_new, set(fixed) | ({names[0]} if kind == "double" else set()), "kw", "surplus_keyword_condition")
        # conditioning on nothing is a well-formed (empty) program
        ok, obj_same = self.wellformed(lambda: obj_x(), self.cfg(branch=br, op="condition", passing="none", prog="empty_condition"), f"{br}() with no arguments")
        if ok:
            self.evaluate(obj_same, fixed, "kw", "empty_condition")


# =========================================================================== programs

def _subsets(E, tier):
    names, R = E.names, E.R
    n = len(names)
    allsub = [list(c) for r in range(1, n + 1) for c in itertools.combinations(names, r)]
    if n <= 4:
        return allsub
    must = [s for s in allsub if len(s) >= n - 1]
    rest = [s for s in allsub if len(s) < n - 1]
    R.shuffle(rest)
    return must + rest[: (10 if tier == "quick" else 14)]

def _perms(E, S, tier):
    R = E.R
    if len(S) <= (3 if tier == "quick" else 4):
        return [list(p) for p in itertools.permutations(S)]
    k = 4 if tier == "quick" else 8
    out = []
    for _ in range(k):
        p = list(S); R.shuffle(p); out.append(p)
    return out

def _grouping(R, S):
    p = list(S); R.shuffle(p)
    blocks, i = [], 0
    while i < len(p):
        j = R.randint(1, min(3, len(p) - i))
        blocks.append(p[i:i + j]); i += j
    return blocks

def run_case(case, ctx):
    import cuqi
    rs = core.np_rng(ctx.seed, PROPERTY, "num", case["i"])
    graph = G.materialize(case["struct"], rs)
    env = G.draw_assignment(graph, rs)
    obj_dists = build(cuqi, graph)
    order = [graph[i]["name"] for i in case["order"]]
    dens = [obj_dists[k] for k in order]
    E = Engine(cuqi, ctx, case, graph, env, obj_dists)
    R, tier = E.R, ctx.tier
    ctx.note("graph", [f"{nd['name']}~{nd['fam']}[{nd['dim']}]({','.join(p + '=' + ln['k'] + ('<' + '+'.join(ln.get('of', [])) + '>' if 'of' in ln else '') for p, ln in sorted(nd['links'].items()))})" for nd in graph])
    if not all(math.isfinite(v) for v in E.fvals.values()):
        ctx.inconclusive("reference factor value not finite: %r" % E.fvals)
        return

    # ---- the joint and its absolute value
    ok, obj_j = E.wellformed(lambda: cuqi.distribution.JointDistribution(*dens), E.cfg(op="construct"), "JointDistribution(...)")
    if not ok:
        return
    ok, names = E.wellformed(lambda: list(obj_j.get_parameter_names()), E.cfg(op="names"), "get_parameter_names")
    if not ok or names != order:
        if ok:
            ctx.violation("parameter_names_mismatch", E.cfg(branch="JointDistribution", prog="construct"), detail=f"{names} vs density order {order}")
        return
    j0 = None
    for how in ("kw", "pos", "mix"):
        cfg = E.cfg(branch="JointDistribution", prog="full", how=how)
        if how == "kw":
            kw = E.kw(names); fn = lambda: obj_j.logd(**kw)
        elif how == "pos":
            args = [E.val(k) for k in names]; fn = lambda: obj_j.logd(*args)
        else:
            j = R.randint(1, len(names) - 1)
            args = [E.val(k) for k in names[:j]]; kw = E.kw(names[j:]); fn = lambda: obj_j.logd(*args, **kw)
        ok, v = E.wellformed(fn, {**cfg, "op": "logd"}, f"joint.logd by {how}")
        if ok:
            ctx.count("absolute_joint_checked"); ctx.count("branch_JointDistribution")
            E.compare(v, E.T, "absolute_mismatch", cfg, f"joint.logd(all) by {how} vs closed-form reference")
            if how == "kw":
                j0 = E.number(v)
    # ---- standalone factors: absolute value, likelihood / evaluated-density views, malformed evaluations
    for nd in graph:
        factor_programs(E, nd)

    # ---- conditioning programs
    subsets = _subsets(E, tier)
    reduced_seen = {}
    for S in subsets:
        rest = [k for k in names if k not in S]
        # P1: one keyword call; every evaluation form
        obj_r, fixed = E.run_program(obj_j, [S], ["kw"], "onecall_kw", hows=("kw", "pos", "mix") if len(rest) >= 2 else ("kw", "pos"))
        if obj_r is not None:
            br = _branch(cuqi, obj_r)
            if br not in reduced_seen or R.random() < 0.15:
                reduced_seen[br] = reduced_seen.get(br, 0) + 1
                E.malformed_suite(obj_r, fixed, "onecall_kw")
                if R.random() < 0.5:
                    E.unjudged_conditioning(obj_r, fixed)
            if br == "Posterior":
                posterior_decomposition(E, obj_r, fixed)
            elif br == "MultipleLikelihoodPosterior":
                mlp_decomposition(E, obj_r, fixed)
            # the reduced object conditioned once more on each remaining variable (keyword and positional)
            if len(rest) == 1 and br != "Stacked":
                for ps in ("kw", "pos"):
                    obj_e = E.condition(obj_r, rest, ps, fixed, "last_variable")
                    if obj_e is not None:
                        E.evaluate(obj_e, set(names), "kw", "last_variable")
        # P2: positional (+keyword) conditioning in one call
        E.run_program(obj_j, [S], ["pos"], "onecall_pos", hows=("kw",))
        # P3: one variable at a time, every order
        for perm in _perms(E, S, tier):
            if len(S) == 1:
                break
            E.run_program(obj_j, [[k] for k in perm], [R.choice(["kw", "kw", "pos"]) for _ in perm], "one_at_a_time",
                          hows=(R.choice(["kw", "pos"]),))
        # P4: random groupings
        if len(S) >= 3:
            for _ in range(2):
                blocks = _grouping(R, S)
                E.run_program(obj_j, blocks, [R.choice(["kw", "pos"]) for _ in blocks], "grouping", hows=("kw",))
        # P5: stacked view
        if R.random() < (0.6 if len(names) <= 4 else 0.35):
            stacked_programs(E, obj_j, S)
        # P6: BayesianProblem route
        if R.random() < (0.5 if len(names) <= 4 else 0.3):
            bayesian_problem_programs(E, dens, S)
    # stacked view of the unconditioned joint
    ok, obj_s = E.wellformed(lambda: obj_j._as_stacked(), E.cfg(op="as_stacked"), "_as_stacked()")
    if ok:
        E.evaluate(obj_s, set(), "kw", "stacked_full", mech="stacked_mismatch")
    # shared-prefix histories
    for _ in range(3 if len(names) >= 3 else 1):
        history_program(E, obj_j)
    # joints assembled from distributions and likelihoods
    for _ in range(2):
        assembled_programs(E, order)
    # malformed evaluations on the joint itself
    E.malformed_suite(obj_j, set(), "joint")
    E.unjudged_conditioning(obj_j, set())

    # ---- the originals must be what they were
    ok, v = E.wellformed(lambda: obj_j.logd(**E.kw(names)), E.cfg(op="logd", branch="JointDistribution", prog="final"), "joint.logd at the end")
    if ok:
        ctx.count("original_intact_checked")
        x = E.number(v)
        if j0 is not None and (x is None or abs(x - j0) > 1e-12 * E.scale):
            ctx.violation("original_changed", E.cfg(what="joint"), detail=f"joint.logd(all) was {j0!r} before the conditioning programs and {x!r} after")
    for k, obj_d in obj_dists.items():
        c = getattr(obj_d, "_constant", 0)
        ctx.count("original_constant_checked")
        if np.any(np.asarray(c, dtype=float) != 0):
            ctx.violation("original_changed", E.cfg(what="factor_constant"), detail=f"factor {k}: _constant of the user's distribution became {c!r}")
    ctx.note("max_rel_err", E.max_rel)
    ctx.note("T", E.T)


def factor_programs(E, nd):
    """A single factor used on its own: conditional distribution, likelihood, evaluated density."""
    cuqi, ctx, R = E.cuqi, E.ctx, E.R
    name = nd["name"]
    obj_f = E.dists[name]
    ref = E.fvals[name]
    fam = nd["fam"]
    base = dict(fam=fam, prog="factor")
    ok, pn = E.wellformed(lambda: list(obj_f.get_parameter_names()), E.cfg(op="names", **base), "factor.get_parameter_names")
    if not ok:
        return
    par = G.parents(nd)
    if sorted(pn) != sorted(par + [name]) or pn[-1] != name:
        ctx.violation("parameter_names_mismatch", E.cfg(branch="Distribution", **base), detail=f"factor {name}: {pn} vs parents {par}")
        return
    cond = pn[:-1]
    def cmp(fn, how, what, br="Distribution", target=ref):
        cfg = E.cfg(branch=br, how=how, **base)
        ok, v = E.wellformed(fn, {**cfg, "op": "logd"}, what)
        if ok:
            ctx.count("absolute_factor_checked"); ctx.count("branch_" + br)
            E.compare(v, target, "absolute_mismatch", cfg, what)
    kw = E.kw(pn)
    cmp(lambda: obj_f.logd(**kw), "kw", f"{fam} factor {name}.logd(**{sorted(kw)})")
    args = [E.val(k) for k in pn]
    cmp(lambda: obj_f.logd(*args), "pos", f"{fam} factor {name}.logd(*{pn})")
    if cond:
        cmp(lambda: obj_f.logd(*args[:-1], **{name: E.val(name)}), "mix", f"{fam} factor {name}.logd(*cond, {name}=...)")
    # fix the conditioning variables -> plain distribution
    if cond:
        ok, obj_c = E.wellformed(lambda: obj_f(**E.kw(cond)), E.cfg(op="condition", branch="Distribution", passing="kw", **base), f"factor {name}({cond})")
        if ok:
            cmp(lambda: obj_c.logd(E.val(name)), "pos", f"factor {name}(**cond).logd(value)")
            cmp(lambda: obj_c.logd(**{name: E.val(name)}), "kw", f"factor {name}(**cond).logd({name}=value)")
            E.malformed(lambda: obj_c.logd(E.val(name), **{name: E.val(name)}), E.cfg(kind="double", branch="Distribution", **base), "conditioned factor .logd(value, name=value)")
            E.malformed(lambda: obj_c.logd(**{name: E.val(name), cond[0]: E.val(cond[0])}), E.cfg(kind="fixed_again", branch="Distribution", **base), "conditioned factor .logd(name=value, fixedcond=value)")
    # fix the value -> likelihood (or evaluated density)
    for ps in ("kw", "pos"):
        a, k = ([], {name: E.val(name)}) if ps == "kw" else ([E.val(k) for k in pn], {})
        if ps == "pos" and cond:
            # all conditioning variables and the value positionally -> evaluated density
            ok, obj_e = E.wellformed(lambda: obj_f(*a), E.cfg(op="condition", branch="Distribution", passing="pos", **base), f"factor {name}(*all)")
            if ok:
                cmp(lambda: obj_e.logd(), "none", f"factor {name}(*all).logd()", br=_branch(cuqi, obj_e))
            continue
        ok, obj_l = E.wellformed(lambda: obj_f(*a, **k), E.cfg(op="condition", branch="Distribution", passing=ps, **base), f"factor {name}({name}=value)")
        if not ok:
            continue
        br = _branch(cuqi, obj_l)
        if br != ("Likelihood" if cond else "EvaluatedDensity"):
            ctx.violation("wrong_reduction_type", E.cfg(branch=br, **base), detail=f"factor {name} with its value fixed became {br}")
            continue
        if not cond:
            cmp(lambda: obj_l.logd(), "none", f"factor {name}({name}=value).logd()", br=br)
            continue
        ok, ln = E.wellformed(lambda: list(obj_l.get_parameter_names()), E.cfg(op="names", branch=br, **base), "likelihood names")
        if not ok:
            continue
        if ln != cond:
            ctx.violation("parameter_names_mismatch", E.cfg(branch=br, **base), detail=f"likelihood of {name}: {ln} vs {cond}")
            continue
        kwl = E.kw(cond)
        cmp(lambda: obj_l.logd(**kwl), "kw", f"likelihood of {name}.logd(**{sorted(kwl)})", br=br)
        cmp(lambda: obj_l.logd(*[E.val(c) for c in cond]), "pos", f"likelihood of {name}.logd(*{cond})", br=br)
        ok, obj_e = E.wellformed(lambda: obj_l(**E.kw(cond)), E.cfg(op="condition", branch=br, passing="kw", **base), f"likelihood of {name} fully conditioned")
        if ok:
            cmp(lambda: obj_e.logd(), "none", "fully conditioned likelihood .logd()", br=_branch(cuqi, obj_e))
        # malformed evaluations of the likelihood
        E.malformed(lambda: obj_l.logd(**kwl, **{name: E.val(name)}), E.cfg(kind="fixed_again", branch=br, **base), f"likelihood.logd with the data variable {name!r} passed again")
        E.malformed(lambda: obj_l.logd(**kwl, **{BOGUS: 1.0}), E.cfg(kind="unknown_extra", branch=br, **base), "likelihood.logd with unknown keyword")
        E.malformed(lambda: obj_l.logd(E.val(cond[0]), **kwl), E.cfg(kind="double", branch=br, **base), f"likelihood.logd({cond[0]} positionally and by keyword)")
        E.malformed(lambda: obj_l.logd(**{c: v for c, v in kwl.items() if c != cond[0]}), E.cfg(kind="missing", branch=br, **base), f"likelihood.logd without {cond[0]!r}")
        E.malformed(lambda: obj_l.logd(*[E.val(c) for c in cond], E.val(cond[0])), E.cfg(kind="too_many_pos", branch=br, **base), "likelihood.logd with one positional too many")
        # partial conditioning (two or more conditioning variables): distribution and likelihood side
        if len(cond) >= 2 and ps == "kw":
            c1 = R.sample(cond, R.randint(1, len(cond) - 1))
            c2 = [c for c in cond if c not in c1]
            ok, obj_p = E.wellformed(lambda: obj_f(**E.kw(c1)), E.cfg(op="condition", branch="Distribution", passing="kw", partial=True, **base), f"factor {name} partially conditioned on {c1}")
            if ok:
                ctx.count("partial_conditioning_checked")
                okn, pn2 = E.wellformed(lambda: list(obj_p.get_parameter_names()), E.cfg(op="names", **base), "names")
                if okn and sorted(pn2) != sorted(c2 + [name]):
                    ctx.violation("parameter_names_mismatch", E.cfg(branch="Distribution", partial=True, **base), detail=f"factor {name} after fixing {c1}: {pn2}")
                elif okn:
                    kwp = E.kw(c2 + [name])
                    cmp(lambda: obj_p.logd(**kwp), "kw", f"factor {name}(**{c1}).logd(**{sorted(kwp)})")
                    cmp(lambda: obj_p.logd(*[E.val(c) for c in pn2]), "pos", f"factor {name}(**{c1}).logd(*{pn2})")
                    E.malformed(lambda: obj_p.logd(**kwp, **{c1[0]: E.val(c1[0])}), E.cfg(kind="fixed_again", branch="Distribution", partial=True, **base), "partially conditioned factor .logd with the fixed variable again")
            ok, obj_lp = E.wellformed(lambda: obj_l(**E.kw(c1)), E.cfg(op="condition", branch=br, passing="kw", partial=True, **base), f"likelihood of {name} partially conditioned on {c1}")
            if ok:
                ctx.count("partial_conditioning_checked")
                kwp = E.kw(c2)
                cmp(lambda: obj_lp.logd(**kwp), "kw", f"likelihood of {name}(**{c1}).logd(**{sorted(kwp)})", br=_branch(cuqi, obj_lp))
    # malformed evaluations of the conditional distribution itself
    if cond:
        other = E.val(name)
        E.malformed(lambda: obj_f.logd(*args, **{name: other}), E.cfg(kind="double", branch="Distribution", **base), f"conditional {name}.logd(*cond, value, {name}=value)")
        E.malformed(lambda: obj_f.logd(*args, **{cond[0]: E.val(cond[0])}), E.cfg(kind="double_cond", branch="Distribution", **base), f"conditional {name}.logd(*cond, value, {cond[0]}=value)")
        kwd = E.kw(pn)
        E.malformed(lambda: obj_f.logd(args[0], **kwd), E.cfg(kind="double_cond", branch="Distribution", **base), f"conditional {name}.logd({cond[0]} positionally, and every parameter by keyword)")
        kwm = E.kw(pn); kwm.pop(cond[0])
        E.malformed(lambda: obj_f.logd(**kwm), E.cfg(kind="missing", branch="Distribution", **base), f"conditional {name}.logd without {cond[0]!r}")
        kwx = E.kw(pn); kwx[BOGUS] = 1.0
        E.malformed(lambda: obj_f.logd(**kwx), E.cfg(kind="unknown_extra", branch="Distribution", **base), f"conditional {name}.logd with unknown keyword")
        E.malformed(lambda: obj_f.logd(*args, args[0]), E.cfg(kind="too_many_pos", branch="Distribution", **base), f"conditional {name}.logd with one positional too many")
        E.malformed(lambda: obj_f.logd(*args[:-1]), E.cfg(kind="missing_pos", branch="Distribution", **base), f"conditional {name}.logd without the main value")
    else:
        E.malformed(lambda: obj_f.logd(args[0], **{name: args[0]}), E.cfg(kind="double", branch="Distribution", **base), f"{name}.logd(value, {name}=value)")
        E.malformed(lambda: obj_f.logd(**{name: args[0], BOGUS: 1.0}), E.cfg(kind="unknown_extra", branch="Distribution", **base), f"{name}.logd with unknown keyword")
        E.malformed(lambda: obj_f.logd(), E.cfg(kind="missing", branch="Distribution", **base), f"{name}.logd()")
        E.malformed(lambda: obj_f.logd(args[0], args[0]), E.cfg(kind="too_many_pos", branch="Distribution", **base), f"{name}.logd(value, value)")


def posterior_decomposition(E, obj_p, fixed):
    """posterior == log-likelihood + log-prior + contribution of every fixed variable (closed forms)."""
    ctx = E.ctx
    rest = [k for k in E.names if k not in fixed]
    if len(rest) != 1:
        return
    x = rest[0]
    cfg = E.cfg(branch="Posterior", prog="decomposition")
    ok, parts = E.wellformed(lambda: (obj_p.likelihood.logd(E.val(x)), obj_p.prior.logd(E.val(x)), obj_p.logd(E.val(x)), obj_p.likelihood.name),
                             {**cfg, "op": "logd"}, "posterior.likelihood/prior/logd")
    if not ok:
        return
    lik, pri, tot, yname = parts
    ctx.count("posterior_decomposition_checked")
    E.compare(lik, E.fvals[yname], "posterior_decomposition_mismatch", {**cfg, "part": "likelihood"}, f"log-likelihood of {yname} given the fixed variables")
    E.compare(pri, E.fvals[x], "posterior_decomposition_mismatch", {**cfg, "part": "prior"}, f"log-prior of {x}")
    others = sum(v for k, v in E.fvals.items() if k not in (x, yname))
    a, b, c = E.number(lik), E.number(pri), E.number(tot)
    if None not in (a, b, c):
        E.compare(c - a - b, others, "posterior_decomposition_mismatch", {**cfg, "part": "fixed"}, "posterior - loglik - logprior vs sum of the fixed variables' log-densities")


def mlp_decomposition(E, obj_m, fixed):
    ctx = E.ctx
    rest = [k for k in E.names if k not in fixed]
    if len(rest) != 1:
        return
    x = rest[0]
    cfg = E.cfg(branch="MultipleLikelihoodPosterior", prog="decomposition")
    def parts():
        liks = [(L.name, L.logd(E.val(x))) for L in obj_m.likelihoods]
        return liks, obj_m.prior.logd(E.val(x)), obj_m.logd(E.val(x))
    ok, res = E.wellformed(parts, {**cfg, "op": "logd"}, "mlp.likelihoods/prior/logd")
    if not ok:
        return
    liks, pri, tot = res
    ctx.count("posterior_decomposition_checked"); ctx.count("mlp_decomposition_checked")
    for yname, v in liks:
        E.compare(v, E.fvals[yname], "posterior_decomposition_mismatch", {**cfg, "part": "likelihood"}, f"log-likelihood of {yname}")
    E.compare(pri, E.fvals[x], "posterior_decomposition_mismatch", {**cfg, "part": "prior"}, f"log-prior of {x}")
    used = {x} | {y for y, _ in liks}
    others = sum(v for k, v in E.fvals.items() if k not in used)
    nums = [E.number(v) for _, v in liks] + [E.number(pri), E.number(tot)]
    if None not in nums:
        E.compare(nums[-1] - sum(nums[:-1]), others, "posterior_decomposition_mismatch", {**cfg, "part": "fixed"}, "mlp - sum loglik - logprior vs fixed variables")


def stacked_programs(E, obj_j, S):
    cuqi, ctx, R = E.cuqi, E.ctx, E.R
    cfg = E.cfg(op="as_stacked", prog="stacked")
    # (a) stack, then condition
    ok, obj_s = E.wellformed(lambda: obj_j._as_stacked(), cfg, "_as_stacked()")
    if ok:
        obj_r = E.condition(obj_s, S, R.choice(["kw", "pos"]), set(), "stacked_then_condition")
        if obj_r is not None:
            E.evaluate(obj_r, set(S), "kw", "stacked_then_condition", mech="stacked_mismatch")
    # (b) condition, then stack (only joints can be stacked)
    obj_c = E.condition(obj_j, S, "kw", set(), "condition_then_stack")
    if obj_c is not None and _branch(cuqi, obj_c) == "JointDistribution":
        ok, obj_cs = E.wellformed(lambda: obj_c._as_stacked(), cfg, "conditioned._as_stacked()")
        if ok:
            E.evaluate(obj_cs, set(S), "kw", "condition_then_stack", mech="stacked_mismatch")
            # and condition the stacked object further
            rest = [k for k in E.names if k not in S]
            if len(rest) >= 2:
                more = R.sample(rest, R.randint(1, len(rest) - 1))
                obj_r2 = E.condition(obj_cs, more, "kw", set(S), "stack_condition_again")
                if obj_r2 is not None:
                    E.evaluate(obj_r2, set(S) | set(more), "kw", "stack_condition_again", mech="stacked_mismatch")


def bayesian_problem_programs(E, dens, S):
    cuqi, ctx, R = E.cuqi, E.ctx, E.R
    cfg = E.cfg(op="bayesianproblem", prog="bayesianproblem")
    if R.random() < 0.5 or len(S) < 2:
        ok, obj_bp = E.wellformed(lambda: cuqi.problem.BayesianProblem(*dens).set_data(**E.kw(S)), cfg, f"BayesianProblem(...).set_data({sorted(S)})")
    else:
        s1 = R.sample(S, R.randint(1, len(S) - 1)); s2 = [k for k in S if k not in s1]
        def two_step():
            obj_b = cuqi.problem.BayesianProblem(*dens, **E.kw(s1))
            if not isinstance(obj_b._target, cuqi.distribution.JointDistribution):
                return None
            return obj_b.set_data(**E.kw(s2))
        ok, obj_bp = E.wellformed(two_step, cfg, f"BayesianProblem(..., {sorted(s1)}).set_data({sorted(s2)})")
        if ok and obj_bp is None:
            ctx.count("bayesianproblem_not_joint_after_first_step")
            return
    if not ok:
        return
    obj_t = obj_bp._target
    ctx.count("bayesianproblem_checked")
    E.evaluate(obj_t, set(S), "kw", "bayesianproblem")
    if _branch(cuqi, obj_t) == "Posterior":
        rest = [k for k in E.names if k not in S]
        x = rest[0]
        ok, v = E.wellformed(lambda: obj_bp.posterior.logd(E.val(x)), {**cfg, "branch": "Posterior", "op": "logd"}, "BayesianProblem.posterior.logd")
        if ok:
            ctx.count("metamorphic_checked")
            E.compare(v, E.T, "metamorphic_mismatch", {**cfg, "branch": "Posterior"}, "BayesianProblem.posterior.logd(value)")
        ok, v = E.wellformed(lambda: (obj_bp.likelihood.logd(E.val(x)), obj_bp.prior.logd(E.val(x)), obj_bp.likelihood.name), {**cfg, "branch": "Posterior", "op": "logd"}, "BayesianProblem.likelihood/prior")
        if ok:
            ctx.count("posterior_decomposition_checked")
            E.compare(v[0], E.fvals[v[2]], "posterior_decomposition_mismatch", {**cfg, "part": "likelihood"}, "BayesianProblem.likelihood.logd")
            E.compare(v[1], E.fvals[x], "posterior_decomposition_mismatch", {**cfg, "part": "prior"}, "BayesianProblem.prior.logd")


def assembled_programs(E, order):
    """A joint assembled from distributions *and* likelihoods / evaluated densities (leaf variables observed
    before the joint is formed), and the public Posterior / MultipleLikelihoodPosterior constructors."""
    cuqi, ctx, R = E.cuqi, E.ctx, E.R
    D = cuqi.distribution
    used = {p for nd in E.graph for p in G.parents(nd)}
    leaves = [k for k in E.names if k not in used]
    if not leaves or len(leaves) == len(E.names) and len(leaves) < 2:
        return
    s0 = R.sample(leaves, R.randint(1, len(leaves)))
    if len(s0) == len(E.names):
        s0 = s0[:-1]
    cfg = E.cfg(prog="assembled", op="condition", branch="Distribution", passing="kw")
    pre = {}
    for k in s0:
        ok, obj_l = E.wellformed(lambda: E.dists[k](**{k: E.val(k)}), cfg, f"factor {k}({k}=value)")
        if not ok:
            return
        pre[k] = obj_l
    dens2 = [pre.get(k, E.dists[k]) for k in order]
    ok, obj_j2 = E.wellformed(lambda: D.JointDistribution(*dens2), E.cfg(prog="assembled", op="construct"), f"JointDistribution with {sorted(s0)} given as likelihoods/evaluated densities")
    if not ok:
        return
    ctx.count("assembled_checked")
    for how in ("kw", "pos"):
        E.evaluate(obj_j2, set(s0), how, "assembled")
    rest = [k for k in E.names if k not in s0]
    if len(rest) >= 1:
        s1 = R.sample(rest, R.randint(1, len(rest)))
        blocks = _grouping(R, s1)
        E.run_program(obj_j2, blocks, [R.choice(["kw", "pos"]) for _ in blocks], "assembled", hows=("kw",), fixed0=s0)
        E.run_program(obj_j2, [rest[:-1]] if len(rest) > 1 else [rest], ["kw"], "assembled", hows=("kw", "pos"), fixed0=s0)
    E.malformed_suite(obj_j2, set(s0), "assembled")
    # public single-density constructors
    if len(rest) == 1:
        liks = [pre[k] for k in s0 if _branch(cuqi, pre[k]) == "Likelihood"]
        if len(dens2) == 2 and len(liks) == 1:
            ok, obj_p = E.wellformed(lambda: D.Posterior(liks[0], E.dists[rest[0]]), E.cfg(prog="assembled", op="construct", branch="Posterior"), "Posterior(likelihood, prior)")
            if ok:
                ctx.count("direct_posterior_checked")
                for how in ("kw", "pos"):
                    E.evaluate(obj_p, set(s0), how, "direct_posterior")
        if len(dens2) >= 3 and len(liks) >= 1:
            ok, obj_m = E.wellformed(lambda: D.MultipleLikelihoodPosterior(*dens2), E.cfg(prog="assembled", op="construct", branch="MultipleLikelihoodPosterior"), "MultipleLikelihoodPosterior(*densities)")
            if ok:
                ctx.count("direct_mlp_checked")
                for how in ("kw", "pos"):
                    E.evaluate(obj_m, set(s0), how, "direct_mlp")


def history_program(E, obj_j):
    """One intermediate object used for two different continuations; everything is evaluated again afterwards."""
    R, names = E.R, E.names
    if len(names) < 2:
        return
    s1 = R.sample(names, R.randint(1, len(names) - 1))
    obj_1 = E.condition(obj_j, s1, "kw", set(), "history")
    if obj_1 is None:
        return
    rest = [k for k in names if k not in s1]
    E.evaluate(obj_1, set(s1), "kw", "history")
    kids = []
    for _ in range(2):
        s2 = R.sample(rest, R.randint(1, len(rest)))
        if _branch(E.cuqi, obj_1) in ("Posterior",):
            ps = "pos"        # keyword conditioning of a reduced Posterior is the separately reported known defect
        else:
            ps = R.choice(["kw", "pos"])
        obj_2 = E.condition(obj_1, s2, ps, set(s1), "history")
        if obj_2 is not None:
            kids.append((obj_2, set(s1) | set(s2)))
            E.evaluate(obj_2, set(s1) | set(s2), "kw", "history")
    # re-evaluate parent and children after all of them were derived and used
    E.ctx.count("history_recheck")
    E.evaluate(obj_1, set(s1), R.choice(["kw", "pos"]), "history_recheck")
    for obj_2, fx in kids:
        E.evaluate(obj_2, fx, "kw", "history_recheck")


def selftest(ctx):
    bad = G.selftest()
    for b in bad:
        ctx.inconclusive("reference density disagrees with scipy: " + b)
    # the reference graph evaluator must be order independent and additive
    rs = np.random.RandomState(7)
    for i in range(6):
        R = core.rng_for("selftest", i)
        struct = gen_struct(R, PROFILES[i % len(PROFILES)])
        graph = G.materialize(struct, rs)
        env = G.draw_assignment(graph, rs)
        a = G.joint_logd(graph, env); b = G.joint_logd(list(reversed(graph)), env)
        if not (math.isfinite(a) and abs(a - b) <= 1e-9 * (1 + abs(a))):
            ctx.inconclusive(f"reference joint evaluator not order independent: {a} vs {b}")
