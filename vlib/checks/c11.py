"""C11 - conditioning, evaluating and sampling never alter the objects they start from.

Workload: generated model graphs (hierarchical inverse problems d,l -> x -> y[,y2,y3] with
Gaussian/GMRF/LMRF/CMRF/Laplace/Lognormal/Regularized priors, linear / function-backed /
non-linear forward models, 1-3 data nodes; scalar chains a -> b -> c over nine families; loose
conditionals with None parameters), and on each of them a random *program* of 5-200 operations
{condition (keyword/positional/empty), logd, gradient, sample, to_likelihood, model(dist),
model evaluation, enable/disable_FD on a copy, compute_cov on a copy, get_matrix, _as_stacked,
run a sampler on a conditioned copy} applied to the originals and to derived copies in
interleaved order; Gibbs runs (HybridGibbs, legacy Gibbs) and Gibbs-like re-conditioning loops
of up to 5000 sweeps.
Monitors: behavioural fingerprints (names, parameter names, conditioning variables, dim,
is_cond, FD flags, _constant, mutable-variable values, logd / gradient at fixed probe points
through keyword and positional interfaces, seeded samples, Gaussian factor matrices, model
forward/adjoint/gradient/matrix) of every original before, during and after the program; of every
derived copy at birth and at the end; of a *twin world* built afresh from the same descriptor on
which only the derivations are replayed.
Oracle: fingerprints unchanged / equal to the twin; names of copies equal the original's name and
the _original_density chain ends in the original; parameter names equal the reference table
(vlib/refs/c11_graph.py); a conditioned copy evaluates like its source at the fixed values.
"""
import numpy as np
from vlib import core
from vlib.refs import c11_graph as G

PROPERTY = "C11"
RULE = ("seeded generation of (graph template, family/parametrisation/model/noise options, joint order, program length); "
        "programs are generated on the fly from the pool of live objects; a case is non-trivial when at least one derived "
        "copy was created, the originals' fingerprints were compared after operations with >= 60 % of fingerprint fields being "
        "values (not refusals) and the twin-world comparison ran; distinct = distinct descriptors, sub-cases = (template, "
        "class of original, operation kind) combinations whose effect on an original was checked")
ASSUMPTIONS = ["fingerprints are compared with rtol 1e-9 (GMRF construction uses ARPACK with a random start vector)",
               "operations that are documented to modify the object they are called on (enable_FD, disable_FD, compute_cov) "
               "are applied to derived copies only; Likelihood.enable_FD is documented to forward to the wrapped distribution and "
               "is therefore never applied to a Likelihood made by to_likelihood() directly from an original",
               "the name of a Posterior (inferred from the Python variable name) is not judged",
               "dim/geometry of a still-conditional distribution whose size is not determined yet are not queried (the getter caches "
               "a guessed dimension 1 on the object; reading dim is not an operation of the property) - its private geometry must stay size-less"]
REQUIRED_COUNTERS = {"quick": {"original_fingerprints_compared": 4000, "fingerprint_fields_compared": 200000,
                               "derived_fingerprints_compared": 5000, "twin_fingerprints_compared": 2200,
                               "sibling_vs_fresh_derivation": 1000, "copy_name_checked": 4000, "origin_chain_checked": 3000,
                               "op_results_vs_baseline": 3000, "cond_consistency_checked": 3000, "model_args_vs_reference": 150,
                               "sampler_runs_completed": 150, "gibbs_sweeps_observed": 400, "gibbs_chain_vs_untouched_twin": 10,
                               "recondition_loop_steps": 3500, "loop_conditional_vs_joint": 500, "autoname_names_checked": 150, "state_checked_after_malformed_op": 700, "malformed_ops_refused": 400, "bp_ops": 30, "reuse_requests": 300, "reuse_levels_checked": 80,
                               "reuse_repeat_identical": 300, "reuse_joint_consistency": 300},
                     "thorough": {"original_fingerprints_compared": 40000, "fingerprint_fields_compared": 2000000,
                                  "derived_fingerprints_compared": 50000, "twin_fingerprints_compared": 22000,
                                  "sibling_vs_fresh_derivation": 10000, "copy_name_checked": 40000, "origin_chain_checked": 30000,
                                  "op_results_vs_baseline": 30000, "cond_consistency_checked": 30000, "model_args_vs_reference": 1500,
                                  "sampler_runs_completed": 1500, "gibbs_sweeps_observed": 3000, "gibbs_chain_vs_untouched_twin": 70,
                                  "recondition_loop_steps": 60000, "loop_conditional_vs_joint": 8000, "autoname_names_checked": 1300, "state_checked_after_malformed_op": 7000, "malformed_ops_refused": 4000, "bp_ops": 200, "reuse_requests": 2500, "reuse_levels_checked": 700,
                                  "reuse_repeat_identical": 2500, "reuse_joint_consistency": 2500}}
BUDGET_S = {"quick": 600.0, "thorough": 3000.0}   # watchdog only; typical use is far below (see report)

RTOL, ATOL = 1e-9, 1e-12

# --------------------------------------------------------------------------- case generation

def _hier_opts(R, tier):
    big = tier == "thorough" and R.random() < 0.03
    n = R.randint(76, 84) if big else R.randint(5, 10)
    bc = R.choice(["zero", "zero", "periodic", "neumann"])
    # order-2 Neumann GMRFs have a 2-dimensional null space but an assumed rank of dim-1: their log-determinant is the log of
    # round-off noise and differs between two constructions of the same object (C20 known finding) -> not a well-posed input here
    gorder = 1 if bc == "neumann" else R.choice([1, 1, 2])
    return {"n": n, "m": R.randint(3, 8), "xprior": R.choice(G.HIER_XPRIORS), "noise": R.choice(G.HIER_NOISES),
            "model": R.choice(G.HIER_MODELS), "lik": R.choice(G.HIER_LIKS), "ndata": R.choice([1, 1, 1, 2, 3]),
            "xmean": R.choice(["zero", "vec"]), "bc": bc, "gorder": gorder, "arg": R.choice(["x", "u"]), "hyper": R.choice(["gamma", "gamma", "uniform", "invgamma"]),
            "order": R.randint(0, 719), "defer": R.choice(G.DEFERRED),
            "scale": R.choice([1.0, 1.0, 1.0, 1.0, 1e-4, 1e4])}   # magnitude of forward operator, data and noise level

def _chain_opts(R, tier):
    return {"k": R.choice([1, 1, 2, 3]), "a": R.choice(G.CHAIN_ROOTS), "b": R.choice(G.CHAIN_B), "c": R.choice(G.CHAIN_C),
            "loose": R.choice(G.CHAIN_LOOSE), "order": R.randint(0, 5), "defer": R.choice(G.DEFERRED)}

AUTONAME_FAMILIES = ["gauss_fun", "gauss_model", "normal_fun", "laplace_fun", "lognormal_fun", "gmrf_prec", "cauchy_fun",
                     "gamma_root", "gauss_root", "uniform_root", "beta_root", "joint_xy"]

GIBBS_X = ["gmrf_d", "gauss_cov_d", "gauss_prec_d", "lmrf_d", "reg_d", "reggmrf_d", "gmrf_fix", "gauss_covmat"]

def cases(tier, seed):
    R = core.rng_for(seed, PROPERTY, tier)
    out = []
    nseq = 500 if tier == "quick" else 5000
    for i in range(nseq):
        tpl = "hier" if R.random() < 0.55 else "chain"
        opts = _hier_opts(R, tier) if tpl == "hier" else _chain_opts(R, tier)
        nops = R.choice([5, 8, 12, 20, 30, 40, 60, 80]) if R.random() < 0.85 else R.choice([120, 160, 200])
        out.append({"kind": "seq", "i": i, "tpl": tpl, "opts": opts, "nops": nops})
    ngibbs = 32 if tier == "quick" else 240
    for i in range(ngibbs):
        opts = _hier_opts(R, tier)
        opts.update({"n": R.randint(5, 9), "xprior": R.choice(GIBBS_X), "noise": R.choice(["cov_l", "prec_l", "cov_l", "fixed_s"]),
                     "model": R.choice(["mat", "fun", "geom", "mat"]), "lik": "gauss", "hyper": "gamma", "ndata": 1})
        xs = R.choice(["auto", "auto", "mh", "nuts", "mala", "cwmh", "pcn"])
        if opts["xprior"] in ("reg_d", "reggmrf_d") or (xs == "pcn" and not opts["xprior"].startswith("gauss")):
            xs = "auto"        # implicit priors have no density; pCN needs a Gaussian prior
        if not opts["xprior"].endswith("_d") and not opts["noise"].endswith("_l"):
            opts["noise"] = "cov_l"      # Gibbs needs at least two blocks
        out.append({"kind": "gibbs", "i": i, "tpl": "hier", "opts": opts, "iface": R.choice(["hybrid", "hybrid", "legacy"]),
                    "sweeps": R.choice([5, 10, 20]), "xsampler": xs})
    nloop = 12 if tier == "quick" else 40
    for i in range(nloop):
        tpl = "hier" if i % 3 else "chain"
        opts = _hier_opts(R, tier) if tpl == "hier" else _chain_opts(R, tier)
        if tpl == "hier":
            opts["n"] = R.randint(5, 8)
        else:
            opts["c"] = R.choice(["gauss_ab", "normal_a_b", "gauss_b", "lognormal_ab"])
        steps = 300 if tier == "quick" else (5000 if i % 5 == 0 else 600)
        out.append({"kind": "loop", "i": i, "tpl": tpl, "opts": opts, "sweeps": steps})
    nauto = 48 if tier == "quick" else 400
    for i in range(nauto):
        out.append({"kind": "autoname", "i": i, "tpl": "autoname", "family": AUTONAME_FAMILIES[i % len(AUTONAME_FAMILIES)],
                    "order": ["copy_first", "name_first", "copy_first_reversed"][(i // len(AUTONAME_FAMILIES)) % 3], "opts": {}})
    nbp = 18 if tier == "quick" else 120
    for i in range(nbp):
        opts = _hier_opts(R, tier)
        opts.update({"n": R.randint(5, 8), "xprior": ["lmrf_fix", "cmrf_fix", "gmrf_fix", "gauss_covmat", "laplace_fix", "lmrf_fix"][i % 6],
                     "noise": R.choice(["fixed_s", "fixed_v"]), "model": R.choice(["mat", "fun", "geom"]), "lik": "gauss", "ndata": 1,
                     "defer": "none", "scale": 1.0, "bc": "zero", "gorder": 1})
        if i % 2 == 0:
            opts["m"] = opts["n"]
        out.append({"kind": "bp", "i": i, "tpl": "hier", "opts": opts})
    nreuse = 60 if tier == "quick" else 500
    for i in range(nreuse):
        tpl = "chain" if i % 2 else "hier"
        opts = _hier_opts(R, tier) if tpl == "hier" else _chain_opts(R, tier)
        if tpl == "hier":
            opts.update({"n": R.randint(5, 8), "defer": "none"})
        else:
            opts["defer"] = "none"
            if i % 4 == 1:
                opts["c"] = R.choice(["gauss_ab", "normal_a_b", "gauss_b", "lognormal_ab"])
        out.append({"kind": "reuse", "i": i, "tpl": tpl, "opts": opts, "depth": 1 + i % 3, "reps": R.choice([2, 3, 4])})
    # the few long cases first (spread over the shards), so that a wall-clock budget cuts programs, not whole case kinds
    rank = {"loop": 0, "gibbs": 1, "autoname": 1, "bp": 1, "reuse": 1, "seq": 2}
    out.sort(key=lambda c: (rank[c["kind"]], -c.get("sweeps", 0) if c["kind"] == "loop" else c["i"]))
    return out

def crash_config(case):
    o = case.get("opts", {})
    cfg = {"kind": case.get("kind"), "tpl": case.get("tpl")}
    for k in ("xprior", "noise", "model", "lik", "a", "b", "c", "loose"):
        if k in o:
            cfg[k] = o[k]
    return cfg

# --------------------------------------------------------------------------- worlds

class World:
    def __init__(self, case):
        self.case = case
        self.st = G.structure(case)
        self.dists = {}      # name -> original Distribution
        self.models = {}     # id -> original Model
        self.loose = {}      # id -> standalone conditional distribution
        self.joint = None
        self.probes = {}     # parameter name -> list of 3 admissible values
        self.vecs = {}       # dimension -> list of 3 fixed vectors
        self.data_names = []
        self.orig_ids = set()   # ids of original objects (their factors are fingerprinted separately)

    def vec(self, n, j):
        if n not in self.vecs:
            r = np.random.RandomState(1000 + int(n))
            self.vecs[n] = [r.standard_normal(int(n)) for _ in range(3)]
        return self.vecs[n][j % 3]

    def originals(self):
        out = [("o:" + k, v) for k, v in self.dists.items()]
        out += [("o:" + k, v) for k, v in self.loose.items()]
        out += [("m:" + k, v) for k, v in self.models.items()]
        if self.joint is not None:
            out.append(("o:J", self.joint))
        return out

def _spd(rs, n):
    Q = rs.standard_normal((n, n))
    return Q @ Q.T / n + np.eye(n)

def _probe(rs, support, k, scalar=False):
    out = []
    for _ in range(3):
        if support == "real":
            v = rs.standard_normal(k)
        elif support == "pos":
            v = np.exp(0.5 * rs.standard_normal(k))
        elif support == "unit":
            v = rs.uniform(0.2, 0.8, k)
        elif support == "interval":       # inside (-1, 2) used by all Uniform nodes
            v = rs.uniform(-0.6, 1.6, k)
        else:
            raise ValueError(support)
        out.append(float(v[0]) if scalar else v)
    return out

def build_world(case):
    """Deterministic: the same descriptor always yields numerically identical objects."""
    rs = core.np_rng("world", PROPERTY, core.canon({k: case[k] for k in ("tpl", "opts")}))
    W = World(case)
    if case["tpl"] == "hier":
        _build_hier(W, case["opts"], rs)
    else:
        _build_chain(W, case["opts"], rs)
    _build_deferred(W, case["opts"], rs)
    import cuqi
    W.joint = cuqi.distribution.JointDistribution(*[W.dists[n] for n in W.st["nodes"]])
    W.orig_ids = {id(o) for _, o in W.originals()}
    return W

def _build_deferred(W, o, rs):
    """A distribution whose size is unknown until it is conditioned (no geometry, all size-bearing parameters are
    conditioning variables). Its probe values number 0/1/2 have lengths 3/5/2, so copies derived from this one original
    get different dimensions; the original itself must stay dimension-less."""
    import cuqi
    D = cuqi.distribution
    kind = o.get("defer", "none")
    if kind == "none":
        return
    if kind == "normal_ms":
        e = D.Normal(lambda m: m, lambda s: s, name="e")
    elif kind == "laplace_none":
        e = D.Laplace(None, None, name="e")
    elif kind == "gamma_ms":
        e = D.Gamma(lambda m: 1 + m ** 2, lambda s: s, name="e")
    elif kind == "uniform_ms":
        e = D.Uniform(lambda m: m - 1, lambda m, s: m + 1 + s, name="e")
    else:
        e = D.Cauchy(lambda m: m, lambda s: s, name="e")
    W.loose["e"] = e
    size_par, scale_par = G.DEFERRED_DEPS[kind]
    W.probes[size_par] = [0.5 * rs.standard_normal(L) for L in G.DEFERRED_LENGTHS]
    W.probes[scale_par] = [float(v) for v in np.exp(0.3 * rs.standard_normal(3))]
    if kind == "gamma_ms":
        W.probes["e"] = [np.exp(0.4 * rs.standard_normal(L)) for L in G.DEFERRED_LENGTHS]
    else:
        W.probes["e"] = [W.probes[size_par][j] + 0.3 for j in range(3)]

def _build_hier(W, o, rs):
    import cuqi, scipy.sparse as sp
    D, IP = cuqi.distribution, cuqi.implicitprior
    n, m = o["n"], o["m"]
    st = W.st
    sc = 1.0 if o["lik"] == "lognormal" else float(o.get("scale", 1.0))
    # ---- hyper-parameters
    def hyper(name):
        if o["hyper"] == "gamma":
            return D.Gamma(float(rs.uniform(1, 3)), float(rs.uniform(0.5, 2)), name=name)
        if o["hyper"] == "uniform":
            return D.Uniform(0.05, 60.0, name=name)
        return D.InverseGamma(3.0, 0.0, 2.0, name=name)
    if "d" in st["deps"]:
        W.dists["d"] = hyper("d"); W.probes["d"] = _probe(rs, "pos", 1, scalar=True)
    if "l" in st["deps"]:
        W.dists["l"] = hyper("l"); W.probes["l"] = _probe(rs, "pos", 1, scalar=True)
    # ---- prior of x
    mean = np.zeros(n) if o["xmean"] == "zero" else 0.3 * rs.standard_normal(n)
    xp = o["xprior"]
    C = _spd(rs, n)
    if xp == "gmrf_d":
        x = D.GMRF(mean, lambda d: d, bc_type=o["bc"], order=o["gorder"], name="x")
    elif xp == "gmrf_fix":
        x = D.GMRF(mean, 2.5, bc_type=o["bc"], order=o["gorder"], name="x")
    elif xp == "gauss_cov_d":
        x = D.Gaussian(mean, cov=lambda d: 1 / d, name="x")
    elif xp == "gauss_prec_d":
        x = D.Gaussian(mean, prec=lambda d: d, name="x")
    elif xp == "gauss_sqrtprec_d":
        x = D.Gaussian(mean, sqrtprec=lambda d: np.sqrt(d), name="x")
    elif xp == "gauss_sqrtcov_d":
        x = D.Gaussian(mean, sqrtcov=lambda d: 1 / np.sqrt(d), name="x")
    elif xp == "gauss_covmat":
        x = D.Gaussian(mean, cov=C, name="x")
    elif xp == "gauss_precmat":
        x = D.Gaussian(mean, prec=C, name="x")
    elif xp == "gauss_sqrtprecmat":
        x = D.Gaussian(mean, sqrtprec=np.linalg.cholesky(C).T, name="x")
    elif xp == "gauss_covvec":
        x = D.Gaussian(mean, cov=rs.uniform(0.5, 2, n), name="x")
    elif xp == "lmrf_d":
        x = D.LMRF(0, lambda d: 1 / d, bc_type=o["bc"], geometry=n, name="x")
    elif xp == "lmrf_fix":
        x = D.LMRF(mean, 0.4, bc_type=o["bc"], geometry=n, name="x")
    elif xp == "cmrf_fix":
        x = D.CMRF(mean, 0.4, bc_type=o["bc"], geometry=n, name="x")
    elif xp == "laplace_fix":
        x = D.Laplace(mean, 0.8, name="x")
    elif xp == "reg_d":
        x = IP.RegularizedGaussian(mean, prec=lambda d: d, constraint="nonnegativity", name="x")
    elif xp == "reg_fix":
        x = IP.RegularizedGaussian(mean, cov=rs.uniform(0.5, 2, n), regularization="l1", strength=0.7, name="x")
    elif xp == "reggmrf_d":
        x = IP.RegularizedGMRF(np.zeros(n), prec=lambda d: d, bc_type=o["bc"], constraint="nonnegativity", name="x")
    elif xp == "con_fix":
        x = IP.ConstrainedGaussian(mean, cov=0.5, constraint="box", lower_bound=-np.ones(n), upper_bound=np.ones(n), name="x")
    elif xp == "uniform_fix":
        x = D.Uniform(-np.ones(n), 2 * np.ones(n), name="x")
    elif xp == "lognormal_fix":
        x = D.Lognormal(mean, 0.3 * C, name="x")
    elif xp == "udd":
        mu = mean.copy()
        x = D.UserDefinedDistribution(dim=n, logpdf_func=lambda x: -0.5 * float(np.sum((x - mu) ** 2)),
                                      gradient_func=lambda x: -(x - mu), sample_func=lambda: mu + np.random.standard_normal(n), name="x")
    else:
        raise ValueError(xp)
    W.dists["x"] = x
    W.probes["x"] = _probe(rs, st["support"]["x"], n)
    # ---- forward models (one per data node)
    def make_model(kind, A, tag):
        mm = A.shape[0]
        if kind == "mat":
            M = cuqi.model.LinearModel(A)
        elif kind == "spmat":
            M = cuqi.model.LinearModel(sp.csr_matrix(A))
        elif kind == "fun":
            if o["arg"] == "u":
                M = cuqi.model.LinearModel(lambda u: A @ u, lambda w: A.T @ w, range_geometry=mm, domain_geometry=n)
            else:
                M = cuqi.model.LinearModel(lambda x: A @ x, lambda y: A.T @ y, range_geometry=mm, domain_geometry=n)
        elif kind == "geom":
            M = cuqi.model.LinearModel(A, range_geometry=cuqi.geometry.Continuous1D(mm), domain_geometry=cuqi.geometry.Continuous1D(n))
        elif kind in ("nl_jac", "nl_grad", "nl_nograd"):
            if o["arg"] == "u":
                f = lambda u: A @ np.tanh(u)
            else:
                f = lambda x: A @ np.tanh(x)
            if kind == "nl_jac":
                M = cuqi.model.Model(f, mm, n, jacobian=lambda wrt: A * (1 - np.tanh(wrt) ** 2)[None, :])
            elif kind == "nl_grad":
                M = cuqi.model.Model(f, mm, n, gradient=lambda direction, wrt: (A * (1 - np.tanh(wrt) ** 2)[None, :]).T @ direction)
            else:
                M = cuqi.model.Model(f, mm, n)
        else:
            return None
        W.models[tag] = M
        return M
    def noise_kwargs(kind, mm):
        if kind == "cov_l":
            return {"cov": lambda l: 1 / l}
        if kind == "prec_l":
            return {"prec": lambda l: l}
        if kind == "sqrtprec_l":
            return {"sqrtprec": lambda l: np.sqrt(l)}
        if kind == "sqrtcov_l":
            return {"sqrtcov": lambda l: 1 / np.sqrt(l)}
        if kind == "fixed_s":
            return {"cov": 0.3 * sc ** 2}
        if kind == "fixed_v":
            return {"cov": rs.uniform(0.2, 1.0, mm) * sc ** 2}
        return {"cov": 0.3 * _spd(rs, mm) * sc ** 2}
    for k in range(1, o["ndata"] + 1):
        name = "y" if k == 1 else "y%d" % k
        mm = m if k == 1 else int(rs.randint(2, 6))
        A = sc * rs.standard_normal((mm, n)) / np.sqrt(n)
        kind = o["model"] if k == 1 else ("mat" if k == 2 else "fun")
        M = make_model(kind, A, "M%d" % k)
        if M is None:   # raw callable, no Model object
            loc = (lambda A_: (lambda x: A_ @ x))(A)
        else:
            loc = M(W.dists["x"])        # renaming by application to the distribution
        lik = o["lik"] if k == 1 else "gauss"
        nk = noise_kwargs(o["noise"] if k == 1 else "fixed_s", mm)
        if lik == "gauss":
            y = D.Gaussian(loc, name=name, geometry=mm, **nk) if M is None else D.Gaussian(loc, name=name, **nk)
        elif lik == "lognormal":   # inner Gaussian needs a dimension: fixed full covariance (no l-dependence, see refs)
            y = D.Lognormal(loc, 0.3 * _spd(rs, mm), name=name, geometry=mm)
        else:
            lsc = (lambda l: 1 / l) if "l" in st["deps"] else 0.5 * sc
            y = D.Laplace(loc, lsc, name=name, geometry=mm)
        W.dists[name] = y
        W.probes[name] = [sc * v for v in _probe(rs, st["support"][name], mm)]
        W.data_names.append(name)
    W.loose["z"] = D.Gaussian(np.zeros(n), 1.5, name="z")
    W.probes["z"] = _probe(rs, "real", n)

def _build_chain(W, o, rs):
    import cuqi
    D = cuqi.distribution
    k = o["k"]
    st = W.st
    sc = (k == 1)
    pos = lambda v: 1 + v ** 2            # maps any support into the positive reals
    ra = o["a"]
    if ra == "normal":
        a = D.Normal(0.3 * np.ones(k) if k > 1 else 0.3, 1.2 * np.ones(k) if k > 1 else 1.2, name="a")
    elif ra == "gauss":
        a = D.Gaussian(0.2 * np.ones(k), cov=_spd(rs, k) if k > 1 else 1.3, name="a")
    elif ra == "uniform":
        a = D.Uniform(-np.ones(k) if k > 1 else -1.0, 2 * np.ones(k) if k > 1 else 2.0, name="a")
    elif ra == "beta":
        a = D.Beta(2.0 * np.ones(k), 3.0 * np.ones(k), name="a")
    elif ra == "gamma":
        a = D.Gamma(2.0 * np.ones(k) if k > 1 else 2.0, 1.5 * np.ones(k) if k > 1 else 1.5, name="a")
    elif ra == "invgamma":
        a = D.InverseGamma(3.0 * np.ones(k), np.zeros(k), 2.0 * np.ones(k), name="a")
    elif ra == "lognormal":
        a = D.Lognormal(0.1 * np.ones(k), 0.4 * (_spd(rs, k) if k > 1 else 1.0), name="a")
    elif ra == "cauchy":
        a = D.Cauchy(0.1 * np.ones(k), 0.7, name="a")
    else:
        a = D.Laplace(0.1 * np.ones(k), 0.9, name="a")
    W.dists["a"] = a
    W.probes["a"] = _probe(rs, st["support"]["a"], k, scalar=sc and ra in ("normal", "uniform", "gamma"))
    kb = o["b"]
    if kb == "normal_mean":
        b = D.Normal(lambda a: a, 0.7, name="b", geometry=k)
    elif kb == "normal_std":
        b = D.Normal(0.2, lambda a: pos(a), name="b", geometry=k)
    elif kb == "normal_both":
        b = D.Normal(lambda a: a, lambda a: pos(a), name="b", geometry=k)
    elif kb == "gauss_mean":
        b = D.Gaussian(lambda a: a, cov=0.5, name="b", geometry=k)
    elif kb == "gauss_cov":
        b = D.Gaussian(np.zeros(k), cov=lambda a: pos(a), name="b")
    elif kb == "laplace_loc":
        b = D.Laplace(lambda a: a, 0.8, name="b", geometry=k)
    elif kb == "cauchy_loc":
        b = D.Cauchy(lambda a: a, 0.5, name="b", geometry=k)
    elif kb == "lognormal_mean":
        b = D.Lognormal(lambda a: a, 0.4 * np.eye(k), name="b", geometry=k)
    elif kb == "lognormal_cov":
        b = D.Lognormal(np.zeros(k), lambda a: pos(a), name="b")
    elif kb == "gamma_rate":
        b = D.Gamma(2.0, lambda a: pos(a), name="b", geometry=k)
    else:
        b = D.Beta(lambda a: pos(a), 2.0 * np.ones(k), name="b", geometry=k)
    W.dists["b"] = b
    W.probes["b"] = _probe(rs, st["support"]["b"], k)
    kc = o["c"]
    if kc == "gauss_ab":
        W.dists["c"] = D.Gaussian(lambda a, b: a + b, cov=0.6, name="c", geometry=k)
    elif kc == "normal_a_b":
        W.dists["c"] = D.Normal(lambda b: b, lambda a: pos(a), name="c", geometry=k)
    elif kc == "gauss_b":
        W.dists["c"] = D.Gaussian(lambda b: 2 * b, cov=lambda a: pos(a), name="c", geometry=k)
    elif kc == "lognormal_ab":
        W.dists["c"] = D.Lognormal(lambda a, b: 0.5 * (a - b), 0.5 * np.eye(k), name="c", geometry=k)
    if kc != "none":
        W.probes["c"] = _probe(rs, st["support"]["c"], k)
    lo = o["loose"]
    if lo == "normal_none":
        W.loose["q"] = D.Normal(name="q", geometry=k)
        W.probes["mean"] = _probe(rs, "real", k); W.probes["std"] = _probe(rs, "pos", k)
    elif lo == "gauss_none":
        W.loose["q"] = D.Gaussian(name="q", geometry=k)
        W.probes["mean"] = _probe(rs, "real", k); W.probes["cov"] = _probe(rs, "pos", k)
    elif lo == "gauss_mean_none":
        W.loose["q"] = D.Gaussian(None, prec=_spd(rs, k) if k > 1 else 2.0, name="q", geometry=k)
        W.probes["mean"] = _probe(rs, "real", k)
    elif lo == "lognormal_none":
        W.loose["q"] = D.Lognormal(None, 0.5 * np.eye(k), name="q", geometry=k)
        W.probes["mean"] = _probe(rs, "real", k)
    if lo != "none":
        W.probes["q"] = _probe(rs, "pos" if lo == "lognormal_none" else "real", k)

# --------------------------------------------------------------------------- fingerprints

def _norm(r):
    import scipy.sparse as sp
    if r is None or isinstance(r, (str, bool)):
        return r
    if isinstance(r, (int, float, np.integer, np.floating)):
        return np.array([float(r)])
    if hasattr(r, "samples") and hasattr(r, "Ns"):
        return np.array(r.samples, dtype=float)
    if sp.issparse(r):
        return np.asarray(r.toarray(), dtype=float)
    if isinstance(r, np.ndarray):
        try:
            return np.array(r, dtype=float)
        except Exception:  # noqa
            return "array:" + str(r.dtype)
    if isinstance(r, (list, tuple)):
        if all(isinstance(s, str) for s in r):
            return list(r)
        try:
            return np.asarray(r, dtype=float)
        except Exception:  # noqa
            return "seq:" + ",".join(type(s).__name__ for s in r)
    return "obj:" + type(r).__name__

def _val(fn):
    try:
        r = fn()
    except Exception as e:  # noqa - the kind of refusal is part of the behaviour
        return ("exc", type(e).__name__)
    return ("v", _norm(r))

def _same(a, b, rtol=None, atol=None):
    rtol = RTOL if rtol is None else rtol
    atol = ATOL if atol is None else atol
    if a[0] != b[0]:
        return False
    x, y = a[1], b[1]
    if isinstance(x, np.ndarray) or isinstance(y, np.ndarray):
        if not (isinstance(x, np.ndarray) and isinstance(y, np.ndarray)) or x.shape != y.shape:
            return False
        fx, fy = np.isfinite(x), np.isfinite(y)
        if not np.array_equal(fx, fy):
            return False
        if not np.array_equal(x[~fx], y[~fy], equal_nan=True):
            return False
        if not fx.any():
            return True
        scale = max(float(np.max(np.abs(x[fx]))), float(np.max(np.abs(y[fy]))))
        return bool(np.all(np.abs(x[fx] - y[fy]) <= atol + rtol * scale))
    return x == y

def _any_fd(f):
    return any(k.split(".")[-1] == "FD" and v[0] == "v" and str(v[1]).startswith("True") for k, v in f.items())

def fp_diff(f1, f2):
    """Keys on which two fingerprints differ. Gradients of objects with finite differences switched on amplify the last-bit
    differences between two constructions of the same world (ARPACK start vector in GMRF) by 1/epsilon: they are compared
    with rtol 1e-3 (the FD flag itself is a separate, exactly compared field)."""
    bad = [k for k in f1 if k not in f2] + [k for k in f2 if k not in f1]
    fd = _any_fd(f1) or _any_fd(f2)
    for k in f1:
        if k in f2 and not _same(f1[k], f2[k]):
            if fd and k.split(".")[-1].startswith("grad") and _same(f1[k], f2[k], rtol=1e-3, atol=1e-6):
                continue
            bad.append(k)
    return bad

def _show(v):
    if v is None:
        return "<absent>"
    if v[0] == "exc":
        return "raises " + v[1]
    x = v[1]
    if isinstance(x, np.ndarray):
        return np.array2string(x.ravel()[:6], precision=8) + ("..." if x.size > 6 else "")
    return repr(x)

def _root(obj):
    o, depth = obj, 0
    while getattr(o, "_original_density", None) is not None and depth < 10000:
        o = o._original_density; depth += 1
    return o, depth

def _has_rng(obj):
    import inspect
    try:
        return "rng" in inspect.signature(obj._sample).parameters
    except Exception:  # noqa
        return False

def _seeded_sample(obj, N, seed, use_rng):
    """Seeded draw; the global stream is seeded as well (and restored) because some families ignore rng=."""
    state = np.random.get_state()
    try:
        np.random.seed(seed)
        if use_rng and _has_rng(obj):
            return obj.sample(N, rng=np.random.RandomState(seed))
        return obj.sample(N)
    finally:
        np.random.set_state(state)

def _digest_value(W, v):
    import cuqi, scipy.sparse as sp
    from scipy.sparse.linalg import LinearOperator
    if isinstance(v, cuqi.model.Model):
        return ("v", "model:%s:%s" % (type(v).__name__, ",".join(v._non_default_args)))
    if isinstance(v, LinearOperator):
        return _val(lambda: v @ W.vec(v.shape[1], 0))
    if callable(v):
        return _val(lambda: "callable:" + ",".join(cuqi.utilities.get_non_default_args(v)))
    if sp.issparse(v):
        return _val(lambda: np.concatenate([[v.shape[0], v.shape[1]], np.asarray(v @ W.vec(v.shape[1], 0)).ravel()]))
    return ("v", _norm(v))

def _probe_kwargs(W, names, j):
    return {p: W.probes[p][j] for p in names}

def eval_keys(obj, names, light=False):
    """Names of the evaluation fields of the fingerprint of `obj`."""
    import cuqi
    D = cuqi.distribution
    is_joint = isinstance(obj, D.JointDistribution)
    is_dist = isinstance(obj, D.Distribution)
    keys = []
    for j in ((0,) if light else (0, 1)):
        if type(obj).__name__ == "_StackedJointDistribution":
            keys.append("logd_stacked%d" % j)
            continue
        keys += ["logd_kw%d" % j, "logd_pos%d" % j]
        if not is_joint or is_dist:
            keys.append("grad%d" % j)
            if isinstance(obj, cuqi.likelihood.Likelihood):
                keys.append("grad_kw%d" % j)
    if is_dist and not is_joint:
        keys.append("sample_rng")
        if not light:
            keys.append("sample_glob")
    return keys

def eval_field(obj, W, key, names=None):
    """One evaluation field (single source of truth for fingerprints and for per-operation comparisons)."""
    import cuqi
    if key == "sample_rng":
        return _val(lambda: _seeded_sample(obj, 3, 0, True))
    if key == "sample_glob":
        return _val(lambda: _seeded_sample(obj, 1, 1, False))
    if names is None:
        names = list(obj.get_parameter_names())
    j = int(key[-1])
    kw = _probe_kwargs(W, names, j)
    pos = [kw[p] for p in names]
    if key.startswith("logd_stacked"):
        z = np.concatenate([np.atleast_1d(np.asarray(v, dtype=float)).ravel() for v in pos]) if pos else np.zeros(0)
        return _val(lambda: obj.logd(z))
    if key.startswith("logd_kw"):
        return _val(lambda: obj.logd(**kw))
    if key.startswith("logd_pos"):
        return _val(lambda: obj.logd(*pos))
    if key.startswith("grad_kw"):
        return _val(lambda: obj.gradient(**kw))
    if key.startswith("grad"):
        if isinstance(obj, cuqi.distribution.Distribution) and len(names) > 1:   # conditional: gradient(main, **conditioning)
            return _val(lambda: obj.gradient(kw[names[-1]], **{p: kw[p] for p in names[:-1]}))
        return _val(lambda: obj.gradient(*pos))
    raise KeyError(key)

def fingerprint(obj, W, depth=0, light=False, rev=False):
    """Behavioural fingerprint: {field: ('v', value) | ('exc', exception type)}."""
    import cuqi
    D = cuqi.distribution
    fp = {"cls": ("v", type(obj).__name__)}
    if isinstance(obj, cuqi.model.Model):
        return _fp_model(obj, W, fp)
    if isinstance(obj, cuqi.density.EvaluatedDensity):
        nm = _val(lambda: obj.name)
        if nm[0] == "v" and nm[1] not in W.st["deps"] and nm[1] not in W.st["loose"]:
            nm = ("v", "<inferred>")     # made from a Posterior, whose name is whatever Python variable held it (not judged)
        fp["name"] = nm
        fp["logd"] = _val(lambda: obj.logd())
        fp["par_names"] = _val(obj.get_parameter_names)
        return fp
    names = None
    try:
        names = list(obj.get_parameter_names())
    except Exception as e:  # noqa
        fp["par_names"] = ("exc", type(e).__name__)
    if names is not None:
        fp["par_names"] = ("v", names)
    is_joint = isinstance(obj, D.JointDistribution)
    is_dist = isinstance(obj, D.Distribution)
    is_lik = isinstance(obj, cuqi.likelihood.Likelihood)
    is_post = isinstance(obj, D.Posterior)
    root, _ = _root(obj)
    # Posteriors get their name from the Python variable that happens to hold them (not judged)
    named = is_lik or (is_dist and not is_joint and not isinstance(root, D.Posterior) and getattr(root, "_name", None) is not None)
    if named:
        fp["name"] = _val(lambda: obj.name)
    # A still-conditional distribution without a size (geometry never given, dimension not inferable yet) is not asked for
    # dim/geometry: the getter would cache a guess (1, from a scalar parameter) on the object itself. Reading `dim` is not one
    # of the operations the property speaks about, so the fingerprint must not be the operation that alters the object. The
    # private geometry is peeked instead: it must stay size-less.
    g_ = getattr(obj, "__dict__", {}).get("_geometry")
    # (criterion, stable under the library's own lazy caching: conditional, no size or only the guess 1 inferable from the
    # parameters, stored geometry size-less or 1)
    sizeless = is_dist and not is_joint and g_ is not None and getattr(g_, "par_dim", 0) in (None, 1) and \
        _val(lambda: len(obj.get_conditioning_variables()) > 0) == ("v", True) and \
        _val(lambda: obj._infer_dim_of_mutable_variables() in (None, 1)) == ("v", True)
    fp["dim"] = ("v", "sizeless-conditional") if sizeless else _val(lambda: obj.dim)
    if not is_joint or is_dist:
        fp["FD"] = _val(lambda: "%s/%s" % (obj.FD_enabled, obj.FD_epsilon))
        fp["const"] = _val(lambda: obj._constant)
    if is_dist:
        fp["is_cond"] = _val(lambda: obj.is_cond)
        fp["cond_vars"] = _val(obj.get_conditioning_variables)
        fp["geom"] = ("v", "sizeless-conditional") if sizeless else _val(lambda: "%s%s" % (type(obj.geometry).__name__, obj.geometry.par_shape))
    if is_dist and not is_joint and not is_post:
        mv = _val(lambda: list(obj.get_mutable_variables()))
        fp["mutable_vars"] = mv
        if mv[0] == "v":
            for k in mv[1]:
                fp["var:" + k] = _digest_value(W, _try_get(obj, k))
    if is_lik:
        fp["data"] = _val(lambda: np.asarray(obj.data, dtype=float))
        fp["model"] = _val(lambda: "none" if obj.model is None else "%s:%s" % (type(obj.model).__name__, ",".join(obj.model._non_default_args)))
    if is_joint:
        fp["densities"] = _val(lambda: ["%s:%s" % (type(d_).__name__, d_.name) for d_ in obj._densities])
        fp["fixed"] = _val(lambda: sorted(obj._get_fixed_variables()))
    # ---- evaluations at fixed probe points
    if names is not None and all(p in W.probes for p in names):
        keys = eval_keys(obj, names, light)
        # rev: same fields, evaluated in the opposite order (used on the twin world: behaviour must not depend on
        # which evaluation happened first)
        for key in (reversed(keys) if rev else keys):
            fp[key] = eval_field(obj, W, key, names)
    else:
        fp["probes"] = ("v", "unavailable")
    if isinstance(obj, D.Gaussian):
        n = None
        try:
            n = int(obj.dim)
        except Exception:  # noqa
            pass
        fp["g_sqrtprec"] = _val(lambda: _matdigest(W, obj.sqrtprec, n))
        fp["g_prec"] = _val(lambda: _matdigest(W, obj.prec, n))
        fp["g_cov"] = _val(lambda: _matdigest(W, obj.cov, n))
        fp["g_logdet"] = _val(lambda: obj.logdet)
        fp["g_rank"] = _val(lambda: obj.rank)
    if isinstance(obj, D.GMRF):
        fp["g_sqrtprec"] = _val(lambda: np.asarray(obj.sqrtprec @ W.vec(obj.dim, 0)).ravel())
    if isinstance(obj, D.Lognormal):
        fp["ln_mean"] = _digest_value(W, _try_get(obj._normal, "mean"))
        fp["ln_cov"] = _digest_value(W, _try_get(obj._normal, "cov"))
    if isinstance(obj, cuqi.implicitprior.RegularizedGaussian) and depth < 2:
        sub = fingerprint(obj.gaussian, W, depth + 1, light=True, rev=rev)
        fp.update({"gaussian." + k: v for k, v in sub.items()})
        fp["preset"] = _val(lambda: obj.preset)
        fp["prox"] = _val(lambda: obj.proximal(W.vec(obj.dim, 1), 0.3))
    if is_post and depth < 2:
        for part in ("likelihood", "prior"):
            sub = fingerprint(getattr(obj, part), W, depth + 1, light=True, rev=rev)
            fp.update({part + "." + k: v for k, v in sub.items()})
    if is_joint and depth < 1 and id(obj) not in W.orig_ids:
        for d_ in obj._densities:
            sub = fingerprint(d_, W, depth + 1, light=True, rev=rev)
            fp.update({"[%s]." % sub.get("name", ("v", "?"))[1] + k: v for k, v in sub.items()})
    return fp

def _try_get(obj, k):
    try:
        return getattr(obj, k)
    except Exception as e:  # noqa
        return "raises:" + type(e).__name__

def _matdigest(W, M, n):
    import scipy.sparse as sp
    if M is None:
        return None
    if callable(M) and not hasattr(M, "shape"):
        return "callable"
    if sp.issparse(M) or (hasattr(M, "ndim") and M.ndim == 2 and M.shape[0] > 1):
        return np.concatenate([[M.shape[0], M.shape[1]], np.asarray(M @ W.vec(M.shape[1], 0)).ravel()])
    return np.asarray(M, dtype=float)

def _fp_model(M, W, fp):
    import cuqi
    fp["args"] = _val(lambda: list(M._non_default_args))
    fp["dims"] = _val(lambda: [int(M.domain_dim), int(M.range_dim)])
    fp["geoms"] = _val(lambda: "%s->%s" % (type(M.domain_geometry).__name__, type(M.range_geometry).__name__))
    try:
        n, m = int(M.domain_dim), int(M.range_dim)
    except Exception:  # noqa
        return fp
    for j in (0, 1):
        x, w = 0.5 * W.vec(n, j), W.vec(m, j)
        fp["fwd_pos%d" % j] = _val(lambda: M.forward(x))
        fp["fwd_kw%d" % j] = _val(lambda: M.forward(**{M._non_default_args[0]: x}))
        fp["call%d" % j] = _val(lambda: M(x))
        fp["grad%d" % j] = _val(lambda: M.gradient(w, x))
        if isinstance(M, cuqi.model.LinearModel):
            fp["adj%d" % j] = _val(lambda: M.adjoint(w))
            fp["matmul%d" % j] = _val(lambda: M @ x)
    if isinstance(M, cuqi.model.LinearModel):
        fp["matrix"] = _val(lambda: np.asarray(M.get_matrix() @ W.vec(n, 2)).ravel())
        fp["T"] = _val(lambda: M.T.forward(W.vec(m, 2)))
    return fp

def fp_stats(fp):
    nv = sum(1 for v in fp.values() if v[0] == "v")
    return nv, len(fp) - nv

# --------------------------------------------------------------------------- derivations (replayable on a twin world)

class Ent:
    def __init__(self, eid, obj, recipe=None, born=-1):
        self.id, self.obj, self.recipe, self.born = eid, obj, recipe, born
        self.fp_ref = None
        self.wraps_original = False
        self.mutations = 0
        self.cls = type(obj).__name__

def derive(W, objs, recipe):
    """Execute one derivation step. `objs` maps entity ids to live objects of world W."""
    kind = recipe[0]
    src = objs[recipe[1]]
    if kind == "cond_kw":
        return src(**{n: W.probes[n][j] for n, j in recipe[2]})
    if kind == "cond_pos":
        return src(*[W.probes[n][j] for n, j in recipe[2]])
    if kind == "cond_empty":
        return src()
    if kind == "to_lik":
        return src.to_likelihood(W.probes[recipe[2]][recipe[3]])
    if kind == "model_apply":
        return src(objs[recipe[2]])
    if kind == "stacked":
        return src._as_stacked()
    raise ValueError(kind)

def mutate(obj, what, arg):
    if what == "enable_FD":
        obj.enable_FD(arg)
    elif what == "disable_FD":
        obj.disable_FD()
    elif what == "compute_cov":
        obj.compute_cov()
    else:
        raise ValueError(what)

def check_model_arguments(W, ctx, cfg, where):
    """Original forward models keep the argument name they were built with (reference: refs/c11_graph.model_argument)."""
    for tag, M in W.models.items():
        ctx.count("model_args_vs_reference")
        got = _val(lambda: list(M._non_default_args))
        exp = [G.model_argument(W.case, tag)]
        if got != ("v", exp):
            ctx.violation("original_model_renamed", {**cfg, "object": type(M).__name__, "model": W.case["opts"]["model"] if tag == "M1" else tag},
                          detail=f"{where}: original model {tag} has input arguments {_show(got)}, it was built with {exp}")

def _world_original_by_name(W, name):
    if name in W.dists:
        return W.dists[name]
    return W.loose.get(name)

def _named_parts(obj):
    """Distribution-like parts of a derived object whose names / origin chains can be checked."""
    import cuqi
    D = cuqi.distribution
    out = []
    if isinstance(obj, D.JointDistribution):
        for d_ in obj._densities:
            out += _named_parts(d_)
    elif isinstance(obj, D.Posterior):
        out += _named_parts(obj.likelihood) + _named_parts(obj.prior)
    elif isinstance(obj, cuqi.likelihood.Likelihood):
        out.append(obj.distribution)
    elif isinstance(obj, D.Distribution):
        out.append(obj)
    return out

def check_derived_identity(W, parent, child, ctx, cfg):
    """Names of conditioned copies and the _original_density chain (name lookup) end in the originals."""
    import cuqi
    D = cuqi.distribution
    # (1) direct name of a conditioned Distribution / Likelihood / EvaluatedDensity
    pname = None
    if isinstance(parent, (D.Distribution, cuqi.likelihood.Likelihood)) and not isinstance(parent, (D.JointDistribution, D.Posterior)):
        pname = parent.name
        if isinstance(child, (D.Distribution, cuqi.likelihood.Likelihood, cuqi.density.EvaluatedDensity)):
            ctx.count("copy_name_checked")
            cn = _val(lambda: child.name)
            if cn != ("v", pname):
                ctx.violation("copy_name_changed", {**cfg, "object": type(parent).__name__, "result": type(child).__name__},
                              detail=f"conditioning {type(parent).__name__} named {pname!r} gave {type(child).__name__} whose name {_show(cn)}")
    # (2) joint: names of the factors are preserved, in order
    if isinstance(parent, D.JointDistribution) and isinstance(child, D.JointDistribution):
        ctx.count("copy_name_checked")
        a = _val(lambda: [d_.name for d_ in parent._densities]); b = _val(lambda: [d_.name for d_ in child._densities])
        if a != b:
            ctx.violation("copy_name_changed", {**cfg, "object": type(parent).__name__, "result": type(child).__name__},
                          detail=f"factor names {_show(a)} became {_show(b)}")
    if isinstance(parent, D.JointDistribution) and isinstance(child, D.Posterior):
        ctx.count("copy_name_checked")
        a = [d_.name for d_ in parent._densities]
        got = _val(lambda: [child.likelihood.name, child.prior.name])
        if got[0] != "v" or any(g not in a for g in got[1]) or child.get_parameter_names()[-1] != got[1][1]:
            ctx.violation("copy_name_changed", {**cfg, "object": type(parent).__name__, "result": "Posterior"},
                          detail=f"factor names {a} -> likelihood/prior names {_show(got)}")
    # (3) origin chain of every distribution part
    for part in _named_parts(child):
        root, depth = _root(part)
        nm = getattr(root, "_name", None)
        orig = _world_original_by_name(W, nm) if nm is not None else None
        ctx.count("origin_chain_checked")
        if orig is None or (root is not orig):
            ctx.violation("origin_chain_broken", {**cfg, "object": type(part).__name__},
                          detail=f"_original_density chain of a {type(part).__name__} copy (depth {depth}) ends in an object named {nm!r} that is not the original")
        elif _val(lambda: part.name) != ("v", nm):
            ctx.violation("copy_name_changed", {**cfg, "object": type(part).__name__, "result": type(child).__name__},
                          detail=f"part named {_show(_val(lambda: part.name))}, chain root named {nm!r}")

def check_cond_consistency(W, parent, child, fixed, ctx, cfg):
    """Second line: the conditioned copy evaluates like its source at the fixed values."""
    try:
        pn, cn = list(parent.get_parameter_names()), list(child.get_parameter_names())
    except Exception:  # noqa
        return
    if type(parent).__name__ == "_StackedJointDistribution" or type(child).__name__ == "_StackedJointDistribution":
        return
    if set(cn) | set(fixed) != set(pn) or not all(p in W.probes for p in pn):
        return
    full = {p: (W.probes[p][fixed[p]] if p in fixed else W.probes[p][0]) for p in pn}
    a = _val(lambda: parent.logd(**full))
    b = _val(lambda: child.logd(**{p: full[p] for p in cn}))
    if a[0] != "v" or b[0] != "v" or not isinstance(a[1], np.ndarray) or not isinstance(b[1], np.ndarray):
        return
    ctx.count("cond_consistency_checked")
    sa, sb = np.ravel(a[1]), np.ravel(b[1])
    if sa.size != 1 or sb.size != 1:
        return
    if not _same(("v", sa), ("v", sb)) and not (abs(sa[0] - sb[0]) <= 1e-7 * max(1.0, abs(sa[0]))):
        ctx.violation("conditioned_copy_inconsistent", {**cfg, "object": type(parent).__name__, "result": type(child).__name__},
                      detail=f"{type(parent).__name__}.logd(all)={sa[0]!r} but copy conditioned on {sorted(fixed)} gives logd(rest)={sb[0]!r}")

# --------------------------------------------------------------------------- the operation program

OPS = [("cond", 30), ("cond_empty", 4), ("logd", 14), ("gradient", 8), ("sample", 8), ("to_lik", 6), ("model_apply", 4),
       ("model_eval", 3), ("fd", 5), ("compute_cov", 3), ("get_matrix", 2), ("sampler", 3), ("stacked", 2), ("malformed", 9)]
MAX_ALIVE = 6

def _field_family(k):
    k = k.split(".")[-1]
    return k.rstrip("0123456789")

class Runner:
    def __init__(self, case, seed, ctx, trace=False):
        import cuqi
        self.cuqi = cuqi
        self.case, self.seed, self.ctx, self.trace = case, seed, ctx, trace
        self.W = build_world(case)
        self.rs = core.np_rng(seed, PROPERTY, core.canon(case), "program")
        self.ents = {}
        self.objs = {}
        for eid, obj in self.W.originals():
            e = Ent(eid, obj)
            e.fp_ref = fingerprint(obj, self.W)
            self.ents[eid] = e
            self.objs[eid] = obj
        self.orig_ids = list(self.ents)
        self.alive = []            # ids of derived entities still in the pool
        self.events = []           # chronological derivations / self-mutations (replayed on the twin)
        self.nder = 0
        self.op_index = -1
        self.last_op = {}
        self.culprit = None        # set in trace mode
        self.reported = False
        self.cfg = {"kind": case["kind"], "tpl": case["tpl"]}
        self.touched = set()       # (class of original, op kind) pairs checked
        check_model_arguments(self.W, ctx, self.cfg, "after building the world (models were applied to x)")

    # ---- helpers
    def _pick(self, pred, prefer_derived=0.5):
        cand_o = [i for i in self.orig_ids if pred(self.ents[i])]
        cand_d = [i for i in self.alive if pred(self.ents[i])]
        if cand_d and (not cand_o or self.rs.uniform() < prefer_derived):
            return self.ents[cand_d[self.rs.randint(len(cand_d))]]
        if cand_o:
            return self.ents[cand_o[self.rs.randint(len(cand_o))]]
        return None

    def _is_density(self, e):
        return not isinstance(e.obj, self.cuqi.model.Model)

    def _add_derived(self, obj, recipe, parent):
        eid = "d:%d" % self.nder
        self.nder += 1
        e = Ent(eid, obj, recipe, self.op_index)
        if recipe[0] == "to_lik":           # Likelihood(dist, data) holds `dist` itself; enable_FD is documented to forward to it
            e.wraps_original = True
        if parent.wraps_original and isinstance(obj, self.cuqi.likelihood.Likelihood) and obj.distribution is getattr(parent.obj, "distribution", None):
            e.wraps_original = True
        if obj is parent.obj:               # EvaluatedDensity() returns itself: an alias, not a copy
            e.wraps_original = parent.wraps_original or parent.id.startswith("o:")
        e.fp_ref = fingerprint(obj, self.W)
        self.ents[eid] = e
        self.objs[eid] = obj
        self.events.append(("derive", eid, recipe))
        self.alive.append(eid)
        self.ctx.count("derived_objects_created")
        self.ctx.count("derived:" + type(obj).__name__)
        if len(self.alive) > MAX_ALIVE:
            old = self.alive.pop(0)
            self._check_derived(self.ents[old], "retired")
        return e

    def _violate(self, mech, ent, fields, fnow, where):
        """An original (or derived copy) no longer behaves as recorded."""
        if self.trace:
            if self.culprit is None:
                self.culprit = dict(self.last_op)
            return
        k = fields[0]
        fam = _field_family(k)
        culprit = None
        if not self.reported:
            self.reported = True
            culprit = find_culprit(self.case, self.seed)
        cfg = {**self.cfg, "object": ent.cls, "field": fam}
        if culprit:
            cfg["op"] = culprit.get("op"); cfg["on"] = culprit.get("target_cls")
            if culprit.get("malformed"):
                cfg["malformed"] = culprit["malformed"]
        detail = (f"{ent.id} ({ent.cls}) changed at {where} after op #{self.op_index} ({self.last_op}); fields {fields[:8]}; "
                  f"{k}: before {_show(ent.fp_ref.get(k))} now {_show(fnow.get(k))}; first operation after which a fingerprint differs: {culprit}")
        self.ctx.violation(mech, cfg, detail=detail, witness={"fields": fields[:20], "culprit": culprit, "events": len(self.events)})

    def _check_original(self, e, where):
        f = fingerprint(e.obj, self.W)
        nv, nx = fp_stats(f)
        self.ctx.count("original_fingerprints_compared")
        self.ctx.count("fingerprint_fields_compared", len(f))
        self.ctx.count("fingerprint_fields_of_originals", len(f))
        self.ctx.count("fingerprint_value_fields", nv)
        bad = fp_diff(e.fp_ref, f)
        if bad:
            self._violate("original_changed", e, bad, f, where)
        return not bad

    def _check_derived(self, e, where):
        f = fingerprint(e.obj, self.W)
        self.ctx.count("derived_fingerprints_compared")
        self.ctx.count("fingerprint_fields_compared", len(f))
        bad = fp_diff(e.fp_ref, f)
        if bad:
            self._violate("derived_copy_changed", e, bad, f, where)
        return not bad

    def checkpoint(self, where):
        for i in self.orig_ids:
            self._check_original(self.ents[i], where)
        if self.trace:
            for i in self.alive:
                self._check_derived(self.ents[i], where)

    def _compare_field(self, e, key, got):
        if key not in e.fp_ref:
            return
        self.ctx.count("op_results_vs_baseline")
        if not _same(e.fp_ref[key], got):
            self._violate("original_changed" if e.id[0] in "om" else "derived_copy_changed", e, [key], {key: got}, "operation result")

    # ---- operations
    def step(self, i):
        self.op_index = i
        names, weights = zip(*OPS)
        w = np.array(weights, dtype=float)
        op = names[int(self.rs.choice(len(names), p=w / w.sum()))]
        self.last_op = {"op": op, "index": i}
        try:
            getattr(self, "op_" + op)()
        except core.REFUSAL_TYPES as e:
            where, loc = core.deepest_origin(e.__traceback__)
            if where == "verif" and not isinstance(e, (ValueError, TypeError, NotImplementedError)):
                raise
            self.ctx.refused(op, e)
        except Exception as e:  # noqa - library call-outs (numpy.linalg, scipy) may raise their own types
            self.ctx.refused(op, e)
        self.ctx.count("ops_executed")
        self.ctx.count("op:" + op)

    def _note_target(self, e):
        self.last_op["target"] = e.id
        self.last_op["target_cls"] = e.cls
        if e.id[0] in "om":
            self.touched.add((e.cls, self.last_op["op"]))

    def op_cond(self):
        e = self._pick(self._is_density)
        for _ in range(3):     # fully specified objects only yield EvaluatedDensity: prefer objects with something left to fix
            if e is None or len(e.fp_ref.get("par_names", ("v", []))[1] or []) > 1 or self.rs.uniform() < 0.3:
                break
            e = self._pick(self._is_density)
        if e is None:
            return
        self._note_target(e)
        names = list(e.obj.get_parameter_names())
        if not names:
            return self._cond_empty(e)
        k = max(1, min(len(names), int(self.rs.geometric(0.55))))
        positional = self.rs.uniform() < 0.3
        if positional:
            sel = names[:k]
        else:
            sel = [names[t] for t in sorted(self.rs.choice(len(names), size=k, replace=False))]
        if not all(p in self.W.probes for p in sel):
            return
        pairs = [(p, int(self.rs.randint(3))) for p in sel]
        recipe = ("cond_pos" if positional else "cond_kw", e.id, pairs)
        self.last_op["style"] = recipe[0]
        child = derive(self.W, self.objs, recipe)
        self.ctx.count("conditionings")
        ne = self._add_derived(child, recipe, e)
        cfg = {**self.cfg, "style": recipe[0]}
        check_derived_identity(self.W, e.obj, child, self.ctx, cfg)
        check_cond_consistency(self.W, e.obj, child, dict(pairs), self.ctx, cfg)
        return ne

    def _cond_empty(self, e):
        recipe = ("cond_empty", e.id)
        child = derive(self.W, self.objs, recipe)
        self._add_derived(child, recipe, e)
        check_derived_identity(self.W, e.obj, child, self.ctx, {**self.cfg, "style": "cond_empty"})
        check_cond_consistency(self.W, e.obj, child, {}, self.ctx, {**self.cfg, "style": "cond_empty"})

    def op_cond_empty(self):
        e = self._pick(self._is_density)
        if e is not None:
            self._note_target(e)
            self._cond_empty(e)

    def _eval(self, prefixes):
        e = self._pick(self._is_density)
        if e is None:
            return
        self._note_target(e)
        keys = [k for k in e.fp_ref if any(k.startswith(p) for p in prefixes) and "." not in k]
        if not keys:
            return
        key = keys[int(self.rs.randint(len(keys)))]
        # a free-style evaluation first (other probe point, not compared) ...
        names = _val(lambda: list(e.obj.get_parameter_names()))
        if names[0] == "v" and all(p in self.W.probes for p in names[1]) and not key.startswith("sample"):
            kw = _probe_kwargs(self.W, names[1], 2)
            _val(lambda: e.obj.logd(**kw))
        # ... then the evaluation whose value was recorded at birth
        got = eval_field(e.obj, self.W, key)
        self._compare_field(e, key, got)

    def op_logd(self):
        self._eval(("logd_",))

    def op_gradient(self):
        self._eval(("grad",))

    def op_sample(self):
        e = self._pick(lambda t: "sample_rng" in t.fp_ref)
        if e is None:
            return
        self._note_target(e)
        N = int(self.rs.randint(1, 4))
        _val(lambda: e.obj.sample(N))                      # unseeded draw from the global stream
        if self.rs.uniform() < 0.5:
            _val(lambda: e.obj.sample(N, rng=np.random.RandomState(int(self.rs.randint(1000)))))
        self._compare_field(e, "sample_rng", eval_field(e.obj, self.W, "sample_rng"))

    def op_to_lik(self):
        D = self.cuqi.distribution
        e = self._pick(lambda t: isinstance(t.obj, D.Distribution) and not isinstance(t.obj, D.JointDistribution)
                       and t.fp_ref.get("name", ("exc",))[0] == "v" and t.fp_ref["name"][1] in self.W.probes)
        if e is None:
            return
        self._note_target(e)
        recipe = ("to_lik", e.id, e.fp_ref["name"][1], int(self.rs.randint(3)))
        child = derive(self.W, self.objs, recipe)
        self._add_derived(child, recipe, e)
        self.ctx.count("copy_name_checked")
        if _val(lambda: child.name) != e.fp_ref["name"]:
            self.ctx.violation("copy_name_changed", {**self.cfg, "object": e.cls, "result": type(child).__name__, "style": "to_likelihood"},
                               detail=f"to_likelihood of {e.cls} named {e.fp_ref['name'][1]!r} is named {_show(_val(lambda: child.name))}")

    def op_model_apply(self):
        M = self.cuqi.model.Model
        D = self.cuqi.distribution
        em = self._pick(lambda t: isinstance(t.obj, M))
        if em is None:
            return
        self._note_target(em)
        dom = int(em.obj.domain_dim)
        ed = self._pick(lambda t: isinstance(t.obj, D.Distribution) and not isinstance(t.obj, D.JointDistribution)
                        and t.fp_ref.get("dim", ("exc",))[0] == "v" and isinstance(t.fp_ref["dim"][1], np.ndarray)
                        and int(t.fp_ref["dim"][1][0]) == dom and t.fp_ref.get("name", ("exc",))[0] == "v")
        if ed is None:
            return
        self.last_op["dist"] = ed.cls
        recipe = ("model_apply", em.id, ed.id)
        child = derive(self.W, self.objs, recipe)
        self._add_derived(child, recipe, em)
        self.ctx.count("model_applications")
        got = _val(lambda: list(child._non_default_args))
        if got != ("v", [ed.fp_ref["name"][1]]):
            self.ctx.violation("model_rename_wrong", {**self.cfg, "object": em.cls},
                               detail=f"model applied to distribution named {ed.fp_ref['name'][1]!r} has arguments {_show(got)}")
        # the original model keeps its own argument name
        self._compare_field(em, "args", _val(lambda: list(em.obj._non_default_args)))

    def op_model_eval(self):
        e = self._pick(lambda t: isinstance(t.obj, self.cuqi.model.Model))
        if e is None:
            return
        self._note_target(e)
        keys = [k for k in e.fp_ref if k[:3] in ("fwd", "cal", "gra", "adj", "mat") and k != "matrix"]
        key = keys[int(self.rs.randint(len(keys)))]
        f = _fp_model(e.obj, self.W, {})
        self._compare_field(e, key, f[key])

    def op_get_matrix(self):
        e = self._pick(lambda t: isinstance(t.obj, self.cuqi.model.LinearModel))
        if e is None:
            return
        self._note_target(e)
        n = int(e.obj.domain_dim)
        self._compare_field(e, "matrix", _val(lambda: np.asarray(e.obj.get_matrix() @ self.W.vec(n, 2)).ravel()))

    def _mutable_target(self, extra=lambda t: True):
        cand = [i for i in self.alive if not self.ents[i].wraps_original and self._is_density(self.ents[i]) and extra(self.ents[i])]
        if not cand:
            return None
        return self.ents[cand[int(self.rs.randint(len(cand)))]]

    def op_fd(self):
        e = self._mutable_target(lambda t: hasattr(t.obj, "enable_FD"))
        if e is None:
            return
        self._note_target(e)
        if self.rs.uniform() < 0.7:
            what, arg = "enable_FD", float(self.rs.choice([1e-8, 1e-6, 1e-4]))
        else:
            what, arg = "disable_FD", None
        self._check_derived(e, "before self-mutation")
        mutate(e.obj, what, arg)
        self.events.append(("mutate", e.id, what, arg))
        e.mutations += 1
        e.fp_ref = fingerprint(e.obj, self.W)
        self._refresh_dependents(e)
        self.ctx.count("self_mutations_on_copies")

    def op_compute_cov(self):
        D = self.cuqi.distribution
        e = self._mutable_target(lambda t: isinstance(t.obj, D.Gaussian) and t.fp_ref.get("is_cond") == ("v", False))
        if e is None:
            return
        self._note_target(e)
        self._check_derived(e, "before self-mutation")
        mutate(e.obj, "compute_cov", None)
        self.events.append(("mutate", e.id, "compute_cov", None))
        e.mutations += 1
        e.fp_ref = fingerprint(e.obj, self.W)
        self._refresh_dependents(e)
        self.ctx.count("self_mutations_on_copies")

    def _refresh_dependents(self, e):
        """Objects that legitimately *contain* the mutated copy (a Likelihood wrapping it, a joint holding it)
        follow it by design: their reference fingerprint is re-taken (after checking they were intact)."""
        for i in list(self.alive):
            t = self.ents[i]
            if t is e:
                continue
            if any(p is e.obj for p in _contained(t.obj)):
                t.fp_ref = fingerprint(t.obj, self.W)
                t.mutations += 1

    def op_stacked(self):
        D = self.cuqi.distribution
        e = self._pick(lambda t: isinstance(t.obj, D.JointDistribution) and type(t.obj).__name__ == "JointDistribution")
        if e is None:
            return
        self._note_target(e)
        recipe = ("stacked", e.id)
        child = derive(self.W, self.objs, recipe)
        self._add_derived(child, recipe, e)

    def op_malformed(self):
        """A malformed request (unknown / misspelled keyword, surplus positionals, doubly specified variable, missing
        variable, wrong-shaped value, sampling a conditional, bad gradient call, sampler on an unsuitable target). Whether it
        is refused is C01's business; here it must leave the target - checked at once - and everything else untouched."""
        cuqi = self.cuqi
        e = self._pick(self._is_density)
        if e is None:
            return
        self._note_target(e)
        obj = e.obj
        nm = _val(lambda: list(obj.get_parameter_names()))
        names = nm[1] if nm[0] == "v" and isinstance(nm[1], list) else []
        known = [p_ for p_ in names if p_ in self.W.probes]
        kinds = ["unknown_kw", "misspelled_kw", "surplus_pos", "missing_logd", "bad_gradient", "sampler_on_unsuitable", "unknown_kw_logd"]
        if known:
            kinds += ["double_spec", "wrong_shape", "misspelled_kw", "unknown_kw_mixed"]
        if e.fp_ref.get("is_cond") == ("v", True):
            kinds.append("sample_conditional")
        if e.fp_ref.get("dim") == ("v", "sizeless-conditional"):
            # sampler constructors read target.dim, which caches the guess 1 on a still size-less conditional (same getter
            # behaviour as in the fingerprint rule above; reading dim is not an operation of the property) -> not driven here
            kinds.remove("sampler_on_unsuitable")
        kind = kinds[int(self.rs.randint(len(kinds)))]
        self.last_op["malformed"] = kind
        j = int(self.rs.randint(3))
        v0 = self.W.probes[known[0]][j] if known else 1.0
        E, S = cuqi.experimental.mcmc, cuqi.sampler
        def call():
            if kind == "unknown_kw":
                return obj(sigma_zz=2.0)
            if kind == "misspelled_kw":
                return obj(**{(known[0] if known else "x") + "_": v0})
            if kind == "unknown_kw_mixed":
                return obj(**{known[0]: v0, "sigma_zz": 2.0})
            if kind == "unknown_kw_logd":
                return obj.logd(**{**{p_: self.W.probes[p_][j] for p_ in known}, "sigma_zz": 2.0})
            if kind == "surplus_pos":
                return obj(*([v0] * (len(names) + 2)))
            if kind == "double_spec":
                return obj(v0, **{names[0]: v0})
            if kind == "missing_logd":
                return obj.logd(**{p_: self.W.probes[p_][j] for p_ in known[1:]})
            if kind == "wrong_shape":
                big = np.ones(np.size(v0) + 3)
                return obj.logd(**{**{p_: self.W.probes[p_][j] for p_ in known[1:]}, known[0]: big})
            if kind == "sample_conditional":
                return obj.sample(2)
            if kind == "bad_gradient":
                return obj.gradient()
            menu = [lambda: S.LinearRTO(obj), lambda: S.Conjugate(obj), lambda: E.Conjugate(obj), lambda: E.LinearRTO(obj),
                    lambda: E.NUTS(obj), lambda: S.pCN(obj), lambda: E.UGLA(obj), lambda: S.NUTS(obj), lambda: E.Direct(obj)]
            return menu[int(self.rs.randint(len(menu)))]()
        try:
            call()
            self.ctx.count("malformed_ops_returned")
        except Exception as ex:  # noqa - any refusal type; only the after-state is judged here
            self.ctx.count("malformed_ops_refused")
            self.ctx.refused("malformed_" + kind, ex)
        self.ctx.count("malformed:" + kind)
        # the target itself, right away (gives the attribution); siblings / originals / twin at the regular checkpoints
        if e.id[0] in "om":
            self._check_original(e, "after malformed request (%s)" % kind)
        else:
            self._check_derived(e, "after malformed request (%s)" % kind)
        self.ctx.count("state_checked_after_malformed_op")

    def op_sampler(self):
        W = self.W
        names = W.st["nodes"]
        free = [n for n in names if n not in W.data_names] or names
        v = free[int(self.rs.randint(len(free)))]
        j = int(self.rs.randint(3))
        target = W.joint(**{n: W.probes[n][j] for n in names if n != v})
        x0 = np.atleast_1d(np.asarray(W.probes[v][(j + 1) % 3], dtype=float))
        label = run_some_sampler(self.cuqi, target, x0, self.rs)
        self.last_op["sampler"] = label[0]
        self.last_op["target_cls"] = type(target).__name__
        self.ctx.count("sampler_runs")
        self.ctx.count("sampler_runs_completed" if label[1] == "ok" else "sampler_runs_refused")
        if label[1] == "ok":
            self.touched.add((label[0], "sampler"))

    # ---- whole program
    def run(self):
        nops = self.case["nops"]
        every = 1 if self.trace else max(3, nops // 4)
        for i in range(nops):
            self.step(i)
            if self.trace and self.culprit is None:
                self.checkpoint("after op %d" % i)
                if self.culprit is not None:
                    return
            elif (i + 1) % every == 0 and i + 1 < nops:
                self.checkpoint("checkpoint after op %d" % i)
        self.finish()

    def finish(self):
        self.checkpoint("end of program")
        if self.trace:
            return
        for i in list(self.alive):
            self._check_derived(self.ents[i], "end of program")
        self.twin_compare()
        ctx = self.ctx
        st = self.W.st
        check_model_arguments(self.W, ctx, self.cfg, "end of program")
        # parameter names against the reference table, after everything
        for n, d_ in self.W.dists.items():
            ctx.count("param_names_vs_reference")
            got = _val(lambda: list(d_.get_parameter_names()))
            exp = G.expected_parameter_names(st, n)
            if got[0] != "v" or sorted(got[1][:-1]) != sorted(exp[:-1]) or got[1][-1] != n:
                ctx.violation("parameter_names_wrong", {**self.cfg, "object": type(d_).__name__},
                              detail=f"{n}: parameter names {_show(got)}, reference {exp}")
        ctx.count("param_names_vs_reference")
        got = _val(lambda: list(self.W.joint.get_parameter_names()))
        if got != ("v", G.joint_parameter_names(st, ())):
            ctx.violation("parameter_names_wrong", {**self.cfg, "object": "JointDistribution"},
                          detail=f"joint parameter names {_show(got)}, reference {G.joint_parameter_names(st, ())}")
        nv, nall = ctx.counters.get("fingerprint_value_fields", 0), ctx.counters.get("fingerprint_fields_of_originals", 0)
        if self.nder > 0 and ctx.counters.get("original_fingerprints_compared", 0) > 0 and nv >= 0.6 * max(1, nall):
            ctx.nontrivial()
            for cls, op in sorted(self.touched):
                ctx.nontrivial(f"{self.case['tpl']}/{cls}/{op}")
        ctx.note("ops", {k[3:]: v for k, v in ctx.counters.items() if k.startswith("op:")})
        ctx.note("derived", self.nder)

    def twin_compare(self):
        """Build the same world afresh, replay only the derivations / self-mutations, compare."""
        T = build_world(self.case)
        tobjs = dict(T.originals())
        ctx = self.ctx
        for eid, obj in T.originals():
            f = fingerprint(obj, T, rev=True)
            ctx.count("twin_fingerprints_compared")
            f_w = fingerprint(self.objs[eid], self.W)
            bad = fp_diff(f_w, f)
            if bad:
                k = bad[0]
                ctx.violation("original_differs_from_untouched_twin", {**self.cfg, "object": self.ents[eid].cls, "field": _field_family(k)},
                              detail=f"{eid} ({self.ents[eid].cls}) after the program vs the same object of an untouched twin world (fields evaluated in "
                                     f"the opposite order): fields {bad[:8]}; {k}: here {_show(f_w.get(k))} twin {_show(f.get(k))}")
        ok = True
        for ev in self.events:
            try:
                if ev[0] == "derive":
                    tobjs[ev[1]] = derive(T, tobjs, ev[2])
                else:
                    mutate(tobjs[ev[1]], ev[2], ev[3])
            except Exception as e:  # noqa
                ok = False
                ctx.violation("derivation_not_repeatable", {**self.cfg, "step": ev[2][0] if ev[0] == "derive" else ev[2]},
                              detail=f"replaying {ev} on an untouched twin world raised {type(e).__name__}: {e}")
                break
        if not ok:
            return
        for i in self.alive:
            e = self.ents[i]
            f_t = fingerprint(tobjs[i], T, rev=True)
            f_w = fingerprint(e.obj, self.W)
            ctx.count("twin_fingerprints_compared")
            ctx.count("sibling_vs_fresh_derivation")
            bad = fp_diff(f_w, f_t)
            if bad:
                k = bad[0]
                ctx.violation("derived_copy_differs_from_fresh_derivation", {**self.cfg, "object": e.cls, "field": _field_family(k), "recipe": e.recipe[0]},
                              detail=f"{e.id} ({e.cls}, {e.recipe}) after the program vs the same derivation on an untouched twin: fields {bad[:8]}; "
                                     f"{k}: here {_show(f_w.get(k))} twin {_show(f_t.get(k))}")

def _contained(obj):
    """Objects held (not copied) inside a composite density."""
    out = []
    for attr in ("distribution", "likelihood", "prior"):
        if attr in getattr(obj, "__dict__", {}):
            sub = obj.__dict__[attr]
            out.append(sub)
            out += _contained(sub)
    for d_ in getattr(obj, "__dict__", {}).get("_densities", []) or []:
        out.append(d_)
        out += _contained(d_)
    return out

def find_culprit(case, seed):
    """Replay the program on a fresh world with a comparison after every operation."""
    scratch = core.Ctx(PROPERTY, case, "trace", seed)
    try:
        r = Runner(case, seed, scratch, trace=True)
        r.run()
        return r.culprit
    except Exception as e:  # noqa
        return {"op": "unknown", "error": type(e).__name__}

def run_some_sampler(cuqi, target, x0, rs):
    S, E = cuqi.sampler, cuqi.experimental.mcmc
    x0s = x0 if x0.size > 1 else x0
    menu = [
        ("L.MH", lambda: S.MH(target, x0=x0s).sample_adapt(6)),
        ("L.CWMH", lambda: S.CWMH(target, x0=x0s).sample_adapt(4)),
        ("L.pCN", lambda: S.pCN(target, scale=0.1, x0=x0s).sample_adapt(5)),
        ("L.ULA", lambda: S.ULA(target, scale=1e-3, x0=x0s).sample(4)),
        ("L.MALA", lambda: S.MALA(target, scale=1e-3, x0=x0s).sample(4)),
        ("L.NUTS", lambda: S.NUTS(target, x0=x0s, max_depth=3).sample(3, 2)),
        ("L.LinearRTO", lambda: S.LinearRTO(target, x0=x0s, maxit=5).sample(3)),
        ("L.RegularizedLinearRTO", lambda: S.RegularizedLinearRTO(target, x0=x0s, maxit=5).sample(2)),
        ("L.UGLA", lambda: S.UGLA(target, x0=x0s, maxit=5).sample(2)),
        ("L.Conjugate", lambda: S.Conjugate(target).step(None)),
        ("L.ConjugateApprox", lambda: S.ConjugateApprox(target).step(None)),
        ("E.MH", lambda: E.MH(target, initial_point=x0s).warmup(3).sample(3).get_samples()),
        ("E.CWMH", lambda: E.CWMH(target, initial_point=x0s).warmup(2).sample(2).get_samples()),
        ("E.PCN", lambda: E.PCN(target, scale=0.1, initial_point=x0s).warmup(3).sample(3).get_samples()),
        ("E.ULA", lambda: E.ULA(target, scale=1e-3, initial_point=x0s).sample(4).get_samples()),
        ("E.MALA", lambda: E.MALA(target, scale=1e-3, initial_point=x0s).sample(4).get_samples()),
        ("E.NUTS", lambda: E.NUTS(target, initial_point=x0s, max_depth=3).warmup(2).sample(2).get_samples()),
        ("E.LinearRTO", lambda: E.LinearRTO(target, initial_point=x0s, maxit=5).sample(3).get_samples()),
        ("E.RegularizedLinearRTO", lambda: E.RegularizedLinearRTO(target, initial_point=x0s, maxit=5).sample(2).get_samples()),
        ("E.UGLA", lambda: E.UGLA(target, initial_point=x0s, maxit=5).sample(2).get_samples()),
        ("E.Conjugate", lambda: E.Conjugate(target).step()),
        ("E.ConjugateApprox", lambda: E.ConjugateApprox(target).step()),
        ("E.Direct", lambda: E.Direct(target).sample(2).get_samples()),
    ]
    order = rs.permutation(len(menu))
    tried = 0
    for t in order[:6]:        # try a few until one accepts the target
        name, fn = menu[int(t)]
        tried += 1
        try:
            fn()
            return (name, "ok")
        except Exception:  # noqa - an unsuitable sampler/target pair refuses; not judged here
            continue
    return ("none", "refused")

# --------------------------------------------------------------------------- entry points

def run_case(case, ctx):
    import cuqi  # noqa
    if case["kind"] == "seq":
        Runner(case, ctx.seed, ctx).run()
    elif case["kind"] == "gibbs":
        run_gibbs(case, ctx)
    elif case["kind"] == "loop":
        run_loop(case, ctx)
    elif case["kind"] == "autoname":
        run_autoname(case, ctx)
    elif case["kind"] == "bp":
        run_bp(case, ctx)
    elif case["kind"] == "reuse":
        run_reuse(case, ctx)
    else:
        raise ValueError(case["kind"])

class _Fixture:
    """World + fingerprints of the originals + helpers shared by the Gibbs and loop cases."""
    def __init__(self, case, ctx, prepare=None):
        self.case, self.ctx, self.prepare = case, ctx, prepare
        self.W = build_world(case)
        if prepare:
            prepare(self.W)
        self.cfg = {"kind": case["kind"], "tpl": case["tpl"]}
        self.ref = {eid: fingerprint(obj, self.W) for eid, obj in self.W.originals()}
        self.objs = dict(self.W.originals())
        self.extra = {}      # id -> (object, reference fingerprint) for derived objects that must stay intact

    def track(self, eid, obj):
        self.extra[eid] = (obj, fingerprint(obj, self.W))

    def check(self, where, op):
        ctx = self.ctx
        ok = True
        for eid, obj in self.objs.items():
            f = fingerprint(obj, self.W)
            nv, _ = fp_stats(f)
            ctx.count("original_fingerprints_compared")
            ctx.count("fingerprint_fields_compared", len(f))
            ctx.count("fingerprint_fields_of_originals", len(f))
            ctx.count("fingerprint_value_fields", nv)
            bad = fp_diff(self.ref[eid], f)
            if bad:
                ok = False
                k = bad[0]
                ctx.violation("original_changed", {**self.cfg, "object": type(obj).__name__, "field": _field_family(k), "op": op},
                              detail=f"{eid} ({type(obj).__name__}) changed at {where}; fields {bad[:8]}; {k}: before {_show(self.ref[eid].get(k))} now {_show(f.get(k))}")
        for eid, (obj, ref) in self.extra.items():
            f = fingerprint(obj, self.W)
            ctx.count("derived_fingerprints_compared")
            ctx.count("fingerprint_fields_compared", len(f))
            bad = fp_diff(ref, f)
            if bad:
                ok = False
                k = bad[0]
                ctx.violation("derived_copy_changed", {**self.cfg, "object": type(obj).__name__, "field": _field_family(k), "op": op},
                              detail=f"{eid} ({type(obj).__name__}) changed at {where}; fields {bad[:8]}; {k}: before {_show(ref.get(k))} now {_show(f.get(k))}")
        return ok

    def twin(self, derive_extra, op):
        """Originals (and re-derived extras) of an untouched twin world must look the same."""
        ctx = self.ctx
        T = build_world(self.case)
        if getattr(self, "prepare", None):
            self.prepare(T)
        tob = dict(T.originals())
        for eid, obj in self.objs.items():
            ctx.count("twin_fingerprints_compared")
            f_w, f_t = fingerprint(obj, self.W), fingerprint(tob[eid], T, rev=True)
            bad = fp_diff(f_w, f_t)
            if bad:
                k = bad[0]
                ctx.violation("original_differs_from_untouched_twin", {**self.cfg, "object": type(obj).__name__, "field": _field_family(k), "op": op},
                              detail=f"{eid}: fields {bad[:8]}; {k}: here {_show(f_w.get(k))} twin {_show(f_t.get(k))}")
        for eid, (obj, _) in self.extra.items():
            tobj = derive_extra(T, eid)
            if tobj is None:
                continue
            ctx.count("twin_fingerprints_compared")
            ctx.count("sibling_vs_fresh_derivation")
            f_w, f_t = fingerprint(obj, self.W), fingerprint(tobj, T, rev=True)
            bad = fp_diff(f_w, f_t)
            if bad:
                k = bad[0]
                ctx.violation("derived_copy_differs_from_fresh_derivation", {**self.cfg, "object": type(obj).__name__, "field": _field_family(k), "op": op},
                              detail=f"{eid}: fields {bad[:8]}; {k}: here {_show(f_w.get(k))} twin {_show(f_t.get(k))}")
        return T

def _data_kwargs(W, j=0):
    return {n: W.probes[n][j] for n in W.data_names}

# ---- Gibbs runs

def _gibbs_strategy(cuqi, case, W, iface, fallback=False):
    o = case["opts"]
    E, S = cuqi.experimental.mcmc, cuqi.sampler
    names = [n for n in W.st["nodes"] if n not in W.data_names]
    xs = case.get("xsampler", "auto")
    x0 = np.asarray(W.probes["x"][1], dtype=float)
    if iface == "hybrid":
        strat = {}
        for n in names:
            if n in ("d", "l"):
                if fallback:
                    strat[n] = E.MH(initial_point=np.array([1.0]), scale=0.3)
                elif n == "d" and o["xprior"] == "lmrf_d":
                    strat[n] = E.ConjugateApprox()
                else:
                    strat[n] = E.Conjugate()
            else:
                if fallback or xs == "mh":
                    strat[n] = E.MH(initial_point=x0, scale=0.1)
                elif xs == "nuts":
                    strat[n] = E.NUTS(initial_point=x0, max_depth=3)
                elif xs == "mala":
                    strat[n] = E.MALA(initial_point=x0, scale=1e-3)
                elif xs == "cwmh":
                    strat[n] = E.CWMH(initial_point=x0, scale=0.1)
                elif xs == "pcn":
                    strat[n] = E.PCN(initial_point=x0, scale=0.1)
                elif o["xprior"] == "lmrf_d":
                    strat[n] = E.UGLA(initial_point=x0, maxit=5)
                elif o["xprior"] in ("reg_d", "reggmrf_d"):
                    strat[n] = E.RegularizedLinearRTO(initial_point=x0, maxit=8)
                else:
                    strat[n] = E.LinearRTO(initial_point=x0, maxit=8)
        return strat
    strat = {}
    for n in names:
        if n in ("d", "l"):
            strat[n] = S.ConjugateApprox if (n == "d" and o["xprior"] == "lmrf_d") else S.Conjugate
        elif o["xprior"] == "lmrf_d":
            strat[n] = S.UGLA
        elif o["xprior"] in ("reg_d", "reggmrf_d"):
            strat[n] = S.RegularizedLinearRTO
        else:
            strat[n] = S.LinearRTO
    return strat

def _run_gibbs_once(cuqi, case, W, post, iface, sweeps, seed, fallback=False):
    """-> dict name -> array of samples (dim x sweeps). Global stream seeded, state restored."""
    state = np.random.get_state()
    try:
        np.random.seed(seed)
        strat = _gibbs_strategy(cuqi, case, W, iface, fallback)
        if iface == "hybrid":
            g = cuqi.experimental.mcmc.HybridGibbs(post, strat)
            g.warmup(2)
            g.sample(sweeps)
            sm = g.get_samples()
            out = {k: np.array(sm[k].samples, dtype=float) for k in strat}
            g.sample(2)           # continuation
            return out
        g = cuqi.sampler.Gibbs(post, strat)
        sm = g.sample(sweeps, 2)
        return {k: np.array(sm[k].samples, dtype=float) for k in strat}
    finally:
        np.random.set_state(state)

def run_gibbs(case, ctx):
    import cuqi
    F = _Fixture(case, ctx)
    W = F.W
    iface, sweeps = case["iface"], case["sweeps"]
    post = W.joint(**_data_kwargs(W))
    F.track("posterior", post)
    chains, fallback = None, False
    for fb in (False, True):
        if fb and iface == "legacy":
            break
        try:
            chains = _run_gibbs_once(cuqi, case, W, post, iface, sweeps, 11, fb)
            fallback = fb
            break
        except Exception as e:  # noqa - unsuitable sampler / target combination
            ctx.refused("gibbs_" + iface, e)
    op = "HybridGibbs" if iface == "hybrid" else "Gibbs"
    if chains is None:
        F.check("after refused Gibbs construction", op)
        ctx.count("gibbs_refused")
        return
    ctx.count("gibbs_runs")
    ctx.count("gibbs_sweeps_observed", sweeps + 4)
    F.check("after the first Gibbs run", op)
    # a second sampler on the same posterior, after the first: must reproduce what a first run on an untouched twin gives
    chains2 = _run_gibbs_once(cuqi, case, W, post, iface, sweeps, 23, fallback)
    ctx.count("gibbs_sweeps_observed", sweeps + 4)
    F.check("after the second Gibbs run", op)
    T = F.twin(lambda Tw, eid: Tw.joint(**_data_kwargs(Tw)), op)
    tpost = T.joint(**_data_kwargs(T))
    chains_t = _run_gibbs_once(cuqi, case, T, tpost, iface, sweeps, 23, fallback)
    comparable = not (case["opts"]["xprior"] in ("reg_d", "reggmrf_d") and not fallback and (iface == "legacy" or case.get("xsampler") == "auto"))
    # RegularizedLinearRTO takes its step size from scipy's randomised spectral-norm estimate (own, unseeded stream): chains not repeatable
    ctx.count("gibbs_chain_vs_untouched_twin" if comparable else "gibbs_chain_not_repeatable_by_design")
    for k in (chains2 if comparable else ()):
        a, b = chains2[k], chains_t[k]
        scale = max(1.0, float(np.max(np.abs(b))) if b.size and np.all(np.isfinite(b)) else 1.0)
        if a.shape != b.shape or not np.array_equal(np.isfinite(a), np.isfinite(b)) or \
                not np.all(np.abs(a[np.isfinite(a)] - b[np.isfinite(b)]) <= 1e-6 * scale):
            ctx.violation("rerun_differs_from_untouched_twin", {**F.cfg, "op": op, "block": k, "xprior": case["opts"]["xprior"]},
                          detail=f"chain of {k!r} from a {op} run on a posterior that already served another {op} run differs from the "
                                 f"same seeded run on an untouched twin: max abs diff {float(np.nanmax(np.abs(a - b))) if a.shape == b.shape else 'shape'}")
            break
    ctx.nontrivial()
    ctx.nontrivial(f"gibbs/{iface}/{case['opts']['xprior']}/{'fallback' if fallback else case.get('xsampler')}")
    ctx.note("gibbs", {"iface": iface, "fallback": fallback, "blocks": sorted(chains2)})

# ---- Gibbs-like re-conditioning loop

def run_loop(case, ctx):
    F = _Fixture(case, ctx)
    W = F.W
    data = _data_kwargs(W)
    base = W.joint(**data) if data else W.joint
    if data:
        F.track("posterior", base)
    free = [n for n in W.st["nodes"] if n not in W.data_names]
    cur = {n: 0 for n in free}            # index of the probe value currently held by each block
    S = case["sweeps"]
    rs = core.np_rng(ctx.seed, PROPERTY, core.canon(case), "loop")
    checks = {0, S // 2}
    op = "recondition_loop"
    full = lambda: {**{n: W.probes[n][cur[n]] for n in free}, **data}
    for t in range(S):
        for v in free:
            others = {n: W.probes[n][cur[n]] for n in free if n != v}
            cond = base(**others) if others else base()
            ctx.count("recondition_loop_steps")
            if t % 7 == 0 or t == S - 1:
                # the conditional must carry exactly the joint density (no constant accumulating anywhere)
                a = _val(lambda: cond.logd(W.probes[v][cur[v]]))
                b = _val(lambda: W.joint.logd(**full()))
                if a[0] == "v" and b[0] == "v" and isinstance(a[1], np.ndarray) and isinstance(b[1], np.ndarray) and a[1].size == 1 and b[1].size == 1:
                    ctx.count("loop_conditional_vs_joint")
                    if not (_same(("v", a[1].ravel()), ("v", b[1].ravel())) or abs(a[1].ravel()[0] - b[1].ravel()[0]) <= 1e-7 * max(1.0, abs(b[1].ravel()[0]))):
                        ctx.violation("conditional_drifts", {**F.cfg, "object": type(cond).__name__, "op": op},
                                      detail=f"sweep {t}, block {v}: conditional logd {a[1].ravel()[0]!r} vs joint logd {b[1].ravel()[0]!r}")
                        return
                nm = _val(lambda: cond.get_parameter_names())
                ctx.count("copy_name_checked")
                if nm != ("v", [v]):
                    ctx.violation("copy_name_changed", {**F.cfg, "object": type(cond).__name__, "op": op},
                                  detail=f"sweep {t}: conditional for block {v!r} reports parameter names {_show(nm)}")
                    return
            cur[v] = int(rs.randint(3))
        if t in checks:
            if not F.check(f"after sweep {t}", op):
                return
    F.check(f"after {S} sweeps", op)
    F.twin(lambda Tw, eid: Tw.joint(**_data_kwargs(Tw)), op)
    ctx.nontrivial()
    ctx.nontrivial(f"loop/{case['tpl']}/{S}")

# ---- BayesianProblem: its convenience samplers work on copies; the problem's own posterior must stay what it was

def run_bp(case, ctx):
    import cuqi
    F = _Fixture(case, ctx)
    W = F.W
    xp = case["opts"]["xprior"]
    samplable = xp not in ("lmrf_fix", "cmrf_fix")       # LMRF / CMRF have no direct sampler -> sample_prior takes its MCMC branch
    F.cfg.update({"xprior": xp, "prior_samplable": samplable})
    def make(Wx):
        return cuqi.problem.BayesianProblem(Wx.dists["y"], Wx.dists["x"]).set_data(y=Wx.probes["y"][0])
    BP = make(W)
    post = BP.posterior
    F.track("bp_posterior", post)
    def attempt(label, fn):
        state = np.random.get_state()
        try:
            np.random.seed(5)
            fn()
            ctx.count("bp_ops_completed")
        except Exception as e:  # noqa - automatic sampler selection may refuse / fail; only the after-state is judged
            ctx.refused("bp_" + label, e)
        finally:
            np.random.set_state(state)
        ctx.count("bp_ops")
        ok = F.check("after BayesianProblem." + label, "BayesianProblem." + label)
        same = BP.posterior is post
        if not same:
            ctx.violation("derived_copy_changed", {**F.cfg, "object": "BayesianProblem", "field": "posterior_identity", "op": "BayesianProblem." + label},
                          detail=f"BayesianProblem.posterior is a different object after {label}")
        return ok and same
    Ns = 4 if xp == "cmrf_fix" else 10
    steps = [("sample_posterior", lambda: BP.sample_posterior(Ns)), ("MAP", lambda: BP.MAP(disp=False)),
             ("sample_prior", lambda: BP.sample_prior(Ns)), ("sample_posterior", lambda: BP.sample_posterior(Ns))]
    for label, fn in steps:
        if not attempt(label, fn):
            return        # state already differs: later differences would only repeat this one under another label
    F.twin(lambda Tw, eid: make(Tw).posterior, "BayesianProblem")
    ctx.nontrivial()
    ctx.nontrivial(f"bp/{xp}/{case['opts']['model']}")

# ---- derived objects re-used as inputs (the output of a conditioning becomes somebody's original)

REUSE_EXTRAS = ("qq", "rr", "ss")

def _reuse_prepare(W):
    """Independent distributions that are joined with re-used derived objects (present in the world and in its twin)."""
    import cuqi
    D = cuqi.distribution
    r = np.random.RandomState(77)
    W.loose["qq"] = D.Gaussian(np.zeros(2), 1.2, name="qq")
    W.loose["rr"] = D.Gamma(2.0, 1.0, name="rr")
    W.loose["ss"] = D.Normal(0.3, 1.5, name="ss")
    W.probes["qq"] = [r.standard_normal(2) for _ in range(3)]
    W.probes["rr"] = [float(np.exp(0.3 * r.standard_normal())) for _ in range(3)]
    W.probes["ss"] = [float(r.standard_normal()) for _ in range(3)]
    W.orig_ids = {id(o) for _, o in W.originals()}

def _scalar(v):
    return v[0] == "v" and isinstance(v[1], np.ndarray) and v[1].size == 1 and np.isfinite(v[1]).all()

def _agree(a, b):
    return _same(("v", a[1].ravel()), ("v", b[1].ravel())) or abs(a[1].ravel()[0] - b[1].ravel()[0]) <= 1e-7 * max(1.0, abs(b[1].ravel()[0]))

def run_reuse(case, ctx):
    """Level 0: reduce / condition the world's objects. Level k: put the result of level k-1 into a NEW JointDistribution with an
    independent distribution, evaluate it, condition it both ways (-> a copy of the re-used object carrying one more constant, and
    a copy of the independent one), several times; the reduced copy becomes the input of level k+1. Posteriors are taken apart and
    their likelihood / prior re-joined. Every re-used object is tracked like an original."""
    import cuqi
    D = cuqi.distribution
    F = _Fixture(case, ctx, prepare=_reuse_prepare)
    W = F.W
    rs = core.np_rng(ctx.seed, PROPERTY, core.canon(case), "reuse")
    nodes = W.st["nodes"]
    depth, reps = case["depth"], case["reps"]
    op = "reuse_in_joint"
    # ---- level-0 recipes: functions of a world, so that the twin can re-derive them
    recipes = {}
    for v in nodes:
        j = int(rs.randint(3))
        recipes["R:" + v] = (lambda Wx, v=v, j=j: Wx.joint(**{n: Wx.probes[n][j] for n in nodes if n != v}))
        deps = W.st["deps"][v]
        if deps:
            jj = int(rs.randint(3))
            recipes["C:" + v] = (lambda Wx, v=v, jj=jj: Wx.dists[v](**{p_: Wx.probes[p_][jj] for p_ in Wx.st["deps"][v]}))
    order = sorted(recipes)
    order = [order[t] for t in rs.permutation(len(order))][:4]
    live = {}
    def plain(o_):
        return isinstance(o_, D.Distribution) and not isinstance(o_, (D.JointDistribution, D.Posterior)) and \
            _val(lambda: o_.is_cond) == ("v", False)
    def level(Wx, prev, vname, ex, jv, je, order_flag):
        """One re-use level on world Wx: (J2, copy of prev given ex, copy of ex given prev's variable)."""
        exd = Wx.loose[ex]
        J2 = D.JointDistribution(prev, exd) if order_flag else D.JointDistribution(exd, prev)
        return J2, J2(**{ex: Wx.probes[ex][je]}), J2(**{vname: Wx.probes[vname][jv]})
    for eid in order:
        vname = eid.split(":")[1]
        try:
            R0 = recipes[eid](W)
        except Exception as e:  # noqa
            ctx.refused("reuse_level0", e)
            continue
        F.track(eid, R0)
        ctx.count("reuse_inputs:" + type(R0).__name__)
        chain = []        # (extra name, jv, je, order_flag) per level, for the twin
        cur, cur_id = R0, eid
        for lv in range(depth):
            ex = REUSE_EXTRAS[lv]
            jv, je, flag = int(rs.randint(3)), int(rs.randint(3)), bool(rs.randint(2))
            if isinstance(cur, D.Posterior):
                # take the posterior apart and re-join its (derived) likelihood and prior with an independent distribution
                try:
                    parts = (cur.likelihood, cur.prior, W.loose[ex])
                    first = None
                    for rep in range(reps):
                        J2 = D.JointDistribution(*parts)
                        a = _val(lambda: J2.logd(**{vname: W.probes[vname][jv], ex: W.probes[ex][je]}))
                        r2 = J2(**{ex: W.probes[ex][je]})
                        b = _val(lambda: r2.logd(W.probes[vname][jv]))
                        ctx.count("reuse_requests")
                        if _scalar(a) and _scalar(b):
                            ctx.count("reuse_joint_consistency")
                            if not _agree(a, b):
                                ctx.violation("conditioned_copy_inconsistent", {**F.cfg, "object": type(cur).__name__, "op": op, "level": lv},
                                              detail=f"{cur_id}: joint of re-used posterior parts logd {_show(a)} vs its reduction {_show(b)}")
                        if first is None:
                            first = (a, b)
                        else:
                            ctx.count("reuse_repeat_identical")
                            if not (_same(first[0], a) and _same(first[1], b)):
                                ctx.violation("repeated_request_differs", {**F.cfg, "object": type(cur).__name__, "op": op, "level": lv},
                                              detail=f"{cur_id} level {lv}: request #{rep} gave {_show(a)} / {_show(b)}, the first gave {_show(first[0])} / {_show(first[1])}")
                    F.check(f"{cur_id}: after re-using the posterior's parts at level {lv}", op)
                    ctx.count("reuse_levels_checked")
                except Exception as e:  # noqa
                    ctx.refused("reuse_posterior_parts", e)
                break
            if not plain(cur):
                break
            first, r_keep = None, None
            try:
                for rep in range(reps):
                    J2, r_cur, r_ex = level(W, cur, vname, ex, jv, je, flag)
                    a = _val(lambda: J2.logd(**{vname: W.probes[vname][jv], ex: W.probes[ex][je]}))
                    b = _val(lambda: r_cur.logd(W.probes[vname][jv]))
                    c = _val(lambda: r_ex.logd(W.probes[ex][je]))
                    base = _val(lambda: cur.logd(W.probes[vname][jv]))
                    ctx.count("reuse_requests")
                    if _scalar(a) and _scalar(b) and _scalar(c):
                        ctx.count("reuse_joint_consistency")
                        if not (_agree(a, b) and _agree(a, c)):
                            ctx.violation("conditioned_copy_inconsistent", {**F.cfg, "object": type(cur).__name__, "op": op, "level": lv},
                                          detail=f"{cur_id} level {lv} request #{rep}: joint logd {_show(a)}, reduction given {ex} {_show(b)}, reduction given {vname} {_show(c)}")
                    if first is None:
                        first, r_keep = (a, b, c, base), r_cur
                    else:
                        ctx.count("reuse_repeat_identical")
                        if not all(_same(x_, y_) for x_, y_ in zip(first, (a, b, c, base))):
                            ctx.violation("repeated_request_differs", {**F.cfg, "object": type(cur).__name__, "op": op, "level": lv},
                                          detail=f"{cur_id} level {lv}: identical request #{rep} gave joint/reduced/reduced/input logd "
                                                 f"{[_show(x_) for x_ in (a, b, c, base)]}, the first gave {[_show(x_) for x_ in first]}")
                    if rep == 0 and rs.uniform() < 0.3:
                        run_some_sampler(cuqi, r_cur, np.atleast_1d(np.asarray(W.probes[vname][jv], dtype=float)), rs)
                        ctx.count("reuse_sampler_runs")
            except Exception as e:  # noqa
                ctx.refused("reuse_level", e)
                break
            F.check(f"{cur_id}: after level {lv} ({reps} requests on JointDistribution({vname}, {ex}))", op)
            ctx.count("reuse_levels_checked")
            chain.append((ex, jv, je, flag))
            cur_id = f"{eid}/L{lv}"
            cur = r_keep
            F.track(cur_id, cur)          # the reduced copy is the next level's input: now an 'original' itself
            live[cur_id] = (eid, list(chain))
        live[eid] = (eid, [])
    def rederive(Tw, tid):
        if tid not in live:
            return None
        root, ch = live[tid]
        o_ = recipes[root](Tw)
        for ex, jv, je, flag in ch:
            o_ = level(Tw, o_, root.split(":")[1], ex, jv, je, flag)[1]
        return o_
    F.twin(rederive, op)
    if ctx.counters.get("reuse_levels_checked", 0) > 0:
        ctx.nontrivial()
        ctx.nontrivial(f"reuse/{case['tpl']}/depth{depth}")

# ---- originals WITHOUT an explicit name= (the name is inferred from the Python variable that holds them)

def _autoname_make(cuqi, family, rs):
    """-> (distribution built without name=, value of its conditioning variable 'x' or None, value of the variable itself)."""
    D = cuqi.distribution
    if family == "gauss_fun":
        return D.Gaussian(lambda x: x, np.ones(2)), rs.standard_normal(2), rs.standard_normal(2)
    if family == "gauss_model":
        A = rs.standard_normal((3, 2))
        return D.Gaussian(cuqi.model.LinearModel(A), 0.5), rs.standard_normal(2), rs.standard_normal(3)
    if family == "normal_fun":
        return D.Normal(lambda x: x, 0.8, geometry=2), rs.standard_normal(2), rs.standard_normal(2)
    if family == "laplace_fun":
        return D.Laplace(lambda x: x, 0.8, geometry=2), rs.standard_normal(2), rs.standard_normal(2)
    if family == "lognormal_fun":
        return D.Lognormal(lambda x: x, 0.4 * np.eye(2), geometry=2), rs.standard_normal(2), np.exp(0.3 * rs.standard_normal(2))
    if family == "gmrf_prec":
        return D.GMRF(np.zeros(5), lambda x: x), float(np.exp(rs.standard_normal())), rs.standard_normal(5)
    if family == "cauchy_fun":
        return D.Cauchy(lambda x: x, 0.6, geometry=2), rs.standard_normal(2), rs.standard_normal(2)
    if family == "gamma_root":
        return D.Gamma(2.0, 1.0), None, float(np.exp(0.3 * rs.standard_normal()))
    if family == "gauss_root":
        return D.Gaussian(np.zeros(2), 1.3), None, rs.standard_normal(2)
    if family == "uniform_root":
        return D.Uniform(-1.0, 2.0), None, float(rs.uniform(-0.5, 1.5))
    if family == "beta_root":
        return D.Beta(2.0, 3.0), None, float(rs.uniform(0.2, 0.8))
    raise ValueError(family)

def _autoname_scenario(cuqi, family, order, rs):
    """All objects live in locals of THIS frame only, each under one name; the original is `y` (or `x`,`y` for the joint).
    Returns [(step, type of derived object, expected name, observed name or ('exc', type))]. `.name` is read here, directly."""
    def nm(fn):
        try:
            return fn()
        except Exception as e:  # noqa
            return ("exc", type(e).__name__)
    rec = []
    if family == "joint_xy":
        x = cuqi.distribution.Gaussian(np.zeros(2), 1.0)
        y = cuqi.distribution.Gaussian(lambda x: x, 0.5 * np.ones(2))
        if order == "name_first":
            rec.append(("original", "Gaussian", "y", nm(lambda: y.name)))
        jj = cuqi.distribution.JointDistribution(x, y)
        dv, xv = rs.standard_normal(2), rs.standard_normal(2)
        post = jj(y=dv)
        lk = jj(x=xv)
        q = [("joint_factor_names", "JointDistribution", ["x", "y"], lambda: list(jj.get_parameter_names())),
             ("posterior_prior", type(post).__name__, "x", lambda: post.prior.name),
             ("posterior_likelihood", type(post).__name__, "y", lambda: post.likelihood.name),
             ("joint_cond_x", type(lk).__name__, ["y"], lambda: list(lk.get_parameter_names())),
             ("original_x", "Gaussian", "x", lambda: x.name), ("original", "Gaussian", "y", lambda: y.name)]
        for step, cls, exp, fn in (reversed(q) if order == "copy_first_reversed" else q):
            rec.append((step, cls, exp, nm(fn)))
        return rec
    y, xv, dv = _autoname_make(cuqi, family, rs)
    if order == "name_first":
        rec.append(("original", type(y).__name__, "y", nm(lambda: y.name)))
    cp = y()                                   # empty conditioning: plain copy
    if xv is None:                             # fully specified original
        ev = y(dv)                             # positional on its own value -> constant density
        tl = y.to_likelihood(dv)
        ev2 = cp(dv)
        q = [("cond_pos_own_value", ev, lambda: ev.name), ("to_likelihood", tl, lambda: tl.name), ("copy", cp, lambda: cp.name),
             ("copy_cond_pos_own_value", ev2, lambda: ev2.name)]
    else:
        lik = y(y=dv)                          # -> Likelihood
        ev = lik(x=xv)                         # -> constant density
        cc = y(x=xv)                           # -> conditioned copy
        ev2 = cc(y=dv)
        ev2b = cc(dv)
        ev3 = y(x=xv, y=dv)
        ev4 = y(xv, dv)
        tl = y.to_likelihood(dv)
        tl2 = cc.to_likelihood(dv)
        lk2 = cp(y=dv)
        q = [("cond_kw_own_name", lik, lambda: lik.name), ("likelihood_cond", ev, lambda: ev.name), ("cond_kw", cc, lambda: cc.name),
             ("copy_cond_kw_own_name", ev2, lambda: ev2.name), ("copy_cond_pos", ev2b, lambda: ev2b.name),
             ("cond_kw_all", ev3, lambda: ev3.name), ("cond_pos_all", ev4, lambda: ev4.name), ("to_likelihood", tl, lambda: tl.name),
             ("copy_to_likelihood", tl2, lambda: tl2.name), ("copy", cp, lambda: cp.name), ("copy_cond_kw_own_name2", lk2, lambda: lk2.name)]
    if order == "copy_first_reversed":
        q = q[::-1]
    for step, o_, fn in q:
        rec.append((step, type(o_).__name__, "y", nm(fn)))
    rec.append(("original", type(y).__name__, "y", nm(lambda: y.name)))
    return rec

def run_autoname(case, ctx):
    import cuqi
    rs = core.np_rng(ctx.seed, PROPERTY, core.canon(case), "autoname")
    family, order = case["family"], case["order"]
    rec = _autoname_scenario(cuqi, family, order, rs)
    judged = 0
    for step, cls, exp, got in rec:
        if got is None or (isinstance(got, tuple) and got and got[0] == "exc"):
            ctx.count("autoname_unjudged")          # name inference itself refused / found nothing: fragile by design, not judged
            continue
        ctx.count("autoname_names_checked")
        ctx.count("copy_name_checked")
        judged += 1
        if got != exp:
            ctx.violation("copy_name_changed", {"kind": "autoname", "tpl": "autoname", "family": family, "order": order, "step": step, "result": cls},
                          detail=f"original created without name= and held by the variable {exp!r}: {step} gave a {cls} named {got!r} "
                                 f"(order of events: {order}; all names read: {[(s_, g_) for s_, _, _, g_ in rec]})")
    if judged >= 3:
        ctx.nontrivial()
        ctx.nontrivial(f"autoname/{family}/{order}")
    ctx.note("autoname", [(s_, g_ if not isinstance(g_, tuple) else list(g_)) for s_, _, _, g_ in rec][:12])

def selftest(ctx):
    import cuqi  # noqa
    for msg in G.selftest():
        ctx.inconclusive("reference tables: " + msg)
    R = core.rng_for("selftest", PROPERTY)
    cs = [{"kind": "seq", "tpl": "hier", "opts": _hier_opts(R, "quick"), "nops": 5} for _ in range(3)]
    cs += [{"kind": "seq", "tpl": "chain", "opts": _chain_opts(R, "quick"), "nops": 5} for _ in range(3)]
    cs[0]["opts"].update({"xprior": "gauss_prec_d", "noise": "cov_l", "model": "mat", "lik": "gauss"})
    for c in cs:
        W1, W2 = build_world(c), build_world(c)
        for (k1, o1), (k2, o2) in zip(W1.originals(), W2.originals()):
            f1, f2 = fingerprint(o1, W1), fingerprint(o2, W2)
            if k1 != k2 or fp_diff(f1, f2) or fp_diff(f1, fingerprint(o1, W1)):
                ctx.inconclusive(f"fingerprint of {k1} is not reproducible on an untouched world ({fp_diff(f1, f2)[:4]})")
        # the fingerprint must see the kinds of damage the property is about (inflicted here by the harness itself)
        x = W1.dists["x" if c["tpl"] == "hier" else "a"]
        f0 = fingerprint(x, W1)
        x._constant = x._constant + 0.5
        if "const" not in fp_diff(f0, fingerprint(x, W1)):
            ctx.inconclusive("fingerprint blind to an accumulated _constant")
        x._constant = x._constant - 0.5
        J = W1.joint
        fj = fingerprint(J, W1)
        saved = J._densities[0]
        J._densities[0] = saved(**{saved.get_parameter_names()[-1]: W1.probes[saved.get_parameter_names()[-1]][0]})
        if not fp_diff(fj, fingerprint(J, W1)):
            ctx.inconclusive("fingerprint blind to a joint conditioned in place")
        J._densities[0] = saved
        if fp_diff(fj, fingerprint(J, W1)):
            ctx.inconclusive("fingerprint not restored after undoing the damage")
    W = build_world(cs[0])
    x = W.dists["x"]
    f0 = fingerprint(x, W)
    x._mutable_vars.append("bogus")
    if not fp_diff(f0, fingerprint(x, W)):
        ctx.inconclusive("fingerprint blind to a changed mutable-variable list")
    x._mutable_vars.remove("bogus")
    y = W.dists["y"]
    f0 = fingerprint(y, W)
    y.enable_FD(1e-5)
    if "FD" not in fp_diff(f0, fingerprint(y, W)):
        ctx.inconclusive("fingerprint blind to the FD flag")
    y.disable_FD()
