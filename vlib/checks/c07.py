"""C07 - a linear model's adjoint is the transpose of its forward map.

Workload: LinearModel instances built from dense/sparse matrices and from recorded
(forward, adjoint) function pairs over every pairing of domain/range geometry
(default, Continuous1D/2D, Discrete, Image2D C/F/visual-only, mapped (orthogonal, scaling,
without inverse), KLExpansion full/truncated, StepExpansion n_steps = / < n_grid, CustomKL,
KLExpansion_Full), function pairs that return views of their argument (identity, down-sampling, windowing,
reversal, image transpose), their .T and .T.T (taken before and after the matrix was cached), parameter vectors
arriving as plain ndarrays, as read-only strided views, wrapped as CUQIarray (own / equal / same-class-other-settings /
default geometry) and as cuqi.samples.Samples batches (Ns = 1, 2, 5; model's or default geometry) through forward / adjoint /
T.forward / T.adjoint - including per-vector callables that are shape preserving on 2-D input (convolve1d, roll, flip,
cumsum, reverse) -, operators scaled by 10^-20..10^16 or with 18 decades of dynamic range, and the
models of the shipped linear test problems (Deconvolution1D incl. legacy, Deconvolution2D,
Abel1D, _Deconv_1D, _Deblur) under all their options.

Monitors (all at the public API, parameter space): A_f = [forward(e_i)], A_a = [adjoint(e_j)],
G = get_matrix(), random-vector inner products, the same on T = model.T and T.T, recording
proxies around the user callables (which callable did T.forward / T.adjoint / @ / get_matrix reach).

Oracle: A_a == A_f^T, <A x,y> == <x,A* y>, G.shape == (range_dim, domain_dim) and G == A_f
(column by column), G x == forward(x), T.forward == adjoint, T.adjoint == forward,
T.get_matrix() == G^T, T.T == model.  A documented exception is a refusal (accepted for
geometries whose maps are not orthogonal/implemented; a violation for identity-like ones).
For identity-like / reshaping geometries forward and adjoint are also compared with the user operator
conjugated by the documented vector<->image reshaping (vlib/refs/c07_linops.py), Deconvolution1D's
columns with scipy.ndimage.convolve1d of the unit vectors.

Every mismatch carries a `form` attribute saying whether the wrong value is exactly what one of the
known defects produces (adjoint = fun2par o M^T o par2fun composition, get_matrix = raw input matrix,
T = geometry maps applied twice, Deconvolution2D adjoint = forward with the PSF rotated by 180 degrees);
the known findings match only those forms, so any other wrong value in the same configuration is reported.
"""
import numpy as np
from vlib import core
from vlib.refs import c07_linops as L

PROPERTY = "C07"
RULE = ("discrete axes (backing x domain geometry x range geometry x transpose order; test problem x PSF x size "
        "parity/relation to dim x boundary condition x legacy; Abel field types) are enumerated, sizes/values are drawn "
        "from the seed; a case is non-trivial when the model was built, forward AND adjoint produced full parameter-space "
        "matrices (A_f, A_a) that were compared entry by entry, and the operator is not a multiple of the identity; "
        "distinct = distinct descriptors")
ASSUMPTIONS = ["inner products are Euclidean in parameter space (what CGLS/LinearRTO/gradients assume)",
               "a documented exception (ValueError/TypeError/NotImplementedError/...) from a geometry whose par2fun/fun2par "
               "is an expansion or a user map counts as a refusal; for identity-like / reshaping geometries a refusal is a violation"]
REQUIRED_COUNTERS = {
    "quick": {"adjoint_entries_compared": 150000, "inner_products_checked": 1300, "matrix_columns_compared": 7000,
              "transpose_applications_compared": 17000, "transpose_matrix_compared": 600, "proxy_call_windows_checked": 2500,
              "conv1d_columns_compared": 800, "forward_vs_user_operator_compared": 900, "wrapped_inputs_compared": 1000, "samples_columns_compared": 10000},
    "thorough": {"adjoint_entries_compared": 1500000, "inner_products_checked": 4000, "matrix_columns_compared": 40000,
                 "transpose_applications_compared": 90000, "transpose_matrix_compared": 1800, "proxy_call_windows_checked": 7000,
                 "conv1d_columns_compared": 5000, "forward_vs_user_operator_compared": 5000, "wrapped_inputs_compared": 3000, "samples_columns_compared": 30000},
}
BUDGET_S = {"quick": 240.0, "thorough": 2400.0}

RTOL = 1e-9
MAX_REL_PASSED = [0.0]     # largest relative discrepancy among comparisons that passed (tolerance audit; see notes)

# ----------------------------------------------------------------------------- geometry specs
# class of a geometry as far as C07 is concerned:
#   "identity"  par2fun/fun2par are the identity on vectors
#   "reshape"   orthogonal reshaping vector <-> image (C / F order)
#   "orth"      user map that is orthogonal (flip) with its inverse given
#   "expansion" linear but fun2par is an inverse/projection, not the transpose (KL, Step n_steps<n_grid, scaling map)
#   "noinv"     fun2par not available (CustomKL, KLExpansion_Full, mapped without imap)
G_CLASS = {"default": "identity", "cont1d": "identity", "cont1d_grid": "identity", "discrete": "identity",
           "discrete_names": "identity", "image_visual": "identity", "step_eq": "identity",
           "default2d": "reshape", "image_C": "reshape", "image_F": "reshape", "cont2d": "reshape",
           "mapped_flip": "orth",
           "mapped_scale": "expansion", "kl_full": "expansion", "kl_trunc": "expansion", "step_lt": "expansion",
           "step_lt_max": "expansion",
           "mapped_noimap": "noinv", "customkl": "noinv", "klfull_class": "noinv"}
G_1D = ["default", "cont1d", "cont1d_grid", "discrete", "discrete_names", "image_visual", "step_eq", "mapped_flip",
        "mapped_scale", "kl_full", "kl_trunc", "step_lt", "mapped_noimap", "customkl", "klfull_class"]
G_2D = ["default2d", "image_C", "image_F", "cont2d"]
MUST_WORK = ("identity", "reshape", "orth")

def _spec(r, name, lo, hi, lo2, hi2):
    if name in G_2D:
        a, b = r.randint(lo2, hi2), r.randint(lo2, hi2)
        if a == b:
            b = b + 1
        return {"g": name, "shape": [a, b]}
    if name == "image_visual":
        a, b = r.randint(lo2, hi2), r.randint(lo2, hi2)
        return {"g": name, "shape": [a, b]}
    n = r.randint(lo, hi)
    s = {"g": name, "n": n}
    if name in ("cont1d_grid", "kl_full", "kl_trunc", "step_eq", "step_lt", "step_lt_max", "customkl", "klfull_class"):
        s["x0"] = round(r.uniform(-2, 2), 2)
        s["h"] = round(r.uniform(0.05, 1.5), 3)
    if name == "kl_trunc":
        s["modes"] = r.randint(1, n - 1)
        s["decay"] = r.choice([0.5, 1.0, 2.5])
    if name == "kl_full":
        s["decay"] = r.choice([0.5, 1.0, 2.5])
    if name in ("step_lt", "step_lt_max"):
        s["steps"] = r.randint(1, n - 1)
    if name == "customkl":
        s["trunc"] = r.randint(1, max(1, n // 2))
    if name == "mapped_scale":
        s["c"] = r.choice([0.5, 2.0, 3.0])
    return s

def _fun_shape(spec):
    return tuple(spec["shape"]) if spec["g"] in G_2D else ((spec["shape"][0] * spec["shape"][1],) if spec["g"] == "image_visual" else (spec["n"],))

def _par_dim(spec):
    g = spec["g"]
    if g == "kl_trunc":
        return spec["modes"]
    if g in ("step_lt", "step_lt_max"):
        return spec["steps"]
    if g == "customkl":
        return spec["trunc"]
    return int(np.prod(_fun_shape(spec)))

def _build_geom(spec, for_matrix_default=False):
    """Returns the object handed to LinearModel(range_geometry=/domain_geometry=)."""
    import cuqi
    G = cuqi.geometry
    g = spec["g"]
    if g == "default":
        return None if for_matrix_default else spec["n"]
    if g == "default2d":
        return tuple(spec["shape"])
    if g == "cont1d":
        return G.Continuous1D(spec["n"])
    grid = (spec["x0"] + spec["h"] * np.arange(spec["n"])) if "x0" in spec else None
    if g == "cont1d_grid":
        return G.Continuous1D(grid)
    if g == "discrete":
        return G.Discrete(spec["n"])
    if g == "discrete_names":
        return G.Discrete(["p%d" % i for i in range(spec["n"])])
    if g == "image_visual":
        return G.Image2D(tuple(spec["shape"]), visual_only=True)
    if g == "image_C":
        return G.Image2D(tuple(spec["shape"]), order="C")
    if g == "image_F":
        return G.Image2D(tuple(spec["shape"]), order="F")
    if g == "cont2d":
        return G.Continuous2D(tuple(spec["shape"]))
    if g == "step_eq":
        return G.StepExpansion(grid, n_steps=spec["n"])
    if g == "step_lt":
        return G.StepExpansion(grid, n_steps=spec["steps"])
    if g == "step_lt_max":
        return G.StepExpansion(grid, n_steps=spec["steps"], fun2par_projection="max")
    if g == "kl_full":
        return G.KLExpansion(grid, decay_rate=spec["decay"], normalizer=3.0)
    if g == "kl_trunc":
        return G.KLExpansion(grid, decay_rate=spec["decay"], normalizer=3.0, num_modes=spec["modes"])
    if g == "customkl":
        return G.CustomKL(grid, trunc_term=spec["trunc"], cov_func=lambda x, y: np.exp(-abs(x - y)))
    if g == "klfull_class":
        return G.KLExpansion_Full(grid)
    if g == "mapped_flip":
        return G.MappedGeometry(G.Continuous1D(spec["n"]), map=lambda f: f[::-1], imap=lambda f: f[::-1])
    if g == "mapped_scale":
        c = spec["c"]
        return G.MappedGeometry(G.Continuous1D(spec["n"]), map=lambda f: c * f, imap=lambda f: f / c)
    if g == "mapped_noimap":
        return G.MappedGeometry(G.Continuous1D(spec["n"]), map=lambda f: 2.0 * f)
    raise ValueError("unknown geometry spec " + g)

# ----------------------------------------------------------------------------- cases

DECONV_BCS = ["zero", "periodic", "Neumann", "Mirror", "Nearest"]
DECONV1D_BCS = ["zero", "periodic", "Mirror", "Reflect", "Nearest"]

def cases(tier, seed):
    quick = tier == "quick"
    r = core.rng_for(seed, PROPERTY, tier, "cases")
    lo, hi = (3, 12) if quick else (3, 30)
    lo2, hi2 = (2, 4) if quick else (2, 6)
    out = []
    # ---- matrix-backed
    backings = ["dense", "csc", "csr", "coo", "lil", "dense_F", "dense_int"]
    k = 0
    for dom in G_1D:
        for ran in G_1D:
            bs = backings if not quick else [backings[k % 7]]
            for b in bs:
                k += 1
                out.append({"kind": "matrix", "backing": b, "dom": _spec(r, dom, lo, hi, lo2, hi2),
                            "ran": _spec(r, ran, lo, hi, lo2, hi2), "t_order": ("before", "after")[k % 2], "scale": SCALES[(k // 2) % len(SCALES)]})
    for dom in G_2D:
        for ran in G_2D:
            for b in (backings if not quick else [backings[k % 7]]):
                k += 1
                d = _spec(r, dom, lo, hi, lo2, hi2)
                rg = _spec(r, ran, lo, hi, lo2, hi2)
                rg["shape"][1] = d["shape"][1]          # matrix acts on the image columns
                out.append({"kind": "matrix", "backing": b, "dom": d, "ran": rg, "t_order": ("before", "after")[k % 2], "scale": SCALES[(k // 2) % len(SCALES)]})
    # 1D domain with 2D range and vice versa (the matrix cannot act consistently: refusal probes)
    for dom, ran in (("cont1d", "image_C"), ("image_F", "cont1d"), ("default", "cont2d"), ("image_C", "kl_trunc")):
        out.append({"kind": "matrix", "backing": "dense", "dom": _spec(r, dom, lo, hi, lo2, hi2),
                    "ran": _spec(r, ran, lo, hi, lo2, hi2), "t_order": "after", "flat": True})
    # ---- function-backed (recorded callables)
    allg = G_1D + G_2D
    for dom in allg:
        for ran in allg:
            for t_order in ("before", "after"):
                for rep in range(1 if quick else 3):
                    k += 1
                    out.append({"kind": "func", "dom": _spec(r, dom, lo, hi, lo2, hi2), "ran": _spec(r, ran, lo, hi, lo2, hi2),
                                "t_order": t_order, "op": r.choice(["dense", "dense", "symmetric_square", "sparse"]), "rep": rep,
                                "scale": SCALES[(k // 2) % len(SCALES)]})
    # ---- function-backed models whose callables return views / aliases of their input (selection operators)
    for view in ("identity", "downsample", "window", "reverse", "convolve1d", "roll", "flip", "cumsum_last"):
        for g in ("default", "cont1d", "cont1d_grid", "discrete", "step_eq", "image_visual"):
            for t_order in ("before", "after"):
                for rep in range(1 if quick else 3):
                    out.append({"kind": "funcview", "view": view, "dom": _spec(r, g, max(lo, 5), hi, lo2, hi2), "t_order": t_order, "rep": rep})
    for view in ("image_identity", "image_transpose"):
        for g in G_2D:
            for t_order in ("before", "after"):
                for rep in range(1 if quick else 3):
                    out.append({"kind": "funcview", "view": view, "dom": _spec(r, g, lo, hi, lo2, hi2), "t_order": t_order, "rep": rep})
    # ---- Deconvolution1D
    psfs = ["gauss", "moffat", "defocus", "custom_asym", "custom_sym"]
    rels = ["odd_lt", "even_lt", "eq_dim", "none", "gt_dim"]
    for psf in psfs:
        for rel in rels:
            for bc in DECONV1D_BCS:
                for rep in range(1 if quick else 3):
                    dim = r.randint(8, 24 if quick else 64)
                    out.append({"kind": "deconv1d", "dim": dim, "psf": psf, "rel": rel, "bc": bc,
                                "param": round(r.uniform(0.8, 4.0), 2), "legacy": False, "rep": rep,
                                "pscale": r.choice([0, 0, -16, -8, 8]) if psf.startswith("custom") else 0})
    for psf in ["gauss", "sinc", "prolate", "vonmises", "custom_asym", "custom_sym"]:
        for rep in range(1 if quick else 3):
            out.append({"kind": "deconv1d", "dim": 2 * r.randint(4, 12 if quick else 32), "psf": psf, "rel": "none",
                        "bc": "periodic", "param": r.choice([None, 3.0, 12.0]), "legacy": True, "rep": rep})
    # ---- Deconvolution2D
    psfs2 = ["gauss", "moffat", "defocus", "custom_asym", "custom_centro", "custom_axis"]
    rels2 = ["one", "odd_lt", "even_lt", "odd_big", "even_big"]
    for psf in psfs2:
        for rel in rels2:
            for bc in DECONV_BCS:
                for rep in range(1 if quick else 3):
                    dim = r.randint(5, 8 if quick else 12)
                    out.append({"kind": "deconv2d", "dim": dim, "psf": psf, "rel": rel, "bc": bc,
                                "param": round(r.uniform(0.9, 3.0), 2), "rep": rep,
                                "t_order": ("before", "after")[len(out) % 2],
                                "pscale": r.choice([0, 0, -16, -8, 8]) if psf.startswith("custom") else 0})
    # ---- Abel1D / _Deconv_1D / _Deblur
    fields = ["none", "KL", "KL_trunc", "Step", "Step_eq", "CustomKL", "geom_cont1d", "geom_discrete", "KL_map_scale",
              "KL_map_flip", "KL_map_noimap"]
    for f in fields:
        for rep in range(1 if quick else 3):
            out.append({"kind": "abel", "dim": r.randint(8, 20 if quick else 48), "field": f, "endpoint": r.choice([1, 1, 2.5]), "rep": rep})
            out.append({"kind": "deconv_1d_old", "dim": r.randint(8, 20 if quick else 48), "field": f, "rep": rep})
    for rep in range(2 if quick else 6):
        out.append({"kind": "deblur_old", "dim": r.randint(8, 24 if quick else 64), "blur": r.choice([8, 24, 48]), "rep": rep})
    for i, c in enumerate(out):
        c["i"] = i
    return out

def _cfg(case):
    """Discrete attributes of a case (never random values) - used to match known findings."""
    kind = case["kind"]
    c = {"model": {"matrix": "LinearModel", "func": "LinearModel", "funcview": "LinearModel", "deconv1d": "Deconvolution1D", "deconv2d": "Deconvolution2D",
                   "abel": "Abel1D", "deconv_1d_old": "_Deconv_1D", "deblur_old": "_Deblur"}[kind]}
    if kind in ("matrix", "func"):
        c["backing"] = "matrix" if kind == "matrix" else "func"
        if kind == "matrix":
            c["format"] = case["backing"]
        c["dom"], c["ran"] = case["dom"]["g"], case["ran"]["g"]
        c["dom_class"], c["ran_class"] = G_CLASS[c["dom"]], G_CLASS[c["ran"]]
        c["t_order"] = case["t_order"]
        if case.get("flat"):
            c["flat"] = True
        c["scale"] = str(case.get("scale", 0))
    elif kind == "funcview":
        c.update({"backing": "func", "view": case["view"], "dom": case["dom"]["g"], "ran": case["dom"]["g"],
                  "dom_class": G_CLASS[case["dom"]["g"]], "ran_class": G_CLASS[case["dom"]["g"]], "t_order": case["t_order"]})
    elif kind == "deconv1d":
        c.update({"psf": case["psf"], "rel": case["rel"], "bc": case["bc"].lower(), "legacy": case["legacy"]})
    elif kind == "deconv2d":
        c.update({"psf": case["psf"], "bc": case["bc"].lower()})
    else:
        if "field" in case:
            c["field"] = case["field"]
        c["backing"] = "matrix"
        c["ran_class"] = "identity"
    return c

def crash_config(case):
    return _cfg(case)

# ----------------------------------------------------------------------------- observation helpers

def _dense(M):
    if hasattr(M, "toarray"):
        return np.asarray(M.toarray(), dtype=float)
    return np.asarray(M, dtype=float)

class _Obs:
    """Outcome of applying a parameter->parameter map to all unit vectors."""
    def __init__(self, status, mat=None, exc=None, why=""):
        self.status, self.mat, self.exc, self.why = status, mat, exc, why   # value | refused | crashed | badshape

def _columns(fn, n_in, n_out):
    cols = []
    e = np.zeros(n_in)
    for i in range(n_in):
        e[:] = 0.0
        e[i] = 1.0
        k, v = core.outcome(fn, e.copy())
        if k != "value":
            return _Obs(k, exc=v, why=f"column {i}: {type(v).__name__}: {core.short(str(v), 120)}")
        v = np.asarray(v)
        if v.ndim == 0 and n_out == 1:
            v = v.reshape(1)      # expansions squeeze a single parameter to a 0-d array (geometry matter, not C07)
        if v.shape != (n_out,):
            return _Obs("badshape", why=f"column {i}: output shape {v.shape}, expected ({n_out},)")
        cols.append(np.array(v, dtype=float))
    return _Obs("value", mat=np.column_stack(cols) if cols else np.zeros((n_out, 0)))

def _apply(fn, x, n_out):
    k, v = core.outcome(fn, x.copy())
    if k != "value":
        return k, v
    v = np.asarray(v)
    if v.ndim == 0 and n_out == 1:
        v = v.reshape(1)
    if v.shape != (n_out,):
        return "badshape", v.shape
    return "value", np.array(v, dtype=float)

def _scale(*ms):
    s = 0.0
    for m in ms:
        if m is not None and np.size(m):
            with np.errstate(invalid="ignore"):
                f = np.abs(m[np.isfinite(m)])
            if f.size:
                s = max(s, float(f.max()))
    return s

def _maxdiff(a, b):
    with np.errstate(invalid="ignore"):
        d = np.abs(a - b)
    d = d[np.isfinite(d)]
    return float(d.max()) if d.size else 0.0

def _exact_close(ctx, a, b):
    """Equal relative to max|.| and relative to every entry (for operands that are exact selections / permutations of each other)."""
    a, b = np.asarray(a, dtype=float), np.asarray(b, dtype=float)
    if a.shape != b.shape or not ctx.close(a, b, rtol=RTOL, atol=0.0):
        return False
    with np.errstate(invalid="ignore"):
        bad = (np.abs(a - b) > 1e-9 * np.maximum(np.abs(a), np.abs(b))) & np.isfinite(a) & np.isfinite(b)
    return not bool(np.any(bad))

class _Judge:
    """All comparisons of one model go through here so that counters say what was compared."""
    def __init__(self, ctx, cfg, label):
        self.ctx, self.cfg, self.label = ctx, cfg, label
        self.must_work = True
        self.exact = False

    def viol(self, mech, detail, extra=None):
        c = dict(self.cfg)
        if extra:
            c.update(extra)
        self.ctx.violation(mech, c, detail=f"[{self.label}] {detail}")

    def outcome_problem(self, what, obs_status, why):
        """obs_status in refused|crashed|badshape"""
        if obs_status == "refused":
            self.ctx.refused(what, _FakeExc(why))
            self.ctx.count("refusals_observed")
            if self.must_work:
                self.viol("unexpected_refusal", f"{what} refused although every geometry map involved is identity-like/orthogonal: {why}", {"op": what})
        elif obs_status == "crashed":
            self.viol("crash", f"{what} crashed: {why}", {"op": what})
        else:
            self.viol("output_shape_mismatch", f"{what}: {why}", {"op": what})

    def same_m(self, a, b, scale):
        """Matrix against matrix (columns on unit vectors).  Relative to max|A| - and, for models whose arithmetic on unit
        vectors is exact (matrix / user-operator backed LinearModels), also relative to every single entry, so that small
        entries of an operator with a large dynamic range cannot be lost inside a tolerance tied to the largest one."""
        if not self.same(a, b, scale):
            return False
        if self.exact:
            a, b = np.asarray(a, dtype=float), np.asarray(b, dtype=float)
            with np.errstate(invalid="ignore"):
                bad = np.abs(a - b) > 1e-9 * np.maximum(np.abs(a), np.abs(b))
            if np.any(bad & np.isfinite(a) & np.isfinite(b)):
                return False
        return True

    def same(self, a, b, scale, rtol=RTOL):
        ok = self.ctx.close(a, b, rtol=rtol, atol=0.0, scale=max(scale, 1e-300))
        if ok and np.shape(a) == np.shape(b) and np.size(a):
            d = _maxdiff(np.asarray(a, dtype=float), np.asarray(b, dtype=float)) / max(scale, 1e-300)
            if d > MAX_REL_PASSED[0]:
                MAX_REL_PASSED[0] = d
        return ok

class _FakeExc(Exception):
    pass

def _refuse(ctx, what, obs):
    name = type(obs.exc).__name__ if obs.exc is not None else "Exception"
    k = f"{what}:{name}"
    ctx.refusals[k] = ctx.refusals.get(k, 0) + 1
    ctx.count("refusals_observed")

# ---- classification of a mismatch (only used to make the known findings narrow: `form` says whether the wrong value is exactly
# ---- what the known defect produces; anything else is reported even inside a configuration that has a known finding)

def _obs_equal(O1, O2, scale_hint=0.0):
    """Two column observations agree: both refused/crashed, or both values and equal."""
    if O1.status != "value" or O2.status != "value":
        return O1.status == O2.status or {O1.status, O2.status} <= {"refused", "crashed", "badshape"}
    if O1.mat.shape != O2.mat.shape:
        return False
    sc = max(_scale(O1.mat, O2.mat), scale_hint, 1e-300)
    with np.errstate(invalid="ignore"):
        return bool(np.all(np.isfinite(O1.mat) == np.isfinite(O2.mat))) and _maxdiff(O1.mat, O2.mat) <= 1e-9 * sc

def _flat_out(v, n_out):
    v = np.asarray(v, dtype=float)
    return v.reshape(1) if (v.ndim == 0 and n_out == 1) else v

def make_doc(model, apply_M, apply_MT, raw=None):
    """The composition LinearModel documents: forward = range.fun2par o M o domain.par2fun, adjoint = domain.fun2par o M^T o
    range.par2fun, evaluated step by step with the model's own geometry objects."""
    dg, rg = model.domain_geometry, model.range_geometry
    return {"forward": lambda e: rg.fun2par(apply_M(dg.par2fun(e))), "adjoint": lambda e: dg.fun2par(apply_MT(rg.par2fun(e))), "raw": raw}

def examine(model, ctx, cfg, rs, label="model", must_work=True, t_order="after", rec=None, nvec=3, depth=0, expect_dims=None,
            doc=None, classify_adjoint=None, exact=False):
    """Observe one LinearModel completely. Returns dict with A_f, A_a, G (dense or None)."""
    J = _Judge(ctx, cfg, label)
    J.must_work = must_work
    J.exact = exact
    forms = {}
    def adj_form():
        if "adj" not in forms:
            if classify_adjoint is not None:
                forms["adj"] = classify_adjoint(F, A)
            elif doc is None:
                forms["adj"] = "unclassified"
            else:
                DF, DA = _columns(doc["forward"], n, m), _columns(doc["adjoint"], m, n)
                forms["adj"] = "documented_composition" if (_obs_equal(F, DF) and _obs_equal(A, DA)) else "other"
        return forms["adj"]
    res = {"Af": None, "Aa": None, "G": None, "adj_ok": True, "G_ok": True}
    k, dims = core.outcome(lambda: (int(model.domain_dim), int(model.range_dim)))
    if k != "value":
        J.outcome_problem("dims", "refused" if k == "refused" else "crashed", repr(dims))
        return res
    n, m = dims
    if expect_dims is not None:
        ctx.count("dims_checked")
        if (n, m) != tuple(expect_dims):
            J.viol("dimension_mismatch", f"(domain_dim, range_dim) = {(n, m)}, expected {tuple(expect_dims)}")
            return res
    T_before = None
    if t_order == "before" and depth == 0:
        kT, T_before = core.outcome(lambda: model.T)
        if kT != "value":
            J.outcome_problem("T", "refused" if kT == "refused" else "crashed", repr(T_before))
            T_before = None
    # ---- forward / adjoint as parameter-space matrices
    c0 = rec.snapshot() if rec else None
    F = _columns(model.forward, n, m)
    if rec:
        ctx.count("proxy_call_windows_checked")
        d = rec.delta(c0)
        if d["adj"] > 0:
            J.viol("wrong_callable_invoked", f"forward(e_i) reached the user's adjoint callable {d['adj']} times", {"op": "forward"})
    c0 = rec.snapshot() if rec else None
    A = _columns(model.adjoint, m, n)
    if rec:
        ctx.count("proxy_call_windows_checked")
        d = rec.delta(c0)
        if d["fwd"] > 0:
            J.viol("wrong_callable_invoked", f"adjoint(e_j) reached the user's forward callable {d['fwd']} times", {"op": "adjoint"})
    for what, O in (("forward", F), ("adjoint", A)):
        if O.status == "refused":
            _refuse(ctx, f"{label}.{what}", O)
            if must_work:
                J.viol("unexpected_refusal", f"{what} refused although every geometry map involved is identity-like/orthogonal: {O.why}", {"op": what})
        elif O.status != "value":
            J.outcome_problem(what, O.status, O.why)
    Af = res["Af"] = F.mat
    Aa = res["Aa"] = A.mat
    sc = _scale(Af, Aa)
    if Af is not None and Aa is not None:
        ctx.count("adjoint_entries_compared", Af.size)
        if not J.same_m(Aa, Af.T, sc):
            res["adj_ok"] = False
            i, j = np.unravel_index(np.nanargmax(np.abs(Aa - Af.T)), Aa.shape)
            J.viol("adjoint_mismatch", f"dims {m}x{n}: max |A* - A^T| = {_maxdiff(Aa, Af.T):.3g} (scale {sc:.3g}); "
                                      f"adjoint(e_{j})[{i}] = {Aa[i, j]:.6g} but forward(e_{i})[{j}] = {Af[j, i]:.6g}", {"form": adj_form()})
        if n and m and not (n == m and np.allclose(Af, Af[0, 0] * np.eye(n), atol=1e-12 * max(sc, 1e-300))):
            ctx.nontrivial()
    # ---- random vectors: linearity of both maps and the inner-product identity
    for _ in range(nvec):
        x = rs.standard_normal(n) * rs.choice([0.1, 1.0, 10.0])
        y = rs.standard_normal(m) * rs.choice([0.1, 1.0, 10.0])
        kx, Ax = _apply(model.forward, x, m) if Af is not None else ("skip", None)
        ky, Aty = _apply(model.adjoint, y, n) if Aa is not None else ("skip", None)
        if kx == "value":
            ctx.count("linearity_checked")
            if not J.same(Ax, Af @ x, sc * np.abs(x).sum()):
                J.viol("forward_not_linear", f"forward(x) differs from sum_i x_i forward(e_i) by {_maxdiff(Ax, Af @ x):.3g}", {"op": "forward"})
        elif kx not in ("skip",):
            J.viol("inconsistent_outcome", f"forward worked on unit vectors but on a random vector: {kx} {Ax!r}", {"op": "forward"})
        if ky == "value":
            ctx.count("linearity_checked")
            if not J.same(Aty, Aa @ y, sc * np.abs(y).sum()):
                J.viol("adjoint_not_linear", f"adjoint(y) differs from sum_j y_j adjoint(e_j) by {_maxdiff(Aty, Aa @ y):.3g}", {"op": "adjoint"})
        elif ky not in ("skip",):
            J.viol("inconsistent_outcome", f"adjoint worked on unit vectors but on a random vector: {ky} {Aty!r}", {"op": "adjoint"})
        if kx == "value" and ky == "value":
            ctx.count("inner_products_checked")
            lhs, rhs = float(Ax @ y), float(x @ Aty)
            bound = np.linalg.norm(Af) * np.linalg.norm(x) * np.linalg.norm(y)
            if not (abs(lhs - rhs) <= 1e-9 * bound + 1e-300):
                res["adj_ok"] = False
                J.viol("adjoint_mismatch", f"<A x, y> = {lhs:.12g} but <x, A* y> = {rhs:.12g} (||A|| ||x|| ||y|| = {bound:.3g})", {"form": adj_form()})
        # matmul / call aliases
        if kx == "value":
            for alias, fn in (("matmul", lambda v: model @ v), ("call", lambda v: model(v))):
                ka, va = _apply(fn, x, m)
                ctx.count("alias_applications_compared")
                if ka != "value" or not J.same(va, Ax, sc * np.abs(x).sum()):
                    J.viol("alias_mismatch", f"model {alias} x differs from forward(x): {ka}", {"op": alias})
    # ---- matrix representation
    c0 = rec.snapshot() if rec else None
    kG, G = core.outcome(model.get_matrix)
    if kG == "value":
        kG, G2 = core.outcome(lambda: _dense(G))
        G = G2
    if kG != "value":
        if kG == "refused":
            ctx.refused(f"{label}.get_matrix", G)
            ctx.count("refusals_observed")
            if must_work:
                J.viol("unexpected_refusal", f"get_matrix refused: {G!r}", {"op": "get_matrix"})
        else:
            J.viol("crash", f"get_matrix crashed: {G!r}", {"op": "get_matrix"})
        G = None
    else:
        if rec:
            ctx.count("proxy_call_windows_checked")
            d = rec.delta(c0)
            if d["adj"] > 0:
                J.viol("wrong_callable_invoked", f"get_matrix reached the user's adjoint callable {d['adj']} times", {"op": "get_matrix"})
        res["G"] = G
        ctx.count("matrix_shape_checked")
        raw = doc.get("raw") if doc else None
        mform = "unclassified" if raw is None else ("raw_matrix" if (G.shape == raw.shape and np.array_equal(G, raw)) else "other")
        if G.ndim != 2 or G.shape != (m, n):
            res["G_ok"] = False
            J.viol("matrix_mismatch", f"get_matrix().shape = {G.shape} but (range_dim, domain_dim) = {(m, n)}", {"what": "shape", "form": mform})
        elif Af is not None:
            ctx.count("matrix_columns_compared", n)
            if not J.same_m(G, Af, sc):
                res["G_ok"] = False
                bad = [i for i in range(n) if not J.same_m(G[:, i], Af[:, i], sc)]
                J.viol("matrix_mismatch", f"get_matrix()[:, i] != forward(e_i) for {len(bad)}/{n} columns (first i={bad[0]}: "
                                         f"{np.round(G[:, bad[0]], 6).tolist()[:6]} vs {np.round(Af[:, bad[0]], 6).tolist()[:6]})", {"what": "values", "form": mform})
            # a second request must give the same matrix (cache)
            k2, G2 = core.outcome(lambda: _dense(model.get_matrix()))
            ctx.count("matrix_cache_compared")
            if k2 != "value" or G2.shape != G.shape or not J.same_m(G2, G, sc):
                J.viol("matrix_mismatch", "second get_matrix() differs from the first", {"what": "cache"})
            # forward after the matrix has been cached still is the same map
            x = rs.standard_normal(n)
            kx, Ax = _apply(model.forward, x, m)
            ctx.count("forward_after_cache_compared")
            if kx != "value" or not J.same(Ax, Af @ x, sc * np.abs(x).sum()):
                J.viol("forward_changed_after_get_matrix", f"forward(x) after get_matrix() differs from before ({kx})")
            y = rs.standard_normal(m)
            ky, Aty = _apply(model.adjoint, y, n) if Aa is not None else ("skip", None)
            if ky != "skip":
                ctx.count("forward_after_cache_compared")
                if ky != "value" or not J.same(Aty, Aa @ y, sc * np.abs(y).sum()):
                    J.viol("forward_changed_after_get_matrix", f"adjoint(y) after get_matrix() differs from before ({ky})", {"op": "adjoint"})
    if depth >= 1:
        return res
    # ---- transpose
    Ts = []
    if T_before is not None:
        Ts.append(("T(before matrix)", T_before))
    kT, T_after = core.outcome(lambda: model.T)
    if kT != "value":
        J.outcome_problem("T", "refused" if kT == "refused" else "crashed", repr(T_after))
    else:
        Ts.append(("T(after matrix)", T_after))
    for tlabel, T in Ts:
        _examine_transpose(model, T, ctx, cfg, rs, f"{label}.{tlabel}", must_work, rec, res, n, m, sc, exact)
    return res

def _examine_transpose(model, T, ctx, cfg, rs, label, must_work, rec, res, n, m, sc, exact=False):
    J = _Judge(ctx, cfg, label)
    J.must_work = must_work
    J.exact = exact
    Af, Aa, G = res["Af"], res["Aa"], res["G"]
    tf = {}
    def tviol(detail, extra):
        """transpose_mismatch with its `form`: 'double_maps' when T.forward / T.adjoint are exactly the model's adjoint / forward
        wrapped once more in the geometry maps (the known construction of LinearModel.T), 'other' for anything else."""
        if "TF" not in tf:
            J.viol("transpose_mismatch", detail, {**extra, "form": "other"})
            return
        if "form" not in tf:
            k_, g_ = core.outcome(lambda: (model.domain_geometry, model.range_geometry))
            if k_ != "value":
                tf["form"] = "other"
            else:
                dg, rg = g_
                DTF = _columns(lambda e: dg.fun2par(model.adjoint(rg.par2fun(e))), m, n)
                DTA = _columns(lambda e: rg.fun2par(model.forward(dg.par2fun(e))), n, m)
                tf["form"] = "double_maps" if (_obs_equal(tf["TF"], DTF) and _obs_equal(tf["TA"], DTA)) else "other"
        J.viol("transpose_mismatch", detail, {**extra, "form": tf["form"]})
    k, dims = core.outcome(lambda: (int(T.domain_dim), int(T.range_dim)))
    ctx.count("transpose_dims_checked")
    if k != "value" or dims != (m, n):
        tviol(f"T has (domain_dim, range_dim) = {dims!r}, model has {(n, m)}", {"what": "dims"})
        return
    kg, same_g = core.outcome(lambda: (T.domain_geometry == model.range_geometry) and (T.range_geometry == model.domain_geometry))
    ctx.count("transpose_geometry_checked")
    if kg != "value" or not same_g:
        tviol("T.domain_geometry/range_geometry are not the model's range/domain geometries", {"what": "geometry"})
    # T.forward == adjoint on all unit vectors, T.adjoint == forward
    c0 = rec.snapshot() if rec else None
    TF = _columns(T.forward, m, n)
    if rec:
        ctx.count("proxy_call_windows_checked")
        d = rec.delta(c0)
        if d["fwd"] > 0:
            J.viol("wrong_callable_invoked", f"T.forward reached the user's forward callable {d['fwd']} times (and adjoint {d['adj']})", {"op": "T.forward"})
    c0 = rec.snapshot() if rec else None
    TA = _columns(T.adjoint, n, m)
    tf["TF"], tf["TA"] = TF, TA
    if rec:
        ctx.count("proxy_call_windows_checked")
        d = rec.delta(c0)
        if d["adj"] > 0:
            J.viol("wrong_callable_invoked", f"T.adjoint reached the user's adjoint callable {d['adj']} times (and forward {d['fwd']})", {"op": "T.adjoint"})
    for what, O, ref, refname in (("T.forward", TF, Aa, "adjoint"), ("T.adjoint", TA, Af, "forward")):
        if O.status == "refused":
            _refuse(ctx, label + "." + what.split(".")[1], O)
            if must_work:
                J.viol("unexpected_refusal", f"{what} refused: {O.why}", {"op": what})
            continue
        if O.status != "value":
            J.outcome_problem(what, O.status, O.why)
            continue
        if ref is None:
            ctx.count("transpose_without_reference")
            continue
        ctx.count("transpose_applications_compared", O.mat.shape[1])
        if not J.same_m(O.mat, ref, sc):
            tviol(f"{what}(e_i) != model.{refname}(e_i): max diff {_maxdiff(O.mat, ref):.3g} (scale {sc:.3g})", {"what": what})
    for _ in range(2):
        y = rs.standard_normal(m)
        x = rs.standard_normal(n)
        for what, fn, arg, ref, nout in (("T.forward", T.forward, y, model.adjoint, n), ("T.adjoint", T.adjoint, x, model.forward, m),
                                         ("T@", lambda v: T @ v, y, model.adjoint, n)):
            k1, v1 = _apply(fn, arg, nout)
            k2, v2 = _apply(ref, arg, nout)
            if k1 == "value" and k2 == "value":
                ctx.count("transpose_applications_compared")
                if not J.same(v1, v2, sc * np.abs(arg).sum()):
                    tviol(f"{what}(v) != model counterpart on a random vector: max diff {_maxdiff(v1, v2):.3g}", {"what": what.replace("T@", "T.forward")})
    # matrix of the transpose: must be get_matrix().T and reproduce T.forward column by column.  When the model itself was
    # already found inconsistent (adjoint != forward^T, or get_matrix() != forward columns) the two requirements
    # contradict each other, so only one of them is demanded.
    consistent = res["adj_ok"] and res["G_ok"]
    kG, TG = core.outcome(lambda: _dense(T.get_matrix()))
    if kG == "refused":
        ctx.refused(label + ".get_matrix", TG)
        ctx.count("refusals_observed")
        if must_work:
            J.viol("unexpected_refusal", f"T.get_matrix refused: {TG!r}", {"op": "T.get_matrix"})
    elif kG == "crashed":
        J.viol("crash", f"T.get_matrix crashed: {TG!r}", {"op": "T.get_matrix"})
    else:
        cands = []
        if G is not None:
            cands.append(("get_matrix().T", G.T))
        if TF.status == "value":
            cands.append(("the columns T.forward(e_j)", TF.mat))
        if not consistent:
            cands += [(nm, C) for nm, C in (("forward columns^T", None if Af is None else Af.T), ("adjoint columns", Aa)) if C is not None]
        ok = [name for name, C in cands if TG.shape == C.shape and J.same_m(TG, C, sc)]
        if cands:
            ctx.count("transpose_matrix_compared")
            if (consistent and len(ok) < len(cands)) or (not consistent and not ok):
                missing = [name for name, _ in cands if name not in ok]
                tviol(f"T.get_matrix() (shape {TG.shape}) differs from " + " and from ".join(missing)
                       + ("" if consistent else " (model already inconsistent: either would have been accepted)"), {"what": "T.get_matrix"})
    # T.T behaves like the model
    kTT, TT = core.outcome(lambda: T.T)
    if kTT != "value":
        J.outcome_problem("T.T", "refused" if kTT == "refused" else "crashed", repr(TT))
        return
    TTF = _columns(TT.forward, n, m)
    TTA = _columns(TT.adjoint, m, n)
    for what, O, ref in (("T.T.forward", TTF, Af), ("T.T.adjoint", TTA, Aa)):
        if O.status == "refused":
            _refuse(ctx, label + ".T." + what.split(".")[-1], O)
            if must_work:
                J.viol("unexpected_refusal", f"{what} refused: {O.why}", {"op": what})
        elif O.status != "value":
            J.outcome_problem(what, O.status, O.why)
        elif ref is not None:
            ctx.count("double_transpose_compared", O.mat.shape[1])
            if not J.same_m(O.mat, ref, sc):
                tviol(f"{what} != model counterpart: max diff {_maxdiff(O.mat, ref):.3g}", {"what": what})
    kG, TTG = core.outcome(lambda: _dense(TT.get_matrix()))
    if kG == "value":
        cands = []
        if G is not None:
            cands.append(("get_matrix()", G))
        if TTF.status == "value":
            cands.append(("the columns T.T.forward(e_i)", TTF.mat))
        if not consistent:
            cands += [(nm, C) for nm, C in (("forward columns", Af), ("adjoint columns^T", None if Aa is None else Aa.T)) if C is not None]
        ok = [name for name, C in cands if TTG.shape == C.shape and J.same_m(TTG, C, sc)]
        if cands:
            ctx.count("double_transpose_compared")
            if (consistent and len(ok) < len(cands)) or (not consistent and not ok):
                tviol("T.T.get_matrix() differs from " + " and from ".join(nm for nm, _ in cands if nm not in ok), {"what": "T.T.get_matrix"})

# ----------------------------------------------------------------------------- wrapped (CUQIarray) parameter vectors

def _foreign_geom(spec):
    """A geometry of the same class and parameter shape as `spec` but with other settings (None: no such variant)."""
    import cuqi
    G = cuqi.geometry
    g = spec["g"]
    if g in ("image_C", "default2d"):
        return G.Image2D(tuple(spec["shape"]), order="F")
    if g == "image_F":
        return G.Image2D(tuple(spec["shape"]), order="C")
    if g == "image_visual":
        return G.Image2D((spec["shape"][0] * spec["shape"][1], 1), visual_only=False)
    if g == "cont2d":
        return G.Continuous2D((0.5 + 2.0 * np.arange(spec["shape"][0]), -1.0 + 0.25 * np.arange(spec["shape"][1])))
    if g in ("default", "cont1d"):
        return G.Continuous1D(3.0 + 0.5 * np.arange(spec["n"]))
    if g == "cont1d_grid":
        return G.Continuous1D(spec["x0"] + 7.0 + 2 * spec["h"] * np.arange(spec["n"]))
    if g == "discrete":
        return G.Discrete(["q%d" % i for i in range(spec["n"])])
    if g == "discrete_names":
        return G.Discrete(spec["n"])
    if g == "step_eq":
        return G.StepExpansion(spec["x0"] + 7.0 + 2 * spec["h"] * np.arange(spec["n"]), n_steps=spec["n"])
    return None

def wrapped_inputs(model, ctx, cfg, rs, res, dspec, rspec, label):
    """forward / adjoint of a parameter vector must not depend on how the vector is wrapped: plain ndarray, CUQIarray carrying the
    model's own geometry object, an equal geometry, a geometry of the same class with other settings, or the default geometry."""
    import cuqi
    CUQIarray = cuqi.array.CUQIarray
    Af, Aa = res["Af"], res["Aa"]
    if Af is None or Aa is None:
        return
    m, n = Af.shape
    sc = _scale(Af, Aa)
    J = _Judge(ctx, cfg, label)
    def wraps(spec, own):
        out = [("own", lambda v: CUQIarray(v, is_par=True, geometry=own)),
               ("default", lambda v: CUQIarray(v, is_par=True))]
        eq = _build_geom(spec)
        if isinstance(eq, cuqi.geometry.Geometry):
            out.append(("equal", lambda v: CUQIarray(v, is_par=True, geometry=eq)))
        fg = _foreign_geom(spec)
        if fg is not None:
            out.append(("foreign", lambda v: CUQIarray(v, is_par=True, geometry=fg)))
        return out
    wx_all, wy_all = wraps(dspec, model.domain_geometry), wraps(rspec, model.range_geometry)
    for wname, wx in wx_all:
        x = rs.standard_normal(n)
        k, v = _apply(model.forward, wx(x), m)
        ctx.count("wrapped_inputs_compared")
        if k != "value" or not J.same(v, Af @ x, sc * np.abs(x).sum()):
            J.viol("wrapped_input_mismatch", f"forward(CUQIarray(x, geometry={wname})) differs from forward(x) for the same parameter vector "
                   f"({k}{'' if k != 'value' else ', max diff %.3g' % _maxdiff(v, Af @ x)})", {"op": "forward", "wrap": wname})
    for wname, wy in wy_all:
        y = rs.standard_normal(m)
        k, v = _apply(model.adjoint, wy(y), n)
        ctx.count("wrapped_inputs_compared")
        if k != "value" or not J.same(v, Aa @ y, sc * np.abs(y).sum()):
            J.viol("wrapped_input_mismatch", f"adjoint(CUQIarray(y, geometry={wname})) differs from adjoint(y) for the same parameter vector "
                   f"({k}{'' if k != 'value' else ', max diff %.3g' % _maxdiff(v, Aa @ y)})", {"op": "adjoint", "wrap": wname})
    if res["adj_ok"]:
        for (wnx, wx), (wny, wy) in zip(wx_all[::-1], wy_all):
            x, y = rs.standard_normal(n), rs.standard_normal(m)
            k1, Ax = _apply(model.forward, wx(x), m)
            k2, Aty = _apply(model.adjoint, wy(y), n)
            if k1 == "value" and k2 == "value":
                ctx.count("inner_products_checked")
                lhs, rhs = float(Ax @ y), float(x @ Aty)
                if not abs(lhs - rhs) <= 1e-9 * np.linalg.norm(Af) * np.linalg.norm(x) * np.linalg.norm(y) + 1e-300:
                    J.viol("adjoint_mismatch", f"<A x, y> = {lhs:.12g} but <x, A* y> = {rhs:.12g} with x wrapped as CUQIarray({wnx}) and y as CUQIarray({wny})",
                           {"form": "wrapped_inputs"})

# ----------------------------------------------------------------------------- Samples (batches of parameter vectors) and array variants

def samples_inputs(model, ctx, cfg, rs, res, label, ref=None):
    """forward / adjoint / T.forward / T.adjoint of a cuqi.samples.Samples object must act on every sample as the single-vector
    call does (column i of the result == forward(x_i) == A_f x_i), whatever geometry the Samples object carries; the inner-product
    identity must hold on the sample columns.  Also: read-only, non-contiguous views as inputs, and inputs left unchanged."""
    import cuqi
    Samples = cuqi.samples.Samples
    Af, Aa = res["Af"], res["Aa"]
    if Af is None or Aa is None:
        return
    m, n = Af.shape
    sc = _scale(Af, Aa)
    J = _Judge(ctx, cfg, label)
    kT, T = core.outcome(lambda: model.T)
    ops = [("forward", model.forward, model.domain_geometry, Af, n, m), ("adjoint", model.adjoint, model.range_geometry, Aa, m, n)]
    if kT == "value":
        ops += [("T.forward", T.forward, model.range_geometry, Aa, m, n), ("T.adjoint", T.adjoint, model.domain_geometry, Af, n, m)]
    outs = {}
    for opname, fn, geom, Mref, nin, nout in ops:
        for Ns in (1, 2, 5):
            for gname, g in (("model", geom), ("default", None)):
                X = rs.standard_normal((nin, Ns))
                X0 = X.copy()
                k, out = core.outcome(lambda: fn(Samples(X, geometry=g) if g is not None else Samples(X)))
                ctx.count("samples_calls_compared")
                extra = {"op": opname, "Ns": Ns, "samples_geometry": gname}
                if k != "value":
                    J.viol("samples_input_mismatch", f"{opname}(Samples of {Ns}) {k}: {out!r}", extra)
                    continue
                V = np.asarray(getattr(out, "samples", out), dtype=float)
                if V.shape != (nout, Ns):
                    J.viol("samples_input_mismatch", f"{opname}(Samples of {Ns}) has shape {V.shape}, expected {(nout, Ns)}", extra)
                    continue
                want = Mref @ X0
                # (T of a model with a user-map geometry applies the map twice - known finding - so there T is only held
                #  against its own single-vector calls)
                t_known_wrong = opname.startswith("T.") and not (cfg.get("dom_class") in ("identity", "reshape") and cfg.get("ran_class") in ("identity", "reshape"))
                bad = [] if t_known_wrong else [i for i in range(Ns) if not J.same(V[:, i], want[:, i], sc * np.abs(X0[:, i]).sum())]
                single_bad = []
                for i in range(Ns):
                    k1, v1 = _apply(fn, X0[:, i].copy(), nout)
                    if k1 != "value" or not J.same(V[:, i], v1, sc * np.abs(X0[:, i]).sum()):
                        single_bad.append(i)
                ctx.count("samples_columns_compared", Ns)
                if bad or single_bad:
                    i = (bad or single_bad)[0]
                    J.viol("samples_input_mismatch", f"{opname}(Samples of {Ns})[:, {i}] differs from {opname}(x_{i}) "
                           f"(max diff {_maxdiff(V[:, i], want[:, i]):.3g}, scale {sc:.3g}); columns off vs matrix {bad}, vs single call {single_bad}", extra)
                if not np.array_equal(X, X0):
                    J.viol("input_modified", f"{opname} changed the sample array passed to it", extra)
                outs[(opname, Ns, gname)] = (X0, V)
    # inner products on the sample columns
    if res["adj_ok"]:
        for Ns in (2, 5):
            a, b = outs.get(("forward", Ns, "model")), outs.get(("adjoint", Ns, "default"))
            if a and b:
                (X, AX), (Y, AtY) = a, b
                for i in range(Ns):
                    ctx.count("inner_products_checked")
                    lhs, rhs = float(AX[:, i] @ Y[:, i]), float(X[:, i] @ AtY[:, i])
                    if not abs(lhs - rhs) <= 1e-9 * np.linalg.norm(Af) * np.linalg.norm(X[:, i]) * np.linalg.norm(Y[:, i]) + 1e-300:
                        J.viol("adjoint_mismatch", f"sample column {i}: <A x_i, y_i> = {lhs:.12g} but <x_i, A* y_i> = {rhs:.12g} (Samples inputs)", {"form": "samples_inputs"})
    # read-only, strided views
    for opname, fn, geom, Mref, nin, nout in ops[:2]:
        big = rs.standard_normal(2 * nin)
        v = big[::2]
        v.setflags(write=False)
        keep = v.copy()
        k, out = core.outcome(lambda: fn(v))
        ctx.count("array_variants_compared")
        if k != "value":
            J.viol("array_variant_mismatch", f"{opname}(read-only strided view) {k}: {out!r}", {"op": opname})
        else:
            out = _flat_out(out, nout)
            if out.shape != (nout,) or not J.same(out, Mref @ keep, sc * np.abs(keep).sum()):
                J.viol("array_variant_mismatch", f"{opname}(read-only strided view) differs from {opname} of the same values", {"op": opname})
        if not np.array_equal(v, keep):
            J.viol("input_modified", f"{opname} changed its input vector", {"op": opname})

# ----------------------------------------------------------------------------- recorded callables

class _Recorder:
    def __init__(self):
        self.fwd = 0
        self.adj = 0
        self.bad_inputs = []
    def snapshot(self):
        return (self.fwd, self.adj)
    def delta(self, snap):
        return {"fwd": self.fwd - snap[0], "adj": self.adj - snap[1]}

def _make_pair(M, dom_shape, ran_shape, rec):
    """User callables acting on *function values* (whatever shape the geometry hands over); they are an exact
    adjoint pair for the Frobenius inner product of function space."""
    nd, nr = int(np.prod(dom_shape)), int(np.prod(ran_shape))
    def forward(x):
        rec.fwd += 1
        x = np.asarray(x, dtype=float)
        if x.size != nd:
            raise ValueError(f"user forward: got {x.shape}, expects {dom_shape}")
        if x.shape != tuple(dom_shape):
            rec.bad_inputs.append(("fwd", x.shape))
        return np.asarray(M @ x.reshape(-1)).reshape(ran_shape)
    def adjoint(y):
        rec.adj += 1
        y = np.asarray(y, dtype=float)
        if y.size != nr:
            raise ValueError(f"user adjoint: got {y.shape}, expects {ran_shape}")
        if y.shape != tuple(ran_shape):
            rec.bad_inputs.append(("adj", y.shape))
        return np.asarray(M.T @ y.reshape(-1)).reshape(dom_shape)
    return forward, adjoint

# ----------------------------------------------------------------------------- run_case

def run_case(case, ctx):
    kind = case["kind"]
    rs = core.np_rng(ctx.seed, PROPERTY, core.canon(case))
    cfg = _cfg(case)
    MAX_REL_PASSED[0] = 0.0
    fn = {"matrix": _run_matrix, "func": _run_func, "funcview": _run_funcview, "deconv1d": _run_deconv1d, "deconv2d": _run_deconv2d}.get(kind, _run_field_problem)
    try:
        fn(case, ctx, cfg, rs)
    finally:
        ctx.note("max_rel_diff_among_passed_comparisons", MAX_REL_PASSED[0])

SCALES = [0, -20, 0, -16, 8, 0, -12, "mixed", 0, -8, 16, "mixed_tiny"]     # powers of ten applied to the operator (0 = O(1) entries)

def _apply_scale(M, scale, rs):
    """Operators in extreme-but-legal units: overall factor 10^k, or a dynamic range of 18 decades inside one matrix."""
    if scale in (0, None):
        return M
    if scale == "mixed":
        return M * 10.0 ** rs.uniform(-18, 0, size=M.shape)
    if scale == "mixed_tiny":
        return M * 10.0 ** rs.uniform(-30, -12, size=M.shape)
    return M * 10.0 ** int(scale)

def _rand_matrix(rs, m, n, kind="dense"):
    M = rs.standard_normal((m, n))
    if kind == "sparse":
        M = M * (rs.uniform(size=(m, n)) < 0.4)
    M += 0.05 * np.sign(M + 1e-300) * (np.abs(M) < 0.05) * (M != 0)   # keep entries well away from 0 / round-off
    return M

def _must_work(cfg):
    return cfg["dom_class"] in MUST_WORK and cfg["ran_class"] in MUST_WORK and not cfg.get("flat")

def _run_matrix(case, ctx, cfg, rs):
    import cuqi, scipy.sparse as sp
    dspec, rspec = case["dom"], case["ran"]
    dshape, rshape = _fun_shape(dspec), _fun_shape(rspec)
    two_d = len(dshape) == 2 and len(rshape) == 2 and not case.get("flat")
    if two_d:
        M = _rand_matrix(rs, rshape[0], dshape[0])
    else:
        M = _rand_matrix(rs, int(np.prod(rshape)), int(np.prod(dshape)))
    if case["backing"] == "dense_int":
        M = np.round(3 * M)
        M[M == 0] = 1.0
        if isinstance(case.get("scale"), int) and case["scale"] > 0:
            M = M * 10.0 ** min(case["scale"], 8)
    else:
        M = _apply_scale(M, case.get("scale"), rs)
    A = {"dense": lambda: M.copy(), "csc": lambda: sp.csc_matrix(M), "csr": lambda: sp.csr_matrix(M), "coo": lambda: sp.coo_matrix(M),
         "lil": lambda: sp.lil_matrix(M), "dense_F": lambda: np.asfortranarray(M), "dense_int": lambda: M.astype(int)}[case["backing"]]()
    kb, built = core.outcome(lambda: cuqi.model.LinearModel(A, range_geometry=_build_geom(rspec, True), domain_geometry=_build_geom(dspec, True)))
    if kb != "value":
        ctx.refused("construct", built) if kb == "refused" else ctx.violation("crash", {**cfg, "op": "construct"}, detail=repr(built))
        return
    ctx.count("models_built")
    must = _must_work(cfg) and (not two_d)     # a matrix acting on image columns is the library's own convention: judged, but refusals are accepted
    r0 = examine(built, ctx, cfg, rs, label="matrix-backed", must_work=must, t_order=case["t_order"],
            expect_dims=(_par_dim(dspec), _par_dim(rspec)), exact=True,
            doc=make_doc(built, lambda f: A @ f, lambda f: A.T @ f, raw=_dense(A)))
    if must:
        wrapped_inputs(built, ctx, cfg, rs, r0, dspec, rspec, "matrix-backed")
        samples_inputs(built, ctx, cfg, rs, r0, "matrix-backed")
    # the matrix handed over must not have been modified
    ctx.count("input_matrix_unchanged_checked")
    if not np.array_equal(_dense(A), M):
        ctx.violation("input_matrix_modified", cfg, detail="the matrix passed to LinearModel was changed by forward/adjoint/get_matrix/T")

def _run_func(case, ctx, cfg, rs):
    import cuqi
    dspec, rspec = case["dom"], case["ran"]
    dshape, rshape = _fun_shape(dspec), _fun_shape(rspec)
    nd, nr = int(np.prod(dshape)), int(np.prod(rshape))
    op = case["op"]
    if op == "symmetric_square" and nd == nr:
        B = _rand_matrix(rs, nd, nd)
        M = B + B.T
    else:
        M = _rand_matrix(rs, nr, nd, "sparse" if op == "sparse" else "dense")
    M = _apply_scale(M, case.get("scale"), rs)
    rec = _Recorder()
    fwd, adj = _make_pair(M, dshape, rshape, rec)
    kb, model = core.outcome(lambda: cuqi.model.LinearModel(fwd, adj, range_geometry=_build_geom(rspec), domain_geometry=_build_geom(dspec)))
    if kb != "value":
        ctx.refused("construct", model) if kb == "refused" else ctx.violation("crash", {**cfg, "op": "construct"}, detail=repr(model))
        return
    ctx.count("models_built")
    # a sibling model with another operator and the same dimensions, observed in the same process: a matrix cached
    # anywhere but on the instance would leak from one into the other
    M2 = _apply_scale(_rand_matrix(rs, nr, nd), case.get("scale"), rs)
    rec2 = _Recorder()
    f2, a2 = _make_pair(M2, dshape, rshape, rec2)
    sib = cuqi.model.LinearModel(f2, a2, range_geometry=_build_geom(rspec), domain_geometry=_build_geom(dspec))
    must = _must_work(cfg)
    uf, ua = _make_pair(M, dshape, rshape, _Recorder())
    uf2, ua2 = _make_pair(M2, dshape, rshape, _Recorder())
    r1 = examine(model, ctx, cfg, rs, label="function-backed", must_work=must, t_order=case["t_order"], rec=rec,
                 expect_dims=(_par_dim(dspec), _par_dim(rspec)), doc=make_doc(model, uf, ua), exact=True)
    r2 = examine(sib, ctx, cfg, rs, label="function-backed sibling", must_work=must, t_order="after", rec=rec2, nvec=1, depth=1,
                 doc=make_doc(sib, uf2, ua2), exact=True)
    # for identity-like and reshaping geometries the parameter-space matrix is known exactly from the user operator
    if must and r1["Af"] is not None:
        ref = L.param_matrix(M, dspec, rspec)
        ctx.count("forward_vs_user_operator_compared", ref.shape[1])
        if r1["Af"].shape != ref.shape or not _exact_close(ctx, r1["Af"], ref):
            ctx.violation("forward_geometry_mismatch", cfg, detail=f"forward(e_i) is not the user operator conjugated with the documented "
                          f"vector<->image reshaping (order of Image2D): max diff {_maxdiff(r1['Af'], ref) if r1['Af'].shape == ref.shape else 'shape'}")
    if must and r1["Aa"] is not None:
        ref = L.param_matrix(M, dspec, rspec).T
        ctx.count("adjoint_vs_user_operator_compared", ref.shape[1])
        if r1["Aa"].shape != ref.shape or not _exact_close(ctx, r1["Aa"], ref):
            ctx.violation("adjoint_geometry_mismatch", cfg, detail="adjoint(e_j) is not the transpose of the user operator conjugated with the documented reshaping")
    # the matrix representation after the model was given another domain geometry (public attribute, re-assigned in the
    # library's own tests): must still reproduce forward column by column
    if must and r1["G"] is not None and r1["G_ok"] and dspec["g"] in ("image_C", "image_F"):
        import cuqi
        other = "F" if dspec["g"] == "image_C" else "C"
        model.domain_geometry = cuqi.geometry.Image2D(tuple(dspec["shape"]), order=other)
        F2 = _columns(model.forward, _par_dim(dspec), _par_dim(rspec))
        kG, G2 = core.outcome(lambda: _dense(model.get_matrix()))
        if F2.status == "value" and kG == "value":
            ctx.count("matrix_after_regeometry_compared", F2.mat.shape[1])
            if G2.shape != F2.mat.shape or not _exact_close(ctx, G2, F2.mat):
                ctx.violation("matrix_mismatch", {**cfg, "what": "stale_after_geometry_change"},
                              detail=f"after model.domain_geometry = Image2D(order={other!r}) forward(e_i) changed but get_matrix() still returns the matrix "
                                     f"cached under the previous geometry (max diff {_maxdiff(G2, F2.mat):.3g})")
    if must:
        # (uses a fresh model: the geometry of `model` may just have been re-assigned above)
        fw, aw = _make_pair(M, dshape, rshape, _Recorder())
        mw = cuqi.model.LinearModel(fw, aw, range_geometry=_build_geom(rspec), domain_geometry=_build_geom(dspec))
        wrapped_inputs(mw, ctx, cfg, rs, r1, dspec, rspec, "function-backed")
        samples_inputs(mw, ctx, cfg, rs, r1, "function-backed")
    if rec.bad_inputs and must:
        ctx.violation("callable_input_shape", cfg, detail=f"user callables received inputs that are not function values of the geometry: {rec.bad_inputs[:3]}")
    ctx.note("user_calls", {"fwd": rec.fwd, "adj": rec.adj})

def _run_funcview(case, ctx, cfg, rs):
    """Selection operators written the way users write them: the callables return views of their argument."""
    import cuqi
    dspec, view = case["dom"], case["view"]
    dshape = _fun_shape(dspec)
    nd = int(np.prod(dshape))
    rspec = dict(dspec)
    if view == "identity":
        idx = np.arange(nd); fwd = lambda x: x
        def adj(y): return y
    elif view == "reverse":
        idx = np.arange(nd)[::-1]; fwd = lambda x: x[::-1]
        def adj(y): return y[::-1]
    elif view == "downsample":
        idx = np.arange(nd)[::2]; fwd = lambda x: x[::2]
        def adj(y):
            z = np.zeros(nd); z[::2] = y
            return z
    elif view == "window":
        a = 1 + int(rs.randint(0, 2)); b = nd - 1
        idx = np.arange(nd)[a:b]; fwd = lambda x: x[a:b]
        def adj(y):
            z = np.zeros(nd); z[a:b] = y
            return z
    elif view in ("convolve1d", "roll", "flip", "cumsum_last"):
        # written for one vector, but shape preserving (and wrong along the last axis) if handed a whole (n, Ns) array
        from scipy.ndimage import convolve1d
        idx = None
        if view == "convolve1d":
            w = rs.uniform(0.1, 1.0, 3)
            fwd = lambda x: convolve1d(x, w, mode="wrap")
            def adj(y): return convolve1d(y, w[::-1], mode="wrap")
        elif view == "roll":
            sh = 1 + int(rs.randint(0, 2))
            fwd = lambda x: np.roll(x, sh)
            def adj(y): return np.roll(y, -sh)
        elif view == "flip":
            fwd = lambda x: np.flip(x)
            def adj(y): return np.flip(y)
        else:
            fwd = lambda x: np.cumsum(x, axis=-1)
            def adj(y): return np.flip(np.cumsum(np.flip(y), axis=-1))
    elif view == "image_identity":
        idx = np.arange(nd); fwd = lambda X: X
        def adj(Y): return Y
    else:  # image_transpose
        idx = np.arange(nd).reshape(dshape).T.reshape(-1); fwd = lambda X: X.T
        def adj(Y): return Y.T
        rspec["shape"] = [dshape[1], dshape[0]]
    if idx is None:
        M = np.column_stack([np.array(fwd(e), dtype=float) for e in np.eye(nd)])   # the user's own operator on unit vectors
        Mt = np.column_stack([np.array(adj(e), dtype=float) for e in np.eye(nd)])
        if not np.allclose(Mt, M.T, atol=1e-12):
            ctx.inconclusive("harness: the per-vector callables are not an adjoint pair")
            return
    else:
        if len(dshape) == 1 and len(idx) != nd:
            if dspec["g"] == "image_visual":
                rspec["shape"] = [len(idx), 1]
            else:
                rspec["n"] = len(idx)
        M = np.zeros((len(idx), nd)); M[np.arange(len(idx)), idx] = 1.0      # selection in C-flattened function space
    kb, model = core.outcome(lambda: cuqi.model.LinearModel(fwd, adj, range_geometry=_build_geom(rspec), domain_geometry=_build_geom(dspec)))
    if kb != "value":
        ctx.refused("construct", model) if kb == "refused" else ctx.violation("crash", {**cfg, "op": "construct"}, detail=repr(model))
        return
    ctx.count("models_built")
    r1 = examine(model, ctx, cfg, rs, label="view-returning callables", must_work=True, t_order=case["t_order"], nvec=2,
                 expect_dims=(_par_dim(dspec), _par_dim(rspec)), exact=True)
    ref = L.param_matrix(M, dspec, rspec)
    for nm, got, want in (("forward", r1["Af"], ref), ("adjoint", r1["Aa"], ref.T), ("get_matrix", r1["G"], ref)):
        if got is not None:
            ctx.count("forward_vs_user_operator_compared", want.shape[1])
            if got.shape != want.shape or not _exact_close(ctx, got, want):
                ctx.violation("forward_geometry_mismatch" if nm != "get_matrix" else "matrix_mismatch", {**cfg, "what": "selection_" + nm},
                              detail=f"{nm} of the per-vector operator '{view}' is not the operator's own matrix (nonzeros {int(np.count_nonzero(got))} vs {int(np.count_nonzero(want))})")
    # Samples / array variants on a fresh model (get_matrix() not cached: the callables themselves are used)
    kb, fresh = core.outcome(lambda: cuqi.model.LinearModel(fwd, adj, range_geometry=_build_geom(rspec), domain_geometry=_build_geom(dspec)))
    if kb == "value":
        samples_inputs(fresh, ctx, cfg, rs, r1, "view-returning callables")

# ----------------------------------------------------------------------------- test problems

def _psf_size(rel, dim, r):
    if rel == "odd_lt":
        return 2 * r.randint(1, max(2, (dim - 1) // 2)) + 1 if dim > 3 else 3
    if rel == "even_lt":
        return 2 * r.randint(1, max(2, dim // 2)) if dim > 3 else 2
    if rel == "eq_dim":
        return dim
    if rel == "gt_dim":
        return dim + r.randint(1, 5)
    return None

def _run_deconv1d(case, ctx, cfg, rs):
    import cuqi
    from scipy.ndimage import convolve1d
    dim, psf, bc = case["dim"], case["psf"], case["bc"]
    size = _psf_size(case["rel"], dim, rs)
    if size is not None:
        size = min(size, dim - 1) if case["rel"] in ("odd_lt", "even_lt") else size
    kw = dict(dim=dim, BC=bc, phantom=np.linspace(0, 1, dim), use_legacy=case["legacy"])
    P = None
    if psf.startswith("custom"):
        n = dim if (case["legacy"] or size is None) else size
        P = rs.uniform(0.1, 1.0, n)
        if psf == "custom_sym":
            P = P + P[::-1]
        P = P * 10.0 ** case.get("pscale", 0)
        kw["PSF"] = P
    else:
        kw["PSF"] = psf
        kw["PSF_param"] = case["param"]
        if size is not None:
            kw["PSF_size"] = size
    cfg = {**cfg, "psf_parity": "none" if size is None and P is None else ("even" if (len(P) if P is not None else size) % 2 == 0 else "odd")}
    kb, tp = core.outcome(lambda: cuqi.testproblem.Deconvolution1D(**kw))
    if kb != "value":
        ctx.refused("construct", tp) if kb == "refused" else ctx.violation("crash", {**cfg, "op": "construct"}, detail=repr(tp))
        return
    ctx.count("models_built")
    res = examine(tp.model, ctx, cfg, rs, label="Deconvolution1D.model", must_work=True, t_order="after", expect_dims=(dim, dim))
    # matrix assembly: the columns must be the documented scipy.ndimage.convolve1d of the unit vectors
    if not case["legacy"] and res["Af"] is not None:
        if P is None:
            from cuqi.testproblem import _testproblem as TPM
            gen = {"gauss": TPM._GaussPSF_1D, "moffat": TPM._MoffatPSF_1D, "defocus": TPM._DefocusPSF_1D}[psf]
            kp, Pc = core.outcome(lambda: gen(size if size is not None else dim, case["param"])[0])
            Pk = np.asarray(Pc, dtype=float) if kp == "value" else None
        else:
            Pk = P
        if Pk is not None and np.all(np.isfinite(Pk)):
            mode = {"zero": "constant", "periodic": "wrap", "mirror": "mirror", "reflect": "reflect", "nearest": "nearest"}[bc.lower()]
            ref = np.column_stack([convolve1d(e, Pk, mode=mode) for e in np.eye(dim)])
            ctx.count("conv1d_columns_compared", dim)
            if not ctx.close(res["Af"], ref, rtol=RTOL, atol=0.0):
                ctx.violation("conv1d_matrix_mismatch", cfg, detail=f"dim={dim} PSF size {len(Pk)}: forward(e_i) is not convolve1d(e_i, PSF, mode={mode}); "
                              f"max diff {_maxdiff(res['Af'], ref):.3g}; equals the transposed convolution: {bool(np.allclose(res['Af'], ref.T))}")

def _custom_psf2(kind, size, rs):
    P = rs.uniform(0.1, 1.0, (size, size))
    if kind == "custom_centro":
        P = P + P[::-1, ::-1]
    elif kind == "custom_axis":
        P = P + P[::-1, :]
        P = P + P[:, ::-1]
    return P / P.sum()

def _run_deconv2d(case, ctx, cfg, rs):
    import cuqi
    dim, psf, bc, rel = case["dim"], case["psf"], case["bc"], case["rel"]
    if rel == "one":
        size = 1
    elif rel == "odd_lt":
        size = 2 * rs.randint(1, max(2, (dim + 1) // 2)) + 1
    elif rel == "even_lt":
        size = 2 * rs.randint(1, max(2, dim // 2 + 1))
    elif rel == "odd_big":
        size = 2 * rs.randint(dim // 2 + 1, dim + 1) + 1
    else:
        size = 2 * rs.randint(dim // 2 + 1, dim + 1)
    kw = dict(dim=dim, BC=bc, phantom=rs.uniform(size=(dim, dim)))
    if psf.startswith("custom"):
        kw["PSF"] = _custom_psf2(psf, size, rs) * 10.0 ** case.get("pscale", 0)
    else:
        kw.update(PSF=psf, PSF_size=size, PSF_param=case["param"])
    kb, tp = core.outcome(lambda: cuqi.testproblem.Deconvolution2D(**kw))
    if kb != "value":
        ctx.refused("construct", tp) if kb == "refused" else ctx.violation("crash", {**cfg, "op": "construct"}, detail=repr(tp))
        return
    P = np.asarray(tp.Miscellaneous["PSF"], dtype=float)
    if not np.all(np.isfinite(P)) or P.sum() == 0:
        ctx.count("degenerate_psf_skipped")      # e.g. defocus radius smaller than one pixel: 0/0 (C17's business)
        return
    ctx.count("models_built")
    pad = size // 2
    Pn = P / np.abs(P).max()
    sym = "axis" if (np.allclose(Pn, Pn[::-1, :]) and np.allclose(Pn, Pn[:, ::-1])) else ("centro" if np.allclose(Pn, Pn[::-1, ::-1]) else "none")
    cfg = {**cfg, "psf_parity": "even" if size % 2 == 0 else "odd", "psf_sym": sym, "pad": "0" if pad == 0 else ("1" if pad == 1 else "2+")}
    ctx.note("psf_size", size)
    def classify(F, A):
        """'flipped_psf_forward' when the adjoint is exactly the forward operator of the same problem with the PSF rotated by 180
        degrees (the documented construction of _proj_backward_2D)."""
        kw2 = dict(dim=dim, BC=bc, phantom=kw["phantom"], PSF=np.ascontiguousarray(P[::-1, ::-1]))
        k2, tp2 = core.outcome(lambda: cuqi.testproblem.Deconvolution2D(**kw2))
        if k2 != "value":
            return "other"
        return "flipped_psf_forward" if _obs_equal(A, _columns(tp2.model.forward, dim * dim, dim * dim)) else "other"
    examine(tp.model, ctx, cfg, rs, label="Deconvolution2D.model", must_work=True, t_order=case["t_order"], nvec=2,
            expect_dims=(dim * dim, dim * dim), classify_adjoint=classify)

def _run_field_problem(case, ctx, cfg, rs):
    import cuqi
    G = cuqi.geometry
    kind, dim = case["kind"], case["dim"]
    if kind == "deblur_old":
        kb, tp = core.outcome(lambda: cuqi.testproblem._Deblur(dim=dim, blur_size=case["blur"]))
        if kb != "value":
            ctx.refused("construct", tp) if kb == "refused" else ctx.violation("crash", {**cfg, "op": "construct"}, detail=repr(tp))
            return
        ctx.count("models_built")
        examine(tp.model, ctx, cfg, rs, label="_Deblur.model", must_work=True, expect_dims=(dim, dim))
        return
    f = case["field"]
    endpoint = case.get("endpoint", 1)
    grid = np.linspace(0, endpoint, dim)
    kw = {}
    par_dim = dim
    klass = "identity"
    if f == "KL":
        kw = dict(field_type="KL"); klass = "expansion"
    elif f == "KL_trunc":
        par_dim = max(1, dim // 3)
        kw = dict(field_type="KL", field_params={"num_modes": par_dim, "decay_rate": 1.5}); klass = "expansion"
    elif f == "Step":
        par_dim = 3
        kw = dict(field_type="Step"); klass = "expansion"
    elif f == "Step_eq":
        kw = dict(field_type="Step", field_params={"n_steps": dim})
    elif f == "CustomKL":
        par_dim = int(dim * 0.2)
        kw = dict(field_type="CustomKL"); klass = "noinv"
    elif f == "geom_cont1d":
        kw = dict(field_type=G.Continuous1D(grid))
    elif f == "geom_discrete":
        kw = dict(field_type=G.Discrete(dim))
    elif f == "KL_map_scale":
        kw = dict(KL_map=lambda v: 2.0 * v, KL_imap=lambda v: v / 2.0); klass = "expansion"
    elif f == "KL_map_flip":
        kw = dict(KL_map=lambda v: v[::-1], KL_imap=lambda v: v[::-1]); klass = "orth"
    elif f == "KL_map_noimap":
        kw = dict(KL_map=lambda v: 2.0 * v); klass = "noinv"
    if kind == "deconv_1d_old":
        if f in ("KL_trunc", "Step_eq"):
            # _Deconv_1D passes field_params positionally / ignores it: only the plain options are part of its interface
            ctx.count("option_not_offered")
            return
        ctor = cuqi.testproblem._Deconv_1D
        name = "_Deconv_1D.model"
        if f == "CustomKL":
            par_dim = None
    else:
        ctor = cuqi.testproblem.Abel1D
        name = "Abel1D.model"
        kw["endpoint"] = endpoint
    cfg = {**cfg, "dom_class": klass}
    kb, tp = core.outcome(lambda: ctor(dim=dim, **kw))
    if kb != "value":
        # the test problem itself could not be set up with this field type (e.g. it evaluates fun2par of a geometry without one)
        if kb == "refused":
            ctx.refused("construct", tp); ctx.count("refusals_observed")
        else:
            ctx.violation("crash", {**cfg, "op": "construct"}, detail=repr(tp))
        return
    ctx.count("models_built")
    kA, Araw = core.outcome(lambda: tp.model.get_matrix())
    doc = None
    if kA == "value" and getattr(Araw, "shape", None) == (dim, dim):
        doc = make_doc(tp.model, lambda f: Araw @ f, lambda f: Araw.T @ f, raw=_dense(Araw))
    examine(tp.model, ctx, cfg, rs, label=name, must_work=klass in MUST_WORK,
            expect_dims=None if par_dim is None else (par_dim, dim), doc=doc)

# ----------------------------------------------------------------------------- self test of the reference

def selftest(ctx):
    rs = np.random.RandomState(0)
    # reshaping reference: vec_C / vec_F permutations agree with numpy ravel
    for shape in ((2, 3), (4, 2), (3, 3)):
        for g in ("image_C", "image_F", "cont2d", "default2d"):
            spec = {"g": g, "shape": list(shape)}
            E = L.par2fun_matrix(spec)
            x = rs.standard_normal(shape[0] * shape[1])
            order = "F" if g == "image_F" else "C"
            if not np.allclose((E @ x).reshape(shape), x.reshape(shape, order=order)):
                ctx.inconclusive(f"reference reshaping wrong for {g} {shape}")
            if not np.allclose(E.T @ E, np.eye(E.shape[1])):
                ctx.inconclusive(f"reference reshaping not orthogonal for {g} {shape}")
    M = rs.standard_normal((6, 4))
    P = L.param_matrix(M, {"g": "image_F", "shape": [2, 2]}, {"g": "image_C", "shape": [2, 3]})
    X = rs.standard_normal((2, 2))
    want = (M @ X.reshape(-1)).reshape(2, 3).ravel(order="C")
    if not np.allclose(P @ X.ravel(order="F"), want):
        ctx.inconclusive("reference param_matrix wrong")
