"""Reference model for C08: leapfrog + the Hoffman-Gelman (2014) Algorithm-3 tree ("efficient NUTS")
as a pure function of a trajectory.  Written from the paper; never imports cuqi.

Conventions
* the orbit of (x0, r0, eps) is indexed by integers: 0 is the starting phase point, +k / -k are k leapfrog
  steps forward / backward in time (backward = step size -eps with the same momentum);
* a *leaf source* supplies the phase point next to an end of the current interval.  `OrbitSource`
  integrates with the reference leapfrog (memoised by index); `TraceSource` walks over the leaf
  evaluations that were *observed* from the implementation and refuses (raises) when an observed leaf is
  not the one-step leapfrog image of its predecessor;
* `build` returns for a sub-tree: both ends, n' (leaves in the slice), s' (continue flag), the sums for the
  acceptance statistic, the exact conditional law of the sub-tree's proposal theta' (dict index -> prob),
  and - when a uniform stream is supplied - the proposal selected by that stream consumed in the order of
  the paper's pseudo code (sub-sampling draw after both halves were built).
"""
import math
import numpy as np

DELTA_MAX = 1000.0


class TraceEnded(Exception):
    """The observed leaf sequence ended although the reference tree needs another leaf."""


class OffOrbit(Exception):
    """An observed leaf is not the leapfrog image of its predecessor."""
    def __init__(self, msg, info=None):
        super().__init__(msg)
        self.info = info or {}


class UniformsExhausted(Exception):
    pass


def kinetic(r):
    with np.errstate(all="ignore"):
        return 0.5 * float(np.dot(r, r))


def leapfrog(x, r, g, h, fg):
    """One leapfrog step of signed size h: half step in r, full step in x, half step in r."""
    with np.errstate(all="ignore"):
        r2 = r + 0.5 * h * g
        x2 = x + h * r2
        l2, g2 = fg(x2)
        g2 = np.asarray(g2, dtype=float)
        r2 = r2 + 0.5 * h * g2
    return x2, r2, float(l2), g2


def same_point(a, b, rtol=1e-9, atol=0.0):
    """Tolerant equality of two points that treats non-finite entries strictly."""
    a = np.asarray(a, dtype=float); b = np.asarray(b, dtype=float)
    if a.shape != b.shape:
        return False
    fa, fb = np.isfinite(a), np.isfinite(b)
    if not np.array_equal(fa, fb):
        return False
    if not np.array_equal(a[~fa], b[~fb], equal_nan=True):
        return False
    if not fa.any():
        return True
    scale = max(float(np.max(np.abs(a[fa]))), float(np.max(np.abs(b[fb]))))
    return bool(np.all(np.abs(a[fa] - b[fb]) <= atol + rtol * scale))


class OrbitSource:
    """Leaves from the reference integrator (memoised by orbit index)."""
    def __init__(self, fg, eps):
        self.fg, self.eps = fg, eps
        self.memo = {}
        self.n_leapfrog = 0

    def leaf(self, idx, x, r, g, v):
        key = idx + v
        if key not in self.memo:
            self.memo[key] = leapfrog(x, r, g, v * self.eps, self.fg)
            self.n_leapfrog += 1
        return self.memo[key]


class TraceSource:
    """Leaves from the observed evaluation trace [(x, logd, grad), ...] in the order of evaluation."""
    def __init__(self, observed, eps, rtol=1e-9):
        self.obs, self.eps, self.rtol = observed, eps, rtol
        self.pos = 0
        self.max_dev = 0.0

    def remaining(self):
        return len(self.obs) - self.pos

    def predict(self, x, r, g, v):
        h = v * self.eps
        with np.errstate(all="ignore"):
            rh = r + 0.5 * h * g
            return x + h * rh, rh

    def leaf(self, idx, x, r, g, v):
        if self.pos >= len(self.obs):
            raise TraceEnded(f"reference needs the leaf at orbit index {idx + v} but the observed trace has ended")
        xp, rh = self.predict(x, r, g, v)
        xo, lo, go = self.obs[self.pos]
        scale = max(float(np.max(np.abs(x))) if np.all(np.isfinite(x)) else 0.0,
                    float(np.max(np.abs(self.eps * rh))) if np.all(np.isfinite(rh)) else 0.0, 1e-300)
        if not same_point(xp, xo, rtol=0.0, atol=self.rtol * scale):
            raise OffOrbit(f"leaf #{self.pos} (orbit index {idx + v}) evaluated at {np.asarray(xo).tolist()} "
                           f"but the leapfrog image of its predecessor is {np.asarray(xp).tolist()}",
                           {"pos": self.pos, "idx": idx + v})
        with np.errstate(all="ignore"):
            fin = np.isfinite(xp) & np.isfinite(xo)
            if fin.any():
                self.max_dev = max(self.max_dev, float(np.max(np.abs(xp[fin] - xo[fin]))) / scale)
        self.pos += 1
        h = v * self.eps
        with np.errstate(all="ignore"):
            go = np.asarray(go, dtype=float)
            r2 = rh + 0.5 * h * go
        return np.asarray(xo, dtype=float), r2, float(lo), go


class Node:
    __slots__ = ("minus", "plus", "n", "s", "alpha", "n_alpha", "dist", "sel", "n_leaves")

    def __init__(self, minus, plus, n, s, alpha, n_alpha, dist, sel, n_leaves):
        self.minus, self.plus, self.n, self.s = minus, plus, n, s
        self.alpha, self.n_alpha, self.dist, self.sel, self.n_leaves = alpha, n_alpha, dist, sel, n_leaves


def _mix(d1, w1, d2, w2):
    out = {}
    if w1 > 0:
        for k, p in d1.items():
            out[k] = out.get(k, 0.0) + w1 * p
    if w2 > 0:
        for k, p in d2.items():
            out[k] = out.get(k, 0.0) + w2 * p
    return out


class Tree:
    """H&G Algorithm 3 over a leaf source."""
    def __init__(self, source, H0, log_u, uniforms=None):
        self.src, self.H0, self.log_u = source, float(H0), float(log_u)
        self.uniforms = uniforms          # callable -> next uniform, or None (no replay)
        self.leaves = []                  # records of every leaf built, in order
        self.min_margin = math.inf        # smallest relative margin of any slice / divergence / U-turn decision
        self.exact_ties = 0               # decisions that were exact ties (margin == 0)

    def _margin(self, m):
        if m == 0.0:
            self.exact_ties += 1
        elif m < self.min_margin:
            self.min_margin = m

    def _next_uniform(self):
        if self.uniforms is None:
            return None
        return self.uniforms()

    def uturn_ok(self, minus, plus):
        with np.errstate(all="ignore"):
            d = plus[1] - minus[1]
            a, b = float(np.dot(d, minus[2])), float(np.dot(d, plus[2]))
            nd = float(np.linalg.norm(d))
            for val, r in ((a, minus[2]), (b, plus[2])):
                den = nd * float(np.linalg.norm(r))
                if math.isfinite(val) and math.isfinite(den) and den > 0:
                    self._margin(abs(val) / den)
        return int(a >= 0) * int(b >= 0)

    def build(self, end, v, j):
        if j == 0:
            idx, x, r, g = end
            x2, r2, l2, g2 = self.src.leaf(idx, x, r, g, v)
            with np.errstate(all="ignore"):
                H = l2 - kinetic(r2)
                n = int(self.log_u <= H)
                s = int(self.log_u < DELTA_MAX + H)
                dH = H - self.H0
                if dH > 0:
                    alpha = 1.0
                else:
                    try:
                        alpha = math.exp(dH) if not math.isnan(dH) else math.nan
                    except OverflowError:
                        alpha = math.inf
            if math.isfinite(H):
                sc = 1.0 + abs(H) + abs(self.log_u)
                self._margin(abs(H - self.log_u) / sc)
                self._margin(abs(DELTA_MAX + H - self.log_u) / sc)
            new = (idx + v, x2, r2, g2)
            self.leaves.append({"idx": idx + v, "x": x2, "l": l2, "g": g2, "H": H, "n": n, "s": s, "alpha": alpha})
            return Node(new, new, n, s, alpha, 1, {idx + v: 1.0}, idx + v, 1)
        first = self.build(end, v, j - 1)
        if first.s != 1:
            return first
        end2 = first.minus if v == -1 else first.plus
        second = self.build(end2, v, j - 1)
        p2 = second.n / max(1, first.n + second.n)
        dist = _mix(first.dist, 1.0 - p2, second.dist, p2)
        u = self._next_uniform()
        sel = second.sel if (u is not None and u <= p2) else first.sel
        minus = second.minus if v == -1 else first.minus
        plus = first.plus if v == -1 else second.plus
        s = second.s * self.uturn_ok(minus, plus)
        return Node(minus, plus, first.n + second.n, s, first.alpha + second.alpha,
                    first.n_alpha + second.n_alpha, dist, sel, first.n_leaves + second.n_leaves)


class TopState:
    """State of the outer loop of Algorithm 3."""
    def __init__(self, x0, r0, g0):
        start = (0, np.asarray(x0, dtype=float), np.asarray(r0, dtype=float), np.asarray(g0, dtype=float))
        self.minus = self.plus = start
        self.j, self.s, self.n = 0, 1, 1
        self.dist = {0: 1.0}
        self.sel = 0
        self.doublings = []     # per doubling: dict(v, n, s_sub, s_after, alpha, n_alpha, n_leaves, accept_prob)

    def copy(self):
        c = TopState.__new__(TopState)
        c.minus, c.plus, c.j, c.s, c.n = self.minus, self.plus, self.j, self.s, self.n
        c.dist, c.sel, c.doublings = dict(self.dist), self.sel, list(self.doublings)
        return c


def doubling(tree, top, v, accept_uniform=None):
    """Perform one doubling of the outer loop in direction v (mutates `top`).
    accept_uniform: callable giving the top-level uniform (called only when s'=1), or None."""
    end = top.minus if v == -1 else top.plus
    node = tree.build(end, v, top.j)
    if v == -1:
        top.minus = node.minus
    else:
        top.plus = node.plus
    a = 0.0
    if node.s == 1:
        a = min(1.0, node.n / top.n)
        top.dist = _mix(top.dist, 1.0 - a, node.dist, a)
        if accept_uniform is not None:
            u = accept_uniform()
            if u is not None and u <= a:
                top.sel = node.sel
    top.n += node.n
    s_after = node.s * tree.uturn_ok(top.minus, top.plus)
    top.doublings.append({"v": v, "n": node.n, "s_sub": node.s, "s_after": s_after, "alpha": node.alpha,
                          "n_alpha": node.n_alpha, "n_leaves": node.n_leaves, "accept_prob": a, "depth": top.j})
    top.s = s_after
    top.j += 1
    return node


def exact_law(x0, r0, e, eps, max_depth, fg, p_plus=0.5):
    """Exact law of the state after one NUTS transition from x0 given the momentum r0 and the slice
    variable log u = H0 - e, obtained by enumerating all direction sequences.
    Returns (law: dict orbit index -> prob, orbit: dict index -> (x, r, logd, grad), info)."""
    x0 = np.asarray(x0, dtype=float); r0 = np.asarray(r0, dtype=float)
    l0, g0 = fg(x0)
    g0 = np.asarray(g0, dtype=float)
    H0 = float(l0) - kinetic(r0)
    log_u = H0 - e
    src = OrbitSource(fg, eps)
    src.memo[0] = (x0, r0, float(l0), g0)
    law = {}
    info = {"min_margin": math.inf, "sequences": 0, "max_leaves": 0, "exact_ties": 0, "stay_prob": 0.0,
            "unequal_weights": 0, "stopped_by_subtree": 0, "depth_hist": {}}

    def rec(top, w):
        if top.s != 1 or top.j > max_depth:
            info["sequences"] += 1
            nl = sum(d["n_leaves"] for d in top.doublings)
            info["max_leaves"] = max(info["max_leaves"], nl)
            info["depth_hist"][top.j] = info["depth_hist"].get(top.j, 0.0) + w
            for k, p in top.dist.items():
                if p > 0:
                    law[k] = law.get(k, 0.0) + w * p
            return
        for v, pv in ((1, p_plus), (-1, 1.0 - p_plus)):
            t2 = top.copy()
            tree = Tree(src, H0, log_u)
            node = doubling(tree, t2, v)
            info["min_margin"] = min(info["min_margin"], tree.min_margin)
            info["exact_ties"] += tree.exact_ties
            if node.s != 1:
                info["stopped_by_subtree"] += 1
            if 0 < node.n < node.n_leaves:
                info["unequal_weights"] += 1
            rec(t2, w * pv)

    rec(TopState(x0, r0, g0), 1.0)
    info["stay_prob"] = law.get(0, 0.0)
    return law, src.memo, info


def reference_transition(x0, fg, eps, max_depth, rs):
    """One transition of the reference sampler (used by the self-test only)."""
    x0 = np.asarray(x0, dtype=float)
    l0, g0 = fg(x0)
    r0 = rs.standard_normal(x0.size)
    H0 = float(l0) - kinetic(r0)
    log_u = H0 - rs.exponential(1.0)
    src = OrbitSource(fg, eps)
    src.memo[0] = (x0, r0, float(l0), np.asarray(g0, dtype=float))
    tree = Tree(src, H0, log_u, uniforms=rs.random_sample)
    top = TopState(x0, r0, g0)
    while top.s == 1 and top.j <= max_depth:
        v = 1 if rs.random_sample() < 0.5 else -1
        doubling(tree, top, v, accept_uniform=rs.random_sample)
    return src.memo[top.sel][0]


def reversibility_defect(x, r, fg, eps, L):
    """|| Phi^L(flip(Phi^L(x, r))) - flip(x, r) || / scale for the reference integrator."""
    x = np.asarray(x, dtype=float); r = np.asarray(r, dtype=float)
    xx, rr = x.copy(), r.copy()
    _, g = fg(xx)
    g = np.asarray(g, dtype=float)
    for _ in range(L):
        xx, rr, _, g = leapfrog(xx, rr, g, eps, fg)
    rr = -rr
    for _ in range(L):
        xx, rr, _, g = leapfrog(xx, rr, g, eps, fg)
    rr = -rr
    sc = max(1.0, float(np.max(np.abs(x))), float(np.max(np.abs(r))))
    return max(float(np.max(np.abs(xx - x))), float(np.max(np.abs(rr - r)))) / sc


def flow_jacobian_det(x, r, fg, eps, L, h=1e-5):
    """det of the Jacobian of the L-step leapfrog map at (x, r) by central differences."""
    x = np.asarray(x, dtype=float); r = np.asarray(r, dtype=float)
    d = x.size

    def flow(z):
        xx, rr = z[:d].copy(), z[d:].copy()
        _, g = fg(xx)
        g = np.asarray(g, dtype=float)
        for _ in range(L):
            xx, rr, _, g = leapfrog(xx, rr, g, eps, fg)
        return np.concatenate([xx, rr])

    z0 = np.concatenate([x, r])
    J = np.empty((2 * d, 2 * d))
    for i in range(2 * d):
        dz = np.zeros(2 * d); dz[i] = h * max(1.0, abs(z0[i]))
        J[:, i] = (flow(z0 + dz) - flow(z0 - dz)) / (2 * dz[i])
    return float(np.linalg.det(J))
