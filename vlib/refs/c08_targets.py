"""Harness-owned differentiable targets for C08 (pure numpy/scipy, no cuqi).

Every target offers  logd(x), grad(x), fg(x) -> (logd, grad), draw(rs, K) -> exact draws (K, d),
to_normal(X) -> (K, d) array that is i.i.d. N(0,1) when the rows of X follow the target
(Rosenblatt transform through the known marginals / conditionals), and `sigma_min` (smallest length scale).
"""
import math
import numpy as np
from scipy import special


class _Base:
    kind = "?"
    dim = 0
    sigma_min = 1.0

    def fg(self, x):
        return self.logd(x), self.grad(x)


class Gauss(_Base):
    """N(mu, Q diag(lam) Q^T); optionally a hostile half space {y_0 > cut} (y = whitened coordinates)
    on which the log-density is NaN or -inf."""
    def __init__(self, mu, Q, lam, cut=None, hostile=None):
        self.mu, self.Q, self.lam = np.asarray(mu, float), np.asarray(Q, float), np.asarray(lam, float)
        self.dim = self.mu.size
        self.P = (self.Q / self.lam) @ self.Q.T
        self.W = (self.Q / np.sqrt(self.lam)).T           # y = W (x - mu)
        self.sigma_min = float(np.sqrt(self.lam.min()))
        self.cut, self.hostile = cut, hostile
        self.kind = "gauss" if hostile is None else "gauss_" + hostile

    def _bad(self, x):
        return self.hostile is not None and float(self.W[0] @ (np.asarray(x, float) - self.mu)) > self.cut

    def logd(self, x):
        x = np.asarray(x, float)
        with np.errstate(all="ignore"):
            if not np.all(np.isfinite(x)):
                return math.nan if self.hostile == "nan" else -math.inf
            if self._bad(x):
                return math.nan if self.hostile == "nan" else -math.inf
            d = x - self.mu
            return float(-0.5 * d @ (self.P @ d))

    def grad(self, x):
        x = np.asarray(x, float)
        with np.errstate(all="ignore"):
            if self.hostile is not None and (not np.all(np.isfinite(x)) or self._bad(x)):
                return np.full(self.dim, math.nan) if self.hostile == "nan" else np.zeros(self.dim)
            return -(self.P @ (x - self.mu))

    def draw(self, rs, K):
        Y = rs.standard_normal((K, self.dim))
        if self.hostile is not None:
            # exact draws of y_0 | y_0 < cut by inversion
            u = rs.random_sample(K) * special.ndtr(self.cut)
            Y[:, 0] = special.ndtri(u)
        return self.mu + (Y * np.sqrt(self.lam)) @ self.Q.T

    def to_normal(self, X):
        Y = (np.asarray(X, float) - self.mu) @ self.W.T
        if self.hostile is not None:
            Y = Y.copy()
            Y[:, 0] = special.ndtri(np.clip(special.ndtr(Y[:, 0]) / special.ndtr(self.cut), 0.0, 1.0))
        return Y


class Logistic(_Base):
    kind = "logistic"

    def __init__(self, loc, scale):
        self.loc, self.scale = np.asarray(loc, float), np.asarray(scale, float)
        self.dim = self.loc.size
        self.sigma_min = float(self.scale.min() * math.pi / math.sqrt(3.0))

    def logd(self, x):
        with np.errstate(all="ignore"):
            z = np.abs((np.asarray(x, float) - self.loc) / self.scale)
            return float(np.sum(-z - 2.0 * np.log1p(np.exp(-z))))

    def grad(self, x):
        with np.errstate(all="ignore"):
            z = (np.asarray(x, float) - self.loc) / self.scale
            return -np.tanh(0.5 * z) / self.scale

    def draw(self, rs, K):
        U = rs.random_sample((K, self.dim))
        return self.loc + self.scale * (np.log(U) - np.log1p(-U))

    def to_normal(self, X):
        Z = (np.asarray(X, float) - self.loc) / self.scale
        # Phi^-1(expit(z)), computed on the accurate side
        return np.where(Z <= 0, special.ndtri(special.expit(Z)), -special.ndtri(special.expit(-Z)))


class Gumbel(_Base):
    kind = "gumbel"

    def __init__(self, loc, scale):
        self.loc, self.scale = np.asarray(loc, float), np.asarray(scale, float)
        self.dim = self.loc.size
        self.sigma_min = float(self.scale.min() * math.pi / math.sqrt(6.0))

    def logd(self, x):
        with np.errstate(all="ignore"):
            z = (np.asarray(x, float) - self.loc) / self.scale
            return float(np.sum(-z - np.exp(-z)))

    def grad(self, x):
        with np.errstate(all="ignore"):
            z = (np.asarray(x, float) - self.loc) / self.scale
            return (-1.0 + np.exp(-z)) / self.scale

    def draw(self, rs, K):
        U = rs.random_sample((K, self.dim))
        return self.loc - self.scale * np.log(-np.log(U))

    def to_normal(self, X):
        Z = (np.asarray(X, float) - self.loc) / self.scale
        # cdf = exp(-exp(-z)); upper tail 1-cdf = -expm1(-exp(-z))
        with np.errstate(all="ignore"):
            t = np.exp(-Z)
            lo = special.ndtri(np.exp(-t))
            hi = -special.ndtri(-np.expm1(-t))
        return np.where(Z < 0.3665, lo, hi)


class Banana(_Base):
    """x1 ~ N(0, s^2), x2 | x1 ~ N(b (x1^2 - s^2), 1)."""
    kind = "banana"
    dim = 2

    def __init__(self, s, b):
        self.s, self.b = float(s), float(b)
        self.sigma_min = min(self.s, 1.0) / math.sqrt(1.0 + 4 * self.b ** 2 * self.s ** 2)

    def logd(self, x):
        with np.errstate(all="ignore"):
            x = np.asarray(x, float)
            w = x[1] - self.b * (x[0] ** 2 - self.s ** 2)
            return float(-0.5 * x[0] ** 2 / self.s ** 2 - 0.5 * w ** 2)

    def grad(self, x):
        with np.errstate(all="ignore"):
            x = np.asarray(x, float)
            w = x[1] - self.b * (x[0] ** 2 - self.s ** 2)
            return np.array([-x[0] / self.s ** 2 + 2.0 * self.b * x[0] * w, -w])

    def draw(self, rs, K):
        x1 = self.s * rs.standard_normal(K)
        x2 = self.b * (x1 ** 2 - self.s ** 2) + rs.standard_normal(K)
        return np.column_stack([x1, x2])

    def to_normal(self, X):
        X = np.asarray(X, float)
        return np.column_stack([X[:, 0] / self.s, X[:, 1] - self.b * (X[:, 0] ** 2 - self.s ** 2)])


class Flat(_Base):
    """Constant log-density (all leaves have exactly the initial energy): used for exact ties only."""
    kind = "flat"

    def __init__(self, dim, c):
        self.dim, self.c = int(dim), float(c)

    def logd(self, x):
        return self.c

    def grad(self, x):
        return np.zeros(self.dim)


def random_orthogonal(rs, d):
    A = rs.standard_normal((d, d))
    Q, R = np.linalg.qr(A)
    return Q * np.sign(np.diag(R))


def make(spec, rs):
    """Build a target from a JSON-able spec using the private stream rs (deterministic per case)."""
    k, d = spec["tk"], int(spec.get("dim", 2))
    if k in ("gauss", "gauss_nan", "gauss_neginf"):
        cond = float(spec.get("cond", 1.0))
        lam = np.exp(rs.uniform(0.0, math.log(cond), d)) if cond > 1 else np.ones(d)
        if d > 1 and cond > 1:
            lam[0], lam[-1] = 1.0, cond
        lam = lam * float(spec.get("var0", 1.0))
        rs.shuffle(lam)
        Q = random_orthogonal(rs, d) if d > 1 else np.eye(1)
        mu = rs.standard_normal(d) * float(spec.get("mu_scale", 1.0))
        if k == "gauss":
            return Gauss(mu, Q, lam)
        return Gauss(mu, Q, lam, cut=float(spec.get("cut", 0.5)), hostile=k.split("_")[1])
    if k == "logistic":
        return Logistic(rs.standard_normal(d), np.exp(rs.uniform(-1.0, 1.0, d)))
    if k == "gumbel":
        return Gumbel(rs.standard_normal(d), np.exp(rs.uniform(-0.7, 0.7, d)))
    if k == "banana":
        return Banana(float(np.exp(rs.uniform(-0.3, 0.6))), float(rs.uniform(0.2, 1.0)))
    if k == "flat":
        return Flat(d, float(rs.standard_normal()))
    raise ValueError(k)


def fd_grad_defect(t, x, h=1e-6):
    """max relative deviation between grad and a central finite difference of logd."""
    x = np.asarray(x, float)
    g = np.asarray(t.grad(x), float)
    fd = np.empty_like(g)
    for i in range(x.size):
        e = np.zeros_like(x); e[i] = h * max(1.0, abs(x[i]))
        fd[i] = (t.logd(x + e) - t.logd(x - e)) / (2 * e[i])
    return float(np.max(np.abs(fd - g)) / max(1.0, float(np.max(np.abs(g)))))


# ======================================================================================================
# Independent numpy implementations of *library* targets (cuqi.distribution.*) used by the "lib" cases.
# Written from the documented densities / the gallery's source of constants; never import cuqi.

class NormalisedGauss(_Base):
    """N(mu, Sigma) with the full normalising constant (what cuqi.distribution.Gaussian.logd documents)."""
    kind = "lib_gauss"

    def __init__(self, mu, Sigma):
        self.mu = np.asarray(mu, float).reshape(-1)
        self.Sigma = np.asarray(Sigma, float)
        self.dim = self.mu.size
        self.P = np.linalg.inv(self.Sigma)
        self.L = np.linalg.cholesky(self.Sigma)
        self.const = -0.5 * (self.dim * math.log(2 * math.pi) + 2.0 * float(np.sum(np.log(np.diag(self.L)))))
        self.sigma_min = float(np.sqrt(np.linalg.eigvalsh(self.Sigma).min()))

    def logd(self, x):
        d = np.asarray(x, float).reshape(-1) - self.mu
        with np.errstate(all="ignore"):
            return float(self.const - 0.5 * d @ (self.P @ d))

    def grad(self, x):
        with np.errstate(all="ignore"):
            return -(self.P @ (np.asarray(x, float).reshape(-1) - self.mu))

    def draw(self, rs, K):
        return self.mu + rs.standard_normal((K, self.dim)) @ self.L.T

    def to_normal(self, X):
        return np.linalg.solve(self.L, (np.asarray(X, float) - self.mu).T).T


class _Warped(_Base):
    """x -> y(x) with unit Jacobian, y ~ N(m0, S0): density of x is the Gaussian density at y(x)."""
    def _setup(self, m0, S0):
        self.G = NormalisedGauss(m0, S0)
        self.dim = 2

    def logd(self, x):
        with np.errstate(all="ignore"):
            return self.G.logd(self.warp(np.asarray(x, float)))

    def grad(self, x):
        with np.errstate(all="ignore"):
            x = np.asarray(x, float)
            return self.jac(x).T @ self.G.grad(self.warp(x))

    def draw(self, rs, K):
        return np.array([self.unwarp(y) for y in self.G.draw(rs, K)])

    def to_normal(self, X):
        return self.G.to_normal(np.array([self.warp(x) for x in np.asarray(X, float)]))


class GallerySquiggle(_Warped):
    kind = "lib_squiggle"

    def __init__(self):
        self._setup(np.zeros(2), np.array([[2.0, 0.25], [0.25, 0.5]]))
        self.sigma_min = 0.12          # the warp oscillates with wave number 5

    def warp(self, x):
        return np.array([x[0], x[1] + math.sin(5 * x[0])])

    def jac(self, x):
        return np.array([[1.0, 0.0], [5 * math.cos(5 * x[0]), 1.0]])

    def unwarp(self, y):
        return np.array([y[0], y[1] - math.sin(5 * y[0])])


class GalleryBanana(_Warped):
    kind = "lib_banana"

    def __init__(self):
        self._setup(np.array([0.0, 4.0]), np.array([[1.0, 0.5], [0.5, 1.0]]))
        self.a, self.b = 2.0, 0.2
        self.sigma_min = 0.25

    def warp(self, x):
        return np.array([x[0] / self.a, x[1] * self.a + self.a * self.b * (x[0] ** 2 + self.a ** 2)])

    def jac(self, x):
        return np.array([[1.0 / self.a, 0.0], [2 * self.a * self.b * x[0], self.a]])

    def unwarp(self, y):
        x0 = self.a * y[0]
        return np.array([x0, (y[1] - self.a * self.b * (x0 ** 2 + self.a ** 2)) / self.a])


class GalleryFunnel(_Base):
    """Neal's funnel: x1 ~ N(0, 3^2), x0 | x1 ~ N(0, exp(x1))."""
    kind = "lib_funnel"
    dim = 2
    sigma_min = 0.15

    def logd(self, x):
        with np.errstate(all="ignore"):
            x = np.asarray(x, float)
            s0 = np.exp(x[1] / 2)
            f = lambda v, s: -0.5 * math.log(2 * math.pi) - np.log(s) - 0.5 * (v / s) ** 2
            return float(f(x[0], s0) + f(x[1], 3.0))

    def grad(self, x):
        with np.errstate(all="ignore"):
            x = np.asarray(x, float)
            v = np.exp(x[1])
            return np.array([-x[0] / v, -0.5 + 0.5 * x[0] ** 2 / v - x[1] / 9.0])

    def draw(self, rs, K):
        x1 = 3.0 * rs.standard_normal(K)
        return np.column_stack([np.exp(x1 / 2) * rs.standard_normal(K), x1])

    def to_normal(self, X):
        X = np.asarray(X, float)
        return np.column_stack([X[:, 0] / np.exp(X[:, 1] / 2), X[:, 1] / 3.0])


class GalleryDonut(_Base):
    kind = "lib_donut"
    dim = 2
    sigma_min = 0.12

    def logd(self, x):
        r = float(np.linalg.norm(np.asarray(x, float)))
        return -(r - 2.6) ** 2 / 0.033

    def grad(self, x):
        x = np.asarray(x, float)
        r = float(np.linalg.norm(x))
        return x * ((2.6 / r) - 1.0) * 2.0 / 0.033


class GalleryCalSom91(_Base):
    kind = "lib_CalSom91"
    dim = 2
    sigma_min = 0.1

    def logd(self, x):
        x = np.asarray(x, float)
        r = math.hypot(x[0], x[1])
        return -1.0 / (2 * 0.1 ** 2) * (r - 1.0) ** 2 - 0.5 * (x[1] - 1.0) ** 2

    def grad(self, x):
        x = np.asarray(x, float)
        r = math.hypot(x[0], x[1])
        return np.array([-(x[0] * (r - 1.0)) / (0.01 * r), -(x[1] * (r - 1.0)) / (0.01 * r) - (x[1] - 1.0)])


class GalleryMixture(_Base):
    kind = "lib_mixture"
    dim = 2
    sigma_min = 0.5

    def __init__(self):
        self.c = [NormalisedGauss(m, s * np.eye(2)) for m, s in (([-1.5, -1.5], 0.64), ([1.5, 1.5], 0.64), ([-2.0, 2.0], 0.25))]

    def logd(self, x):
        with np.errstate(all="ignore"):
            return float(np.log(sum(np.exp(c.logd(x)) for c in self.c)))

    def grad(self, x):
        with np.errstate(all="ignore"):
            p = np.array([np.exp(c.logd(x)) for c in self.c])
            return sum(pi * c.grad(x) for pi, c in zip(p, self.c)) / p.sum()


GALLERY = {"squiggle": GallerySquiggle, "banana": GalleryBanana, "funnel": GalleryFunnel, "donut": GalleryDonut,
           "CalSom91": GalleryCalSom91, "mixture": GalleryMixture}
