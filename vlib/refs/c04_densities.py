"""Closed-form reference densities for C04, written from the class docstrings of
cuqi.distribution (the *documented* densities) and the standard literature.
Pure math / numpy / scipy.special.  Never imports cuqi, never uses scipy.stats
(scipy.stats is only consulted by the self-test in the check module).

Every univariate family is described by
    logpdf1(x, **params)   element-wise log-density (arrays broadcast), -inf outside the support
    cdf1(x, **params)      element-wise distribution function (None when the family documents none)
    support(**params)      element-wise (lo, hi)
The multivariate i.i.d./independent density is the sum over coordinates.
"""
import math
import numpy as np
from scipy import special as sc

LOG2PI = math.log(2.0 * math.pi)

def _b(*arrs):
    return np.broadcast_arrays(*[np.asarray(a, dtype=float) for a in arrs])

# ----------------------------------------------------------------------------- univariate families

def normal_logpdf1(x, mean, std):
    x, m, s = _b(x, mean, std)
    return -np.log(s) - 0.5 * LOG2PI - 0.5 * ((x - m) / s) ** 2

def normal_cdf1(x, mean, std):
    x, m, s = _b(x, mean, std)
    return 0.5 * sc.erfc(-(x - m) / (s * math.sqrt(2.0)))

def laplace_logpdf1(x, location, scale):
    x, m, b = _b(x, location, scale)
    return -np.log(2.0 * b) - np.abs(x - m) / b

def smoothed_laplace_logpdf1(x, location, scale, beta):
    """Documented: p(x) = 1/(2b) exp(-sqrt((x-mu)^2+beta)/b)  (not normalised for beta>0)."""
    x, m, b, be = _b(x, location, scale, beta)
    return -np.log(2.0 * b) - np.sqrt((x - m) ** 2 + be) / b

def smoothed_laplace_mass(scale, beta):
    """Integral over R of the documented smoothed-Laplace expression:
    1/(2b) * 2 sqrt(beta) K_1(sqrt(beta)/b)."""
    b, be = float(scale), float(beta)
    z = math.sqrt(be) / b
    return z * float(sc.kv(1, z))

def cauchy_logpdf1(x, location, scale):
    x, m, g = _b(x, location, scale)
    return -np.log(math.pi * g * (1.0 + ((x - m) / g) ** 2))

def cauchy_cdf1(x, location, scale):
    x, m, g = _b(x, location, scale)
    return 0.5 + np.arctan((x - m) / g) / math.pi

def gamma_logpdf1(x, shape, rate):
    x, a, r = _b(x, shape, rate)
    out = np.full(x.shape, -np.inf)
    ok = x > 0
    out[ok] = a[ok] * np.log(r[ok]) + (a[ok] - 1.0) * np.log(x[ok]) - r[ok] * x[ok] - sc.gammaln(a[ok])
    # closed edge of the support: the documented expression at x = 0 (0^0 = 1): rate for shape 1, diverges below, 0 above
    e = x == 0
    out[e & (a == 1.0)] = np.log(r[e & (a == 1.0)])
    out[e & (a < 1.0)] = np.inf
    return out

def gamma_cdf1(x, shape, rate):
    x, a, r = _b(x, shape, rate)
    return np.where(x > 0, sc.gammainc(a, r * np.maximum(x, 0.0)), 0.0)

def invgamma_logpdf1(x, shape, location, scale):
    """Documented: (x-b)^(-a-1) exp(-g/(x-b)) / (g^(-a) Gamma(a)), support x > b."""
    x, a, b, g = _b(x, shape, location, scale)
    out = np.full(x.shape, -np.inf)
    ok = x > b
    y = x[ok] - b[ok]
    out[ok] = (-a[ok] - 1.0) * np.log(y) - g[ok] / y + a[ok] * np.log(g[ok]) - sc.gammaln(a[ok])
    return out

def invgamma_cdf1(x, shape, location, scale):
    x, a, b, g = _b(x, shape, location, scale)
    y = np.where(x > b, x - b, 1.0)
    return np.where(x > b, sc.gammaincc(a, g / y), 0.0)

def beta_logpdf1(x, alpha, beta):
    x, a, b = _b(x, alpha, beta)
    out = np.full(x.shape, -np.inf)
    ok = (x > 0) & (x < 1)
    out[ok] = (a[ok] - 1.0) * np.log(x[ok]) + (b[ok] - 1.0) * np.log1p(-x[ok]) - sc.betaln(a[ok], b[ok])
    # edges: the documented expression evaluated there (0^0 = 1)
    for e, p in ((x == 0, a), (x == 1, b)):
        out[e & (p == 1.0)] = -sc.betaln(a[e & (p == 1.0)], b[e & (p == 1.0)])
        out[e & (p < 1.0)] = np.inf
    return out

def beta_cdf1(x, alpha, beta):
    x, a, b = _b(x, alpha, beta)
    return np.where(x <= 0, 0.0, np.where(x >= 1, 1.0, sc.betainc(a, b, np.clip(x, 0.0, 1.0))))

def uniform_logpdf1(x, low, high):
    x, lo, hi = _b(x, low, high)
    return np.where((x >= lo) & (x <= hi), -np.log(hi - lo), -np.inf)

def mhn_logupdf1(x, alpha, beta, gamma):
    """Documented up to a constant: x^(alpha-1) exp(-beta x^2 + gamma x), x > 0."""
    x, a, b, g = _b(x, alpha, beta, gamma)
    return (a - 1.0) * np.log(x) - b * x * x + g * x

UNI = {
    "Normal":          {"params": ("mean", "std"), "logpdf1": normal_logpdf1, "cdf1": normal_cdf1,
                        "support": lambda mean, std: (-np.inf, np.inf)},
    "Laplace":         {"params": ("location", "scale"), "logpdf1": laplace_logpdf1, "cdf1": None,
                        "support": lambda location, scale: (-np.inf, np.inf)},
    "SmoothedLaplace": {"params": ("location", "scale", "beta"), "logpdf1": smoothed_laplace_logpdf1, "cdf1": None,
                        "support": lambda location, scale, beta: (-np.inf, np.inf)},
    "Cauchy":          {"params": ("location", "scale"), "logpdf1": cauchy_logpdf1, "cdf1": cauchy_cdf1,
                        "support": lambda location, scale: (-np.inf, np.inf)},
    "Gamma":           {"params": ("shape", "rate"), "logpdf1": gamma_logpdf1, "cdf1": gamma_cdf1,
                        "support": lambda shape, rate: (0.0, np.inf)},
    "InverseGamma":    {"params": ("shape", "location", "scale"), "logpdf1": invgamma_logpdf1, "cdf1": invgamma_cdf1,
                        "support": lambda shape, location, scale: (location, np.inf)},
    "Beta":            {"params": ("alpha", "beta"), "logpdf1": beta_logpdf1, "cdf1": beta_cdf1,
                        "support": lambda alpha, beta: (0.0, 1.0)},
    "Uniform":         {"params": ("low", "high"), "logpdf1": uniform_logpdf1, "cdf1": None,
                        "support": lambda low, high: (low, high)},
}

def indep_logpdf(family, x, params):
    """Joint log-density of independent coordinates (sum of the element-wise terms)."""
    return float(np.sum(UNI[family]["logpdf1"](np.asarray(x, dtype=float), **params)))

def indep_cdf(family, x, params):
    f = UNI[family]["cdf1"]
    return float(np.prod(f(np.asarray(x, dtype=float), **params)))

# ----------------------------------------------------------------------------- dense Gaussian algebra

def gaussian_logpdf(x, mean, cov=None, prec=None):
    """log N(x; mean, cov) through numpy.linalg (slogdet + solve); exactly one of cov/prec (dense, SPD)."""
    x = np.asarray(x, dtype=float).ravel()
    d = x.size
    dev = x - np.broadcast_to(np.asarray(mean, dtype=float).ravel(), (d,))
    if cov is not None:
        cov = np.asarray(cov, dtype=float)
        sign, ld = np.linalg.slogdet(cov)
        if sign <= 0:
            raise ValueError("reference covariance not positive definite")
        q = float(dev @ np.linalg.solve(cov, dev))
        return -0.5 * (d * LOG2PI + ld + q)
    prec = np.asarray(prec, dtype=float)
    sign, ld = np.linalg.slogdet(prec)
    if sign <= 0:
        raise ValueError("reference precision not positive definite")
    q = float(dev @ prec @ dev)
    return -0.5 * (d * LOG2PI - ld + q)

def expand(value, d):
    """Documented meaning of scalar / 1d / 2d Gaussian matrix data: scalar or vector = diagonal entries."""
    a = np.asarray(value, dtype=float)
    if a.ndim == 0 or a.size == 1:
        return float(a.ravel()[0]) * np.eye(d)
    if a.ndim == 1:
        return np.diag(a)
    return a

def gaussian_cov_from(form, value, d, convention="doc"):
    """Covariance denoted by a documented Gaussian input form.
    sqrtcov R: cov = R^T R ; sqrtprec R: prec = R^T R   (class docstring).
    convention='code' gives R R^T for sqrtcov (what the implementation builds)."""
    M = expand(value, d)
    if form == "cov":
        return M
    if form == "prec":
        return np.linalg.inv(M)
    if form == "sqrtcov":
        return M.T @ M if convention == "doc" else M @ M.T
    if form == "sqrtprec":
        return np.linalg.inv(M.T @ M)
    raise ValueError(form)

def lognormal_logpdf(x, mean, cov):
    """X = exp(Z), Z ~ N(mean, cov): log p(x) = log N(log x; mean, cov) - sum(log x), x > 0."""
    x = np.asarray(x, dtype=float).ravel()
    if np.any(x <= 0):
        return -np.inf
    return gaussian_logpdf(np.log(x), mean, cov=expand(cov, x.size)) - float(np.sum(np.log(x)))

# ----------------------------------------------------------------------------- MRF priors (D from refs/stencils)

def gmrf_logpdf(x, mean, delta, D):
    """N(mean, (delta D^T D)^-1); for a singular D^T D the density on its range
    (rank r, pseudo-determinant): 0.5*(r*(log delta - log 2pi) + log pdet(D^T D)) - delta/2 |D(x-mean)|^2."""
    P = D.T @ D
    w = np.linalg.eigvalsh((P + P.T) / 2)
    keep = w > 1e-9 * max(1.0, w.max())
    r = int(np.sum(keep)); logpdet = float(np.sum(np.log(w[keep])))
    dev = np.asarray(x, dtype=float) - mean
    q = float(np.sum((D @ dev) ** 2))
    const = 0.5 * (r * (math.log(delta) - LOG2PI) + logpdet)
    return const - 0.5 * delta * q, const, r, logpdet

def lmrf_logpdf(x, location, scale, D):
    y = D @ (np.asarray(x, dtype=float) - location)
    return float(np.sum(-math.log(2.0 * scale) - np.abs(y) / scale))

def cmrf_logpdf(x, location, scale, D):
    y = D @ (np.asarray(x, dtype=float) - location)
    return float(np.sum(math.log(scale / math.pi) - np.log(y ** 2 + scale ** 2)))
