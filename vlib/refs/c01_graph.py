"""Reference model for C01 (never imports cuqi).

A *graph* is a list of nodes; every node is one factor p(name | parents) of a joint density:

    {"name": "x", "fam": "Gaussian", "dim": 4, "opts": {...},
     "links": {"mean": <link>, "cov": <link>}}

A *link* says how a parameter of the factor is obtained from the values of other variables:

    {"k": "const", "v": ...}
    {"k": <kind>, "of": [parent names], "pd": [parent dims], ...numeric constants...}

The reference evaluates  log p(all) = sum_i log p_i(value_i | parents_i)  with closed-form
log-densities written from the documentation of the families (scipy.special.gammaln/betaln and
numpy.linalg only) and dense loop-built difference stencils (refs/stencils.py).
"""
import math
import numpy as np
from scipy.special import gammaln, betaln
from . import stencils as S

LOG2PI = math.log(2.0 * math.pi)

# --------------------------------------------------------------------------- links

def _scal(v):
    a = np.asarray(v, dtype=float).ravel()
    if a.size != 1:
        raise ValueError("scalar parent expected, got shape %s" % (np.shape(v),))
    return float(a[0])

def _vec(v):
    return np.asarray(v, dtype=float).ravel()

def eval_link(link, env):
    """Value of a parameter given the values of the parent variables (dict name -> value)."""
    k = link["k"]
    if k == "const":
        return link["v"]
    vals = [env[p] for p in link["of"]]
    return eval_link_vals(link, vals)

def eval_link_vals(link, vals):
    k = link["k"]
    # ---- location-type links (real valued)
    if k == "lin":            # a*p + b        (scalar parent; b scalar or vector)
        return link["a"] * _scal(vals[0]) + np.asarray(link["b"], dtype=float)
    if k == "ident":          # p              (vector parent of the same dimension) + b
        return _vec(vals[0]) + np.asarray(link["b"], dtype=float)
    if k == "matvec":         # A p + b
        return np.asarray(link["A"]) @ _vec(vals[0]) + np.asarray(link["b"], dtype=float)
    if k == "nonlin":         # A tanh(p) + 0.3 (B p)^2
        p = _vec(vals[0])
        return np.asarray(link["A"]) @ np.tanh(p) + 0.3 * (np.asarray(link["B"]) @ p) ** 2
    if k == "matvec2":        # A p1 + B p2     (two vector parents)
        return np.asarray(link["A"]) @ _vec(vals[0]) + np.asarray(link["B"]) @ _vec(vals[1])
    if k == "smatvec":        # s * (A p)       (scalar parent s, vector parent p)
        return _scal(vals[0]) * (np.asarray(link["A"]) @ _vec(vals[1]))
    if k == "lin2":           # a*p1 + b*p2 + c (two scalar parents)
        return link["a"] * _scal(vals[0]) + link["b"] * _scal(vals[1]) + np.asarray(link["c"], dtype=float)
    # ---- positive links (scale-type); "base" is a scalar, a vector or an SPD matrix
    base = np.asarray(link.get("base", 1.0), dtype=float)
    if base.ndim == 0:
        base = float(base)
    if k == "inv":            # base * c / p            (p > 0)
        return base * (link["c"] / _scal(vals[0]))
    if k == "mul":            # base * c * p            (p > 0)
        return base * (link["c"] * _scal(vals[0]))
    if k == "absc":           # base * (|p| + c)        (p real)
        return base * (abs(_scal(vals[0])) + link["c"])
    if k == "exp":            # base * c * exp(a p)     (p real)
        return base * (link["c"] * math.exp(link["a"] * _scal(vals[0])))
    if k == "inv2":           # base * c / (p1 p2)      (both > 0)
        return base * (link["c"] / (_scal(vals[0]) * _scal(vals[1])))
    if k == "ratio":          # base * c * p1 / p2      (both > 0)
        return base * (link["c"] * _scal(vals[0]) / _scal(vals[1]))
    if k == "normsq":         # base * (c + mean(p^2))  (vector parent)
        p = _vec(vals[0])
        return base * (link["c"] + float(np.mean(p ** 2)))
    raise ValueError("unknown link kind %r" % k)

def parents(node):
    out = []
    for pname in sorted(node["links"]):
        for p in node["links"][pname].get("of", []):
            if p not in out:
                out.append(p)
    return out

def node_params(node, env):
    return {pname: eval_link(link, env) for pname, link in node["links"].items()}

# --------------------------------------------------------------------------- closed-form log-densities

def _bc(v, n):
    a = np.asarray(v, dtype=float).ravel()
    if a.size == 1:
        return np.full(n, float(a[0]))
    if a.size != n:
        raise ValueError("parameter of size %d for dimension %d" % (a.size, n))
    return a

def _gauss_cov(form, M, n):
    """Dense covariance implied by a Gaussian parameter given as scalar / vector / (symmetric) matrix."""
    M = np.asarray(M, dtype=float)
    if M.ndim <= 1:
        d = _bc(M, n)
        if form == "cov": c = d
        elif form == "prec": c = 1.0 / d
        elif form == "sqrtcov": c = d ** 2
        elif form == "sqrtprec": c = 1.0 / d ** 2
        else: raise ValueError(form)
        return np.diag(c)
    if form == "cov": return M
    if form == "prec": return np.linalg.inv(M)
    if form == "sqrtcov": return M @ M.T            # only symmetric M are generated
    if form == "sqrtprec": return np.linalg.inv(M.T @ M)
    raise ValueError(form)

def gauss_logpdf(x, mean, cov):
    n = x.size
    r = x - _bc(mean, n)
    sign, logdet = np.linalg.slogdet(cov)
    if sign <= 0:
        raise ValueError("covariance not positive definite in the reference")
    return float(-0.5 * (n * LOG2PI + logdet + r @ np.linalg.solve(cov, r)))

def logpdf(node, prm, value):
    fam, n, opts = node["fam"], node["dim"], node.get("opts", {})
    x = _vec(value)
    if x.size != n:
        raise ValueError("value of size %d for %s of dimension %d" % (x.size, node["name"], n))
    if fam == "Gamma":
        a, b = _bc(prm["shape"], n), _bc(prm["rate"], n)
        if np.any(x <= 0): return -math.inf
        return float(np.sum(a * np.log(b) - gammaln(a) + (a - 1) * np.log(x) - b * x))
    if fam == "InverseGamma":
        a, loc, s = _bc(prm["shape"], n), _bc(prm["location"], n), _bc(prm["scale"], n)
        z = x - loc
        if np.any(z <= 0): return -math.inf
        return float(np.sum(a * np.log(s) - gammaln(a) - (a + 1) * np.log(z) - s / z))
    if fam == "Uniform":
        lo, hi = _bc(prm["low"], n), _bc(prm["high"], n)
        if np.any(x < lo) or np.any(x > hi): return -math.inf
        return float(-np.sum(np.log(hi - lo)))
    if fam == "Beta":
        a, b = _bc(prm["alpha"], n), _bc(prm["beta"], n)
        if np.any(x <= 0) or np.any(x >= 1): return -math.inf
        return float(np.sum((a - 1) * np.log(x) + (b - 1) * np.log1p(-x) - betaln(a, b)))
    if fam == "Normal":
        m, s = _bc(prm["mean"], n), _bc(prm["std"], n)
        return float(np.sum(-np.log(s) - 0.5 * LOG2PI - 0.5 * ((x - m) / s) ** 2))
    if fam == "Gaussian":
        form = opts["form"]
        return gauss_logpdf(x, prm["mean"], _gauss_cov(form, prm[form], n))
    if fam == "Lognormal":
        if np.any(x <= 0): return -math.inf
        return gauss_logpdf(np.log(x), prm["mean"], _gauss_cov("cov", prm["cov"], n)) - float(np.sum(np.log(x)))
    if fam == "Laplace":
        loc, s = _bc(prm["location"], n), _scal(prm["scale"])
        return float(n * math.log(0.5 / s) - np.sum(np.abs(x - loc)) / s)
    if fam == "Cauchy":
        loc, s = _bc(prm["location"], n), _bc(prm["scale"], n)
        return float(np.sum(-np.log(math.pi * s * (1 + ((x - loc) / s) ** 2))))
    if fam in ("GMRF", "LMRF", "CMRF"):
        pd, bc = opts.get("pd", 1), opts["bc"]
        N = n if pd == 1 else int(round(math.sqrt(n)))
        if fam == "GMRF":
            D = S.diff_op(N, bc, opts["order"], pd)
            P = D.T @ D
            plogdet, rank, _ = S.pseudo_logdet_and_rank(P)
            r = x - _bc(prm["mean"], n)
            prec = _scal(prm["prec"])
            return float(0.5 * (rank * (math.log(prec) - LOG2PI) + plogdet) - 0.5 * prec * (r @ P @ r))
        D = S.diff_op(N, bc, 1, pd)
        r = D @ (x - _bc(prm["location"], n))
        s = _scal(prm["scale"])
        if fam == "LMRF":
            return float(np.sum(-math.log(2 * s) - np.abs(r) / s))
        return float(np.sum(math.log(s / math.pi) - np.log(r ** 2 + s ** 2)))
    raise ValueError("unknown family %r" % fam)

def factor_logd(node, env):
    return logpdf(node, node_params(node, env), env[node["name"]])

def joint_logd(graph, env):
    return float(sum(factor_logd(nd, env) for nd in graph))

def factor_values(graph, env):
    return {nd["name"]: factor_logd(nd, env) for nd in graph}

# --------------------------------------------------------------------------- supports / admissible values

SUPPORT = {"Gamma": "pos", "InverseGamma": "pos", "Uniform": "box", "Beta": "unit", "Lognormal": "pos",
           "Normal": "real", "Gaussian": "real", "Laplace": "real", "Cauchy": "real",
           "GMRF": "real", "LMRF": "real", "CMRF": "real"}

def draw_value(node, prm, rs):
    """An admissible value (strictly inside the support, moderate size)."""
    fam, n = node["fam"], node["dim"]
    sup = SUPPORT[fam]
    if sup == "pos":
        v = np.exp(rs.uniform(math.log(0.3), math.log(3.0), n))
        if fam == "InverseGamma":
            v = v + _bc(prm["location"], n)
    elif sup == "unit":
        v = rs.uniform(0.1, 0.9, n)
    elif sup == "box":
        lo, hi = _bc(prm["low"], n), _bc(prm["high"], n)
        v = lo + (hi - lo) * rs.uniform(0.1, 0.9, n)
    else:
        v = 0.8 * rs.standard_normal(n)
        if n == 1 and abs(v[0]) < 0.05:      # keep scalar real parents away from the kink of |.|
            v = v + 0.3
    return v

def draw_assignment(graph, rs):
    """Full admissible assignment, drawn parents first (the graph is stored in topological order
    under key 'topo' of each node)."""
    env = {}
    for nd in sorted(graph, key=lambda d: d["topo"]):
        prm = node_params(nd, env)
        env[nd["name"]] = draw_value(nd, prm, rs)
    return env

# --------------------------------------------------------------------------- materialisation of a structure

def _spd(rs, n, lo=0.5, hi=2.0):
    Q, _ = np.linalg.qr(rs.standard_normal((n, n)))
    w = rs.uniform(lo, hi, n)
    M = (Q * w) @ Q.T
    return (M + M.T) / 2

def _base(rs, shape, n):
    if shape == "scalar":
        return float(rs.uniform(0.5, 2.0))
    if shape == "vector":
        return rs.uniform(0.5, 2.0, n)
    return _spd(rs, n)

def materialize(struct, rs):
    """Fill the numeric constants of a structure descriptor (deterministic in rs)."""
    graph = []
    dims = {nd["name"]: nd["dim"] for nd in struct}
    for topo, nd in enumerate(struct):
        n = nd["dim"]
        g = {"name": nd["name"], "fam": nd["fam"], "dim": n, "opts": dict(nd.get("opts", {})), "links": {},
             "topo": topo, "via": dict(nd.get("via", {}))}
        for pname, ln in nd["links"].items():
            k = ln["k"]
            out = {"k": k}
            if "of" in ln:
                out["of"] = list(ln["of"]); out["pd"] = [dims[p] for p in ln["of"]]
            role = ln.get("role", "loc")
            shape = ln.get("shape", "scalar")
            if k == "const":
                if role == "loc":
                    out["v"] = float(rs.uniform(-1, 1)) if shape == "scalar" else rs.uniform(-1, 1, n)
                elif role == "pos":
                    out["v"] = _base(rs, shape, n)
                elif role == "shape":        # Gamma/InverseGamma/Beta shape-like parameters
                    out["v"] = float(rs.uniform(1.2, 4.0)) if shape == "scalar" else rs.uniform(1.2, 4.0, n)
                elif role == "low":
                    out["v"] = float(rs.uniform(0.1, 0.4)) if shape == "scalar" else rs.uniform(0.1, 0.4, n)
                elif role == "high":
                    out["v"] = float(rs.uniform(3.5, 6.0)) if shape == "scalar" else rs.uniform(3.5, 6.0, n)
                elif role == "zero":
                    out["v"] = 0.0
                else:
                    raise ValueError(role)
            elif k == "lin":
                out["a"] = float(rs.uniform(0.3, 1.2) * rs.choice([-1, 1]))
                out["b"] = float(rs.uniform(-1, 1)) if shape == "scalar" else rs.uniform(-1, 1, n)
            elif k == "lin2":
                out["a"] = float(rs.uniform(0.3, 1.2)); out["b"] = float(-rs.uniform(0.3, 1.2))
                out["c"] = float(rs.uniform(-1, 1)) if shape == "scalar" else rs.uniform(-1, 1, n)
            elif k == "ident":
                out["b"] = rs.uniform(-0.5, 0.5, n)
            elif k == "matvec":
                out["A"] = rs.standard_normal((n, out["pd"][0])) / math.sqrt(out["pd"][0])
                out["b"] = rs.uniform(-0.5, 0.5, n)
                if ln.get("nob"):          # represented by a linear forward model: no offset
                    out["b"] = np.zeros(n)
            elif k == "nonlin":
                out["A"] = rs.standard_normal((n, out["pd"][0])) / math.sqrt(out["pd"][0])
                out["B"] = rs.standard_normal((n, out["pd"][0])) / math.sqrt(out["pd"][0])
            elif k == "matvec2":
                out["A"] = rs.standard_normal((n, out["pd"][0])) / math.sqrt(out["pd"][0])
                out["B"] = rs.standard_normal((n, out["pd"][1])) / math.sqrt(out["pd"][1])
            elif k == "smatvec":
                out["A"] = rs.standard_normal((n, out["pd"][1])) / math.sqrt(out["pd"][1])
            elif k in ("inv", "mul", "absc", "exp", "inv2", "ratio", "normsq"):
                out["c"] = float(rs.uniform(0.5, 1.5))
                if k == "exp":
                    out["a"] = float(rs.uniform(0.2, 0.6) * rs.choice([-1, 1]))
                out["base"] = _base(rs, shape, n)
            else:
                raise ValueError(k)
            g["links"][pname] = out
        graph.append(g)
    return graph

# --------------------------------------------------------------------------- self test (vs scipy.stats)

def selftest():
    """Compare every closed form with scipy.stats on random inputs. Returns a list of complaints."""
    import scipy.stats as st
    rs = np.random.RandomState(12345)
    bad = []
    def chk(name, a, b):
        if not (abs(a - b) <= 1e-9 * max(1.0, abs(b))):
            bad.append("%s: reference %r vs scipy %r" % (name, a, b))
    for n in (1, 3):
        x = rs.uniform(0.3, 2.5, n)
        a, b = rs.uniform(1, 3, n), rs.uniform(0.5, 2, n)
        nd = {"fam": "Gamma", "dim": n, "name": "t"}
        chk("Gamma", logpdf(nd, {"shape": a, "rate": b}, x), float(np.sum(st.gamma.logpdf(x, a=a, scale=1 / b))))
        nd = {"fam": "InverseGamma", "dim": n, "name": "t"}
        chk("InverseGamma", logpdf(nd, {"shape": a, "location": 0.1, "scale": b}, x),
            float(np.sum(st.invgamma.logpdf(x, a=a, loc=0.1, scale=b))))
        nd = {"fam": "Uniform", "dim": n, "name": "t"}
        chk("Uniform", logpdf(nd, {"low": 0.2, "high": 4.0}, x), float(np.sum(st.uniform.logpdf(x, 0.2, 3.8))))
        u = rs.uniform(0.1, 0.9, n)
        nd = {"fam": "Beta", "dim": n, "name": "t"}
        chk("Beta", logpdf(nd, {"alpha": a, "beta": b}, u), float(np.sum(st.beta.logpdf(u, a, b))))
        z = rs.standard_normal(n); m = rs.standard_normal(n)
        nd = {"fam": "Normal", "dim": n, "name": "t"}
        chk("Normal", logpdf(nd, {"mean": m, "std": b}, z), float(np.sum(st.norm.logpdf(z, m, b))))
        nd = {"fam": "Laplace", "dim": n, "name": "t"}
        chk("Laplace", logpdf(nd, {"location": m, "scale": 0.7}, z), float(np.sum(st.laplace.logpdf(z, m, 0.7))))
        nd = {"fam": "Cauchy", "dim": n, "name": "t"}
        chk("Cauchy", logpdf(nd, {"location": m, "scale": b}, z), float(np.sum(st.cauchy.logpdf(z, m, b))))
        C = _spd(rs, n)
        for form, M in (("cov", C), ("prec", np.linalg.inv(C)), ("cov", b), ("prec", 1 / b), ("sqrtcov", np.sqrt(b)),
                        ("sqrtprec", 1 / np.sqrt(b)), ("cov", 0.7)):
            nd = {"fam": "Gaussian", "dim": n, "name": "t", "opts": {"form": form}}
            cov = C if np.ndim(M) == 2 else (np.diag(b) if np.ndim(M) == 1 else 0.7 * np.eye(n))
            chk("Gaussian/" + form, logpdf(nd, {"mean": m, form: M}, z),
                float(st.multivariate_normal.logpdf(z, m, cov)))
        nd = {"fam": "Lognormal", "dim": n, "name": "t"}
        chk("Lognormal", logpdf(nd, {"mean": m, "cov": C}, x),
            float(st.multivariate_normal.logpdf(np.log(x), m, C) - np.sum(np.log(x))))
    # GMRF with zero boundary = Gaussian with precision prec * D^T D
    for order in (1, 2):
        n = 5
        D = S.diff_op(n, "zero", order, 1)
        x = rs.standard_normal(n); m = rs.standard_normal(n)
        nd = {"fam": "GMRF", "dim": n, "name": "t", "opts": {"bc": "zero", "order": order, "pd": 1}}
        chk("GMRF", logpdf(nd, {"mean": m, "prec": 2.5}, x),
            float(st.multivariate_normal.logpdf(x, m, np.linalg.inv(2.5 * D.T @ D))))
    D = S.diff_op(4, "zero", 1, 1)
    x = rs.standard_normal(4)
    nd = {"fam": "LMRF", "dim": 4, "name": "t", "opts": {"bc": "zero", "pd": 1}}
    chk("LMRF", logpdf(nd, {"location": 0.0, "scale": 0.6}, x), float(np.sum(st.laplace.logpdf(D @ x, 0, 0.6))))
    nd = {"fam": "CMRF", "dim": 4, "name": "t", "opts": {"bc": "zero", "pd": 1}}
    chk("CMRF", logpdf(nd, {"location": 0.0, "scale": 0.6}, x), float(np.sum(st.cauchy.logpdf(D @ x, 0, 0.6))))
    return bad
