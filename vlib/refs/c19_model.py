"""Reference model for C19 (never imports cuqi).

* explicit-index burn-in/thinning (no slicing: the index list b, b+t, b+2t, ... is built by a loop),
* per-coordinate statistics of one chain at a time (mean / median / variance / std / percentile
  with linear interpolation), written with math.fsum and an explicit sort,
* the representation state machine of a sample set (parameters / function vector / function values)
  driven by plain numpy maps of a reference geometry.
"""
import math
import numpy as np

# ----------------------------------------------------------------------------- burn-in / thinning

def kept_indices(Ns, b, t):
    """Indices b, b+t, b+2t, ... < Ns (b, t integers, b >= 0, t >= 1)."""
    out, i = [], int(b)
    while i < Ns:
        out.append(i)
        i += int(t)
    return out

def take_last_axis(arr, idx):
    """Stack arr[..., i] for i in idx along a new last axis (explicit, no slicing)."""
    arr = np.asarray(arr)
    if len(idx) == 0:
        return np.empty(arr.shape[:-1] + (0,), dtype=arr.dtype)
    return np.stack([arr[..., i] for i in idx], axis=-1)

# ----------------------------------------------------------------------------- statistics of one chain

def chain_mean(c):
    return math.fsum(float(v) for v in c) / len(c)

def chain_var(c):
    m = chain_mean(c)
    return math.fsum((float(v) - m) ** 2 for v in c) / len(c)

def chain_std(c):
    return math.sqrt(chain_var(c))

def chain_percentile(c, q):
    """Linear-interpolation percentile (numpy's default 'linear' method), q in [0, 100]."""
    s = sorted(float(v) for v in c)
    n = len(s)
    pos = (n - 1) * (float(q) / 100.0)
    lo = int(math.floor(pos))
    hi = min(lo + 1, n - 1)
    frac = pos - lo
    return s[lo] + (s[hi] - s[lo]) * frac

def chain_median(c):
    s = sorted(float(v) for v in c)
    n = len(s)
    return s[n // 2] if n % 2 else 0.5 * (s[n // 2 - 1] + s[n // 2])

def _guard(fn, npfn):
    """Chains with non-finite entries are left to numpy's 1-D function (trusted base)."""
    def f(c):
        c = np.asarray(c, dtype=float)
        if not np.all(np.isfinite(c)):
            with np.errstate(all="ignore"):
                return float(npfn(c))
        return fn(c)
    return f

STAT_FUNCS = {"mean": _guard(chain_mean, np.mean), "median": _guard(chain_median, np.median),
              "variance": _guard(chain_var, np.var), "std": _guard(chain_std, np.std)}

def per_coordinate(arr, fn):
    """Apply fn(chain) for every coordinate (all axes but the last one)."""
    arr = np.asarray(arr)
    out = np.empty(arr.shape[:-1], dtype=float)
    for ix in np.ndindex(*arr.shape[:-1]):
        out[ix] = fn(arr[ix])
    return out

def ci_bounds(arr, percent):
    lb = (100.0 - percent) / 2.0
    ub = 100.0 - lb
    lo = per_coordinate(arr, _guard(lambda c: chain_percentile(c, lb), lambda c: np.percentile(c, lb)))
    hi = per_coordinate(arr, _guard(lambda c: chain_percentile(c, ub), lambda c: np.percentile(c, ub)))
    return lo, hi

# ----------------------------------------------------------------------------- reference geometry

class RefGeom:
    """par2fun / fun2par / fun2vec / vec2fun act on ONE sample (no sample axis). A map that is None is
    'not available' (the library is expected to refuse or the step is left unjudged)."""
    def __init__(self, par_dim, fun_shape, par2fun, fun2par=None, fun2vec=None, vec2fun=None, funvec_dim=None,
                 independent=True):
        # fun_shape None: function values are not arrays (a sample set of them is a python list)
        self.par_dim, self.fun_shape = int(par_dim), (tuple(fun_shape) if fun_shape is not None else None)
        self.par2fun, self.fun2par = par2fun, fun2par
        if self.fun_shape is not None and len(self.fun_shape) == 1 and fun2vec is None:
            fun2vec = lambda f: f
            vec2fun = lambda v: v
            funvec_dim = self.fun_shape[0]
        self.fun2vec, self.vec2fun, self.funvec_dim = fun2vec, vec2fun, funvec_dim
        self.independent = independent   # False: maps are the library's own per-sample maps

def identity_geom(n):
    return RefGeom(n, (n,), lambda p: np.asarray(p, dtype=float), fun2par=lambda f: np.asarray(f, dtype=float))

def image_geom(rows, cols, order):
    def p2f(p):
        p = np.asarray(p, dtype=float)
        img = np.empty((rows, cols))
        k = 0
        if order == "C":
            for i in range(rows):
                for j in range(cols):
                    img[i, j] = p[k]; k += 1
        else:
            for j in range(cols):
                for i in range(rows):
                    img[i, j] = p[k]; k += 1
        return img
    def f2p(f):
        f = np.asarray(f, dtype=float)
        if order == "C":
            return np.array([f[i, j] for i in range(rows) for j in range(cols)], dtype=float)
        return np.array([f[i, j] for j in range(cols) for i in range(rows)], dtype=float)
    return RefGeom(rows * cols, (rows, cols), p2f, fun2par=f2p, fun2vec=f2p, vec2fun=p2f, funvec_dim=rows * cols)

def cont2d_geom(n0, n1):
    g = image_geom(n0, n1, "C")
    return RefGeom(n0 * n1, (n0, n1), g.par2fun, fun2par=g.fun2par, fun2vec=None, vec2fun=None, funvec_dim=None)

def _softmax(x):
    e = np.exp(x - np.max(x))
    return e / np.sum(e)

MAPS = {
    "sq1": (lambda x: x ** 2 + 1, lambda y: np.sqrt(y - 1)),
    "exp": (lambda x: np.exp(x), lambda y: np.log(y)),
    "affine": (lambda x: 2.0 * x + 3.0, lambda y: (y - 3.0) / 2.0),
    # maps that couple the entries of ONE function value (defined per sample); all of them return an array of
    # the input's shape also when handed a whole block of samples, where they would couple entries across samples
    "softmax": (_softmax, None),
    "unitnorm": (lambda x: x / np.linalg.norm(x), None),
    "sumnorm": (lambda x: x / np.sum(x), None),
    "sortlast": (lambda x: np.sort(x), None),                       # sorts along the last axis of what it is given
    "cumsum": (lambda x: np.cumsum(x).reshape(np.shape(x)), lambda y: np.diff(np.ravel(y), prepend=0.0).reshape(np.shape(y))),
    "demean": (lambda x: x - np.mean(x), None),
    "maxscale": (lambda x: x / np.max(np.abs(x)), None),
    # maps returning a view of / the very object they were given
    "flipview": (lambda x: x[::-1], lambda y: y[::-1]),
    "selfview": (lambda x: x, lambda y: y),
}
COUPLING_MAPS = ["softmax", "unitnorm", "sumnorm", "sortlast", "cumsum", "demean", "maxscale"]
ALL_MAPS = ["sq1", "exp", "affine", "flipview", "selfview"] + COUPLING_MAPS

def mapped_geom(base, mapname, with_imap=True):
    fmap, imap = MAPS[mapname]
    f2p = (lambda f: base.fun2par(imap(np.asarray(f, dtype=float)))) if (with_imap and imap is not None and base.fun2par is not None) else None
    return RefGeom(base.par_dim, base.fun_shape, lambda p: fmap(base.par2fun(p)), fun2par=f2p,
                   fun2vec=base.fun2vec, vec2fun=base.vec2fun, funvec_dim=base.funvec_dim)

# ----------------------------------------------------------------------------- representation state machine

class RefSamples:
    def __init__(self, arr, is_par, is_vec):
        # arr: ndarray with the sample axis last, or a python list of non-array function values
        self.arr = arr if isinstance(arr, list) else np.asarray(arr)
        self.is_par, self.is_vec = bool(is_par), bool(is_vec)

    @property
    def is_list(self):
        return isinstance(self.arr, list)

    @property
    def Ns(self):
        return len(self.arr) if self.is_list else self.arr.shape[-1]

    def columns(self):
        return list(self.arr) if self.is_list else [self.arr[..., i] for i in range(self.Ns)]

class Unavailable(Exception):
    """The reference has no map for this step (library may refuse; a value is left unjudged)."""

class MustRefuse(Exception):
    """The documentation says this call raises."""

def _stack(vals, shape):
    out = np.empty(tuple(shape) + (len(vals),), dtype=float)
    for i, v in enumerate(vals):
        out[..., i] = np.asarray(v, dtype=float).reshape(shape)
    return out

def ref_apply(state, op, geom):
    """Return the RefSamples after `op`; `same=True` in the second slot if the documentation says the
    object itself is returned."""
    kind = op[0]
    if kind == "burnthin":
        b, t = op[1], op[2]
        if b >= state.Ns:
            raise MustRefuse(f"burn-in {b} >= Ns {state.Ns}")
        if state.is_list:
            raise Unavailable("burnthin of a list of non-array function values")
        return RefSamples(take_last_axis(state.arr, kept_indices(state.Ns, b, t)), state.is_par, state.is_vec), False
    if kind == "funvals":
        if not state.is_par and not state.is_vec:
            return state, True
        conv = geom.par2fun if state.is_par else geom.vec2fun
        if conv is None:
            raise Unavailable("vec2fun")
        if geom.fun_shape is None:
            return RefSamples([conv(c) for c in state.columns()], False, False), False
        arr = _stack([conv(c) for c in state.columns()], geom.fun_shape)
        return RefSamples(arr, False, arr.ndim <= 2), False
    if kind == "vector":
        if state.is_vec or state.is_par:
            return state, True
        if geom.fun2vec is None:
            raise Unavailable("fun2vec")
        arr = _stack([geom.fun2vec(c) for c in state.columns()], (geom.funvec_dim,))
        return RefSamples(arr, state.is_par, True), False
    if kind == "parameters":
        if state.is_par:
            return state, True
        if geom.fun2par is None:
            raise Unavailable("fun2par")
        if not state.is_vec:
            conv = geom.fun2par
        else:
            if geom.vec2fun is None:
                raise Unavailable("vec2fun")
            conv = lambda v: geom.fun2par(geom.vec2fun(v))
        arr = _stack([conv(c) for c in state.columns()], (geom.par_dim,))
        return RefSamples(arr, True, True), False
    raise ValueError(op)

# ----------------------------------------------------------------------------- self test (vs numpy)

def selftest(rs):
    """Returns a list of problems (empty = fine)."""
    bad = []
    for n in (1, 2, 3, 7, 10, 33):
        c = rs.standard_normal(n) * 3
        ci = np.round(c).astype(int)          # ties
        for chain in (c, ci, np.full(n, 2.5)):
            for name, fn, npf in (("mean", chain_mean, np.mean), ("median", chain_median, np.median),
                                  ("var", chain_var, np.var), ("std", chain_std, np.std)):
                if abs(fn(chain) - npf(chain)) > 1e-12 * max(1.0, abs(npf(chain))):
                    bad.append(f"{name} n={n}")
            for q in (0, 2.5, 5, 25, 50, 75, 97.5, 100, float(rs.uniform(0, 100))):
                if abs(chain_percentile(chain, q) - np.percentile(chain, q)) > 1e-12 * max(1.0, np.max(np.abs(chain))):
                    bad.append(f"percentile n={n} q={q}")
    for Ns in (1, 2, 5, 9):
        a = rs.standard_normal((2, 3, Ns))
        for b in range(0, Ns):
            for t in range(1, Ns + 3):
                if not np.array_equal(take_last_axis(a, kept_indices(Ns, b, t)), a[:, :, b::t]):
                    bad.append(f"slice Ns={Ns} b={b} t={t}")
    for order in ("C", "F"):
        g = image_geom(3, 4, order)
        p = rs.standard_normal(12)
        if not np.array_equal(g.par2fun(p), p.reshape((3, 4), order=order)):
            bad.append("image par2fun " + order)
        if not np.array_equal(g.fun2par(g.par2fun(p)), p):
            bad.append("image roundtrip " + order)
    return bad
