"""Reference model for C10 (never imports cuqi).

* Gamma kernel and a least-squares read-off of (shape, rate) from any function of the form
  c + (shape-1) log s - rate s sampled along the s axis (this is how the check reads the
  hyper-parameter dependence off the *target's own* log-density).
* The textbook Gaussian/Gamma conjugate update written from the literature
  (y | s ~ N(mu, (s P)^-1) with P of full rank m, s ~ Gamma(alpha, beta)
   =>  s | y ~ Gamma(alpha + m/2, beta + (y-mu)^T P (y-mu) / 2)).
* Dense Gaussian log-density with precision s*P (pseudo-determinant on the range of P).
* Kolmogorov distance of a sample to a Gamma law.
"""
import math
import numpy as np


def gamma_kernel(s, shape, rate):
    s = np.asarray(s, dtype=float)
    return (shape - 1.0) * np.log(s) - rate * s


def log_grid(center, decades=3.0, n=13):
    """n points spanning `decades` decades, geometrically centred on `center`."""
    t = np.linspace(-decades / 2.0, decades / 2.0, n)
    return float(center) * 10.0 ** t


def fit_gamma_form(s, logd):
    """Least-squares fit of logd(s) = c + a*log(s) - r*s.
    Returns dict(shape=a+1, rate=r, const=c, resid=max|residual|, scale=max|logd|)."""
    s = np.asarray(s, dtype=float).ravel()
    y = np.asarray(logd, dtype=float).ravel()
    if s.size != y.size or s.size < 5 or not np.all(np.isfinite(y)) or not np.all(s > 0):
        return None
    B = np.column_stack([np.ones_like(s), np.log(s), s / np.max(s)])
    coef, *_ = np.linalg.lstsq(B, y, rcond=None)
    res = y - B @ coef
    return {"shape": float(coef[1] + 1.0), "rate": float(-coef[2] / np.max(s)), "const": float(coef[0]),
            "resid": float(np.max(np.abs(res))), "scale": float(max(np.max(np.abs(y)), 1.0))}


def locate_bulk(logd_fn, lo=-15.0, hi=15.0):
    """log10 of the point where the density of log(s), i.e. logd(s) + log(s), is largest on 1e-15..1e15
    (exists for every proper density on s > 0, also for monotone ones such as Gamma with shape <= 1).
    Coarse half-decade scan, then a 0.05-decade scan around the best point.  None when nothing is finite."""
    def g(t):
        with np.errstate(all="ignore"):
            try:
                v = float(logd_fn(10.0 ** t)) + t * math.log(10.0)
            except (FloatingPointError, OverflowError, ZeroDivisionError):
                return -np.inf
        return v if np.isfinite(v) else -np.inf
    ts = np.arange(lo, hi + 1e-9, 0.5)
    vs = np.array([g(t) for t in ts])
    if not np.any(np.isfinite(vs)):
        return None
    t0 = ts[int(np.argmax(vs))]
    ts2 = np.arange(t0 - 0.5, t0 + 0.5 + 1e-9, 0.05)
    vs2 = np.array([g(t) for t in ts2])
    return float(ts2[int(np.argmax(vs2))])


def read_off(logd_fn, n=13, decades=3.0):
    """Read-off of the Gamma form of `logd_fn` (a scalar function of s > 0) over `decades` decades around the
    bulk of the density itself (located on 1e-15..1e15, so that extreme but legal scales are judged where the
    mass is).  Returns (fit dict or None, grid, values)."""
    t = locate_bulk(logd_fn)
    center = 1.0 if t is None else 10.0 ** t
    g = log_grid(center, decades, n)
    with np.errstate(all="ignore"):
        v = np.array([logd_fn(x) for x in g], dtype=float)
    fit = fit_gamma_form(g, v)
    if fit is not None:
        fit["center"] = float(center)
    return fit, g, v


def conjugate_update(m, quad, alpha, beta):
    """Gamma(alpha + m/2, beta + quad/2), quad = (y-mu)^T P (y-mu) at unit hyper-parameter, P of rank m."""
    return float(alpha) + 0.5 * float(m), float(beta) + 0.5 * float(quad)


def gaussian_logpdf_prec(y, mu, P, s):
    """log N(y; mu, (s P)^-1) for symmetric positive definite P (dense)."""
    y = np.asarray(y, dtype=float).ravel(); mu = np.broadcast_to(np.asarray(mu, dtype=float).ravel(), y.shape)
    P = np.asarray(P, dtype=float)
    m = y.size
    sign, logdet = np.linalg.slogdet(P)
    r = y - mu
    return 0.5 * (m * (math.log(s) - math.log(2 * math.pi)) + logdet) - 0.5 * s * float(r @ P @ r)


def gamma_logpdf(s, shape, rate):
    return shape * math.log(rate) - math.lgamma(shape) + (shape - 1.0) * math.log(s) - rate * s


def ks_to_gamma(x, shape, rate):
    """(D, signed D, p) of the one-sample Kolmogorov-Smirnov test of x against Gamma(shape, rate)."""
    from scipy import stats, special
    x = np.sort(np.asarray(x, dtype=float).ravel())
    n = x.size
    F = special.gammainc(shape, rate * np.clip(x, 0, None))
    dplus = np.max(np.arange(1, n + 1) / n - F)
    dminus = np.max(F - np.arange(0, n) / n)
    D = max(dplus, dminus)
    p = float(stats.kstwobign.sf(D * math.sqrt(n)))
    return float(D), float(dplus if dplus >= dminus else -dminus), p


def selftest():
    """Returns a list of problems (empty = fine)."""
    from scipy import stats
    bad = []
    rs = np.random.RandomState(12345)
    # 1. the read-off recovers the parameters of scipy's gamma log-density
    for shape, rate in ((1.0, 1e-4), (0.3, 2.0), (51.0, 730.0), (7.5, 0.02), (11.0, 1e-10), (2.5, 3e11), (0.8, 1e-13)):
        f, g, v = read_off(lambda s: float(stats.gamma.logpdf(s, a=shape, scale=1.0 / rate)))
        if f is None or abs(f["shape"] - shape) > 1e-8 * max(1, shape) or abs(f["rate"] - rate) > 1e-8 * rate or f["resid"] > 1e-9 * f["scale"]:
            bad.append(f"read-off of scipy gamma({shape},{rate}) gave {f}")
        if abs(gamma_logpdf(1.7, shape, rate) - stats.gamma.logpdf(1.7, a=shape, scale=1.0 / rate)) > 1e-9 * max(1.0, abs(gamma_logpdf(1.7, shape, rate))):
            bad.append("gamma_logpdf disagrees with scipy")
    # 2. the textbook update agrees with the read-off of scipy's joint density
    for m in (1, 4, 9):
        A = rs.standard_normal((m, m)); P = A @ A.T + m * np.eye(m)
        mu = rs.standard_normal(m); y = rs.standard_normal(m) * 3
        alpha, beta = 2.5, 0.7
        def joint(s):
            return float(stats.multivariate_normal.logpdf(y, mean=mu, cov=np.linalg.inv(s * P)) + stats.gamma.logpdf(s, a=alpha, scale=1 / beta))
        f, g, v = read_off(joint)
        sh, ra = conjugate_update(m, (y - mu) @ P @ (y - mu), alpha, beta)
        if f is None or abs(f["shape"] - sh) > 1e-7 * sh or abs(f["rate"] - ra) > 1e-7 * ra:
            bad.append(f"conjugate update m={m}: read-off {f} vs ({sh},{ra})")
        if abs(gaussian_logpdf_prec(y, mu, P, 1.3) - stats.multivariate_normal.logpdf(y, mean=mu, cov=np.linalg.inv(1.3 * P))) > 1e-8 * 50:
            bad.append("gaussian_logpdf_prec disagrees with scipy")
    # 3. a non-Gamma dependence is exposed by the residual
    f, g, v = read_off(lambda s: float(stats.gamma.logpdf(s ** 2, a=3.0, scale=0.5)))
    if f is not None and f["resid"] < 1e-3 * f["scale"]:
        bad.append("read-off does not expose a non-Gamma dependence")
    # 4. KS: exact sample passes, shifted shape fails
    x = rs.gamma(4.0, 1 / 2.0, size=4000)
    if ks_to_gamma(x, 4.0, 2.0)[2] < 1e-4:
        bad.append("KS rejects an exact gamma sample")
    if ks_to_gamma(x, 5.0, 2.0)[2] > 1e-7:
        bad.append("KS does not reject a wrong shape")
    d = stats.kstest(x, lambda t: stats.gamma.cdf(t, a=4.0, scale=0.5))
    if abs(d.statistic - ks_to_gamma(x, 4.0, 2.0)[0]) > 1e-10:
        bad.append("KS statistic disagrees with scipy.stats.kstest")
    return bad
