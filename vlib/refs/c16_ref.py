"""Reference models for C16 (solvers satisfy their optimality conditions).

Pure numpy/scipy, never imports cuqi.  Contents
  * generators of well-conditioned problems (prescribed singular values, bounded condition number)
  * dense references for the (shifted, preconditioned) normal equations, incl. the minimum-norm
    limit CGLS converges to from a given start in the rank-deficient case
  * the three proximal maps written coordinate by coordinate, a brute-force 1-D grid argmin,
    and their variational inequalities
  * independent minimisers of  1/2||Ax-b||^2 + g(x)  (coordinate descent for l1, scipy nnls / bvls)
  * small non-linear least-squares problems with analytic Jacobians (for LM / LS)
  * smooth test functions with gradients (for the scipy wrappers)
"""
import math
import numpy as np
import scipy.sparse as sps
import scipy.optimize as sopt

EPS = np.finfo(float).eps

# --------------------------------------------------------------------------- problem generators

def orth(rs, n):
    q, r = np.linalg.qr(rs.standard_normal((n, n)))
    return q * np.sign(np.diag(r))

def dense_matrix(rs, m, n, cond, smax=None):
    """m x n matrix of full rank min(m,n) whose non-zero singular values are log-uniform in
    [smax/cond, smax] (both ends attained)."""
    k = min(m, n)
    smax = float(rs.uniform(0.5, 3.0)) if smax is None else smax
    if k == 1:
        s = np.array([smax])
    else:
        s = np.exp(rs.uniform(math.log(smax / cond), math.log(smax), k))
        s[0], s[-1] = smax, smax / cond
    U, V = orth(rs, m), orth(rs, n)
    return (U[:, :k] * s) @ V[:, :k].T

def sparse_matrix(rs, m, n, cond_max, density=0.3):
    """Random sparse m x n (csr) matrix of full rank min(m,n) with cond <= cond_max by construction:
    a strong 'diagonal' is added until the dense SVD confirms the bound."""
    k = min(m, n)
    R = sps.random(m, n, density=density, random_state=rs, data_rvs=rs.standard_normal).toarray()
    w = 1.0
    for _ in range(40):
        A = R.copy()
        A[np.arange(k), np.arange(k)] += w * (1.0 + 0.5 * rs.uniform(size=k))
        s = np.linalg.svd(A, compute_uv=False)[:k]
        if s[-1] > 0 and s[0] / s[-1] <= cond_max:
            return sps.csr_matrix(A)
        w *= 2.0
    raise RuntimeError("could not build a well conditioned sparse matrix")

def svals(A):
    A = A.toarray() if sps.issparse(A) else np.asarray(A)
    s = np.linalg.svd(A, compute_uv=False)
    return s[:min(A.shape)]

def preconditioner(rs, n, kind):
    """Sparse (csc) non-singular preconditioner with cond <= ~50.  kinds: diag, spd (tridiagonal SPD),
    upper (non-symmetric upper bidiagonal+), general (non-symmetric banded)."""
    d = rs.uniform(0.5, 3.0, n)
    if kind == "diag":
        P = np.diag(d)
    elif kind == "spd":
        e = rs.uniform(-0.4, 0.4, n - 1)
        P = np.diag(d + 1.0) + np.diag(e, 1) + np.diag(e, -1)
    elif kind == "upper":
        P = np.diag(d + 0.5) + np.diag(rs.uniform(-0.8, 0.8, n - 1), 1)
        if n > 2:
            P += np.diag(rs.uniform(-0.5, 0.5, n - 2), 2)
    elif kind == "general":
        P = np.diag(d + 1.5) + np.diag(rs.uniform(-0.7, 0.7, n - 1), 1) + np.diag(rs.uniform(-0.7, 0.7, n - 1), -1)
    else:
        raise ValueError(kind)
    return sps.csc_matrix(P)

# --------------------------------------------------------------------------- normal equations

def dense(A):
    return A.toarray() if sps.issparse(A) else np.asarray(A, dtype=float)

def ne_residual(A, b, x, shift=0.0, P=None):
    """A^T(b-Ax) - shift*x, optionally multiplied by P^{-T} (the quantity PCGLS monitors)."""
    A = dense(A)
    g = A.T @ (b - A @ x) - shift * x
    if P is not None:
        g = np.linalg.solve(dense(P).T, g)
    return g

def ne_solution(A, b, shift, x0, P=None):
    """Limit of (P)CGLS from x0 in exact arithmetic, and the smallest eigenvalue of the operator that
    maps the error (in the iteration's own variable) to the monitored residual.
    Returns (x_star, lam_min, unique)."""
    A = dense(A)
    m, n = A.shape
    Pd = np.eye(n) if P is None else dense(P)
    B = A @ np.linalg.inv(Pd)                       # operator in the variable y = P x
    s = np.linalg.svd(B, compute_uv=False)
    k = min(m, n)
    full_col = (m >= n)
    if shift > 0:
        H = A.T @ A + shift * np.eye(n)
        x = np.linalg.solve(H, A.T @ b)
        Pi = np.linalg.inv(Pd)
        return x, float(np.linalg.eigvalsh(Pi.T @ H @ Pi).min()), True
    if full_col:
        x = np.linalg.lstsq(A, b, rcond=None)[0]
        return x, float(s[n - 1] ** 2), True
    # rank deficient (under-determined), shift == 0: start + minimum-norm correction in the y variable
    y0 = Pd @ x0
    y = y0 + np.linalg.pinv(B) @ (b - A @ x0)
    return np.linalg.solve(Pd, y), float(s[k - 1] ** 2), False

# --------------------------------------------------------------------------- proximal maps

def soft(x, g):
    x = np.asarray(x, dtype=float)
    out = np.zeros_like(x)
    it = np.nditer(x, flags=["multi_index"])
    g = np.broadcast_to(np.asarray(g, dtype=float), x.shape)
    for v in it:
        i = it.multi_index
        v = float(v)
        if v > g[i]:
            out[i] = v - g[i]
        elif v < -g[i]:
            out[i] = v + g[i]
        else:
            out[i] = 0.0
    return out

def proj_box(x, lo, hi):
    x = np.asarray(x, dtype=float)
    lo = np.broadcast_to(np.asarray(lo, dtype=float), x.shape)
    hi = np.broadcast_to(np.asarray(hi, dtype=float), x.shape)
    out = np.empty_like(x)
    it = np.nditer(x, flags=["multi_index"])
    for v in it:
        i = it.multi_index
        v = float(v)
        out[i] = lo[i] if v < lo[i] else (hi[i] if v > hi[i] else v)
    return out

def proj_nonneg(x):
    return proj_box(x, 0.0, np.inf)

def prox_ref(kind, x, gamma=None, lo=None, hi=None):
    if kind == "l1":
        return soft(x, gamma)
    if kind == "nonneg":
        return proj_nonneg(x)
    return proj_box(x, 0.0 if lo is None else lo, 1.0 if hi is None else hi)

def grid_argmin(kind, x, gamma=None, lo=None, hi=None, npts=4001):
    """Brute force: per coordinate, minimise 1/2 (z-x_i)^2 + gamma|z| (l1) or 1/2 (z-x_i)^2 over the
    feasible interval on a uniform grid.  Returns (argmin array, grid spacing array).  The objective
    is convex in z, so the exact minimiser lies within one spacing of the grid argmin."""
    x = np.asarray(x, dtype=float)
    out, hs = np.empty_like(x), np.empty_like(x)
    lo_b = np.broadcast_to(np.asarray(-np.inf if lo is None else lo, dtype=float), x.shape)
    hi_b = np.broadcast_to(np.asarray(np.inf if hi is None else hi, dtype=float), x.shape)
    g_b = np.broadcast_to(np.asarray(0.0 if gamma is None else gamma, dtype=float), x.shape)
    it = np.nditer(x, flags=["multi_index"])
    for v in it:
        i = it.multi_index
        v = float(v)
        # window that certainly contains the minimiser (it lies between 0 / the feasible set and x_i)
        a = max(lo_b[i], min(v, 0.0) - 1.0)
        c = min(hi_b[i], max(v, 0.0) + 1.0)
        if c < a:   # feasible interval lies completely on one side of the window: nearest end point
            a, c = (lo_b[i], lo_b[i]) if lo_b[i] > v else (hi_b[i], hi_b[i])
        z = np.linspace(a, c, npts)
        obj = 0.5 * (z - v) ** 2 + (g_b[i] * np.abs(z) if kind == "l1" else 0.0)
        out[i] = z[int(np.argmin(obj))]
        hs[i] = (c - a) / (npts - 1)
    return out, hs

def reg_value(kind, x, lam=1.0, lo=None, hi=None, feas_tol=0.0):
    """g(x): lam*||x||_1, or the indicator of the set (inf outside)."""
    if kind == "l1":
        return lam * float(np.sum(np.abs(x)))
    l = 0.0 if (lo is None) else lo
    h = (np.inf if kind == "nonneg" else 1.0) if hi is None else hi
    if np.any(x < np.asarray(l) - feas_tol) or np.any(x > np.asarray(h) + feas_tol):
        return np.inf
    return 0.0

def objective(A, b, x, kind, lam=1.0, lo=None, hi=None):
    A = dense(A)
    r = A @ x - b
    return 0.5 * float(r @ r) + reg_value(kind, x, lam, lo, hi)

def prox_grad_map(A, b, x, t, kind, lam=1.0, lo=None, hi=None):
    A = dense(A)
    z = x - t * (A.T @ (A @ x - b))
    return prox_ref(kind, z, gamma=lam * t, lo=lo, hi=hi)

def l1_coordinate_descent(A, b, lam, tol=1e-14, maxsweeps=20000):
    """min 1/2||Ax-b||^2 + lam||x||_1 by cyclic coordinate descent (independent algorithm)."""
    A = dense(A)
    m, n = A.shape
    x = np.zeros(n)
    r = b.copy()
    cn = np.sum(A * A, axis=0)
    for sweep in range(maxsweeps):
        dmax = 0.0
        for j in range(n):
            if cn[j] == 0:
                continue
            aj = A[:, j]
            rho = aj @ r + cn[j] * x[j]
            new = math.copysign(max(abs(rho) - lam, 0.0), rho) / cn[j]
            d = new - x[j]
            if d != 0.0:
                r -= aj * d
                x[j] = new
                dmax = max(dmax, abs(d))
        if dmax <= tol * (1.0 + np.max(np.abs(x))):
            return x, True
    return x, False

def constrained_reference(A, b, kind, lam=1.0, lo=None, hi=None):
    """Independent minimiser of the FISTA objective (only meaningful when A has full column rank)."""
    A = dense(A)
    n = A.shape[1]
    if kind == "l1":
        return l1_coordinate_descent(A, b, lam)
    try:
        if kind == "nonneg":
            x, _ = sopt.nnls(A, b, maxiter=50 * n + 200)
            return x, True
        l = np.broadcast_to(np.asarray(0.0 if lo is None else lo, dtype=float), (n,))
        h = np.broadcast_to(np.asarray(1.0 if hi is None else hi, dtype=float), (n,))
        res = sopt.lsq_linear(A, b, bounds=(l, h), method="bvls", tol=1e-14, max_iter=50 * n + 200)
        return res.x, bool(res.status > 0)
    except Exception:  # noqa  (reference did not converge: the caller skips the comparison)
        return None, False

# --------------------------------------------------------------------------- non-linear least squares problems

class NLS:
    """r(x), J(x) (dense), a start x0 inside the basin of a regular local minimiser."""
    def __init__(self, name, r, J, x0, n, m):
        self.name, self.r, self.J, self.x0, self.n, self.m = name, r, J, x0, n, m

def nls_problem(name, rs):
    if name == "expfit":
        m = int(rs.randint(8, 25)); t = np.linspace(0, 2.5, m)
        p = np.array([rs.uniform(1, 3), rs.uniform(0.6, 2.0), rs.uniform(-0.5, 0.5)])
        d = p[0] * np.exp(-p[1] * t) + p[2] + 0.03 * rs.standard_normal(m)
        r = lambda x: x[0] * np.exp(-x[1] * t) + x[2] - d
        J = lambda x: np.stack([np.exp(-x[1] * t), -x[0] * t * np.exp(-x[1] * t), np.ones_like(t)], 1)
        x0 = p * (1 + 0.2 * rs.uniform(-1, 1, 3)) + 0.05 * rs.uniform(-1, 1, 3)
    elif name == "twoparam":
        m = int(rs.randint(5, 15)); t = np.linspace(1, 9, m)
        p = np.array([rs.uniform(0.5, 2), rs.uniform(0.05, 0.4)])
        d = p[0] * (1 - np.exp(-p[1] * t)) + 0.01 * rs.standard_normal(m)
        r = lambda x: x[0] * (1 - np.exp(-x[1] * t)) - d
        J = lambda x: np.stack([1 - np.exp(-x[1] * t), x[0] * t * np.exp(-x[1] * t)], 1)
        x0 = p * (1 + 0.3 * rs.uniform(-1, 1, 2))
    elif name == "rosen":
        n = int(rs.randint(2, 7))
        def r(x):
            return np.concatenate([10.0 * (x[1:] - x[:-1] ** 2), 1.0 - x[:-1]])
        def J(x):
            Jm = np.zeros((2 * (n - 1), n))
            for i in range(n - 1):
                Jm[i, i] = -20.0 * x[i]; Jm[i, i + 1] = 10.0
                Jm[n - 1 + i, i] = -1.0
            return Jm
        x0 = 1.0 + 0.4 * rs.uniform(-1, 1, n)
    elif name == "linear":
        n = int(rs.randint(2, 9)); m = n + int(rs.randint(0, 8))
        A = dense_matrix(rs, m, n, 50.0); b = rs.standard_normal(m)
        r = lambda x: A @ x - b
        J = lambda x: A.copy()
        x0 = rs.standard_normal(n)
    elif name == "logistic":
        m = int(rs.randint(10, 30)); t = np.linspace(-3, 3, m)
        p = np.array([rs.uniform(1, 3), rs.uniform(0.8, 2.0), rs.uniform(-0.7, 0.7)])
        sig = lambda x: 1.0 / (1.0 + np.exp(-x[1] * (t - x[2])))
        d = p[0] * sig(p) + 0.02 * rs.standard_normal(m)
        r = lambda x: x[0] * sig(x) - d
        def J(x):
            s = sig(x); ds = s * (1 - s)
            return np.stack([s, x[0] * ds * (t - x[2]), -x[0] * ds * x[1]], 1)
        x0 = p * (1 + 0.15 * rs.uniform(-1, 1, 3)) + 0.05 * rs.uniform(-1, 1, 3)
    elif name == "circle":
        m = int(rs.randint(8, 25)); th = rs.uniform(0, 2 * np.pi, m)
        c = rs.uniform(-1, 1, 2); R = rs.uniform(1, 3)
        px = c[0] + R * np.cos(th) + 0.03 * rs.standard_normal(m)
        py = c[1] + R * np.sin(th) + 0.03 * rs.standard_normal(m)
        dist = lambda x: np.sqrt((px - x[0]) ** 2 + (py - x[1]) ** 2)
        r = lambda x: dist(x) - x[2]
        def J(x):
            dd = dist(x)
            return np.stack([-(px - x[0]) / dd, -(py - x[1]) / dd, -np.ones(m)], 1)
        x0 = np.array([c[0], c[1], R]) + 0.3 * rs.uniform(-1, 1, 3)
    else:
        raise ValueError(name)
    x0 = np.asarray(x0, dtype=float)
    return NLS(name, r, J, x0, len(x0), len(r(x0)))

NLS_NAMES = ("expfit", "twoparam", "rosen", "linear", "logistic", "circle")

def fd_jacobian(r, x, h=1e-6):
    n = len(x); cols = []
    for j in range(n):
        e = np.zeros(n); e[j] = h
        cols.append((r(x + e) - r(x - e)) / (2 * h))
    return np.stack(cols, 1)

# --------------------------------------------------------------------------- smooth test functions (wrappers)

class Smooth:
    def __init__(self, name, f, g, x0, n, xstar=None):
        self.name, self.f, self.g, self.x0, self.n, self.xstar = name, f, g, x0, n, xstar

def smooth_function(name, rs):
    """Functions to be MINIMISED (the maximisation tests use their negatives)."""
    if name == "quad":
        n = int(rs.randint(2, 7))
        M = dense_matrix(rs, n, n, 20.0); Q = M.T @ M; c = rs.standard_normal(n)
        f = lambda x: 0.5 * float((x - c) @ Q @ (x - c)) + 1.5
        g = lambda x: Q @ (x - c)
        return Smooth(name, f, g, c + rs.standard_normal(n), n, c)
    if name == "rosen":
        n = int(rs.randint(2, 5))
        return Smooth(name, lambda x: float(sopt.rosen(x)), lambda x: sopt.rosen_der(x),
                      1.0 + 0.3 * rs.uniform(-1, 1, n), n, np.ones(n))
    if name == "lse":
        n = int(rs.randint(2, 6)); k = n + 3
        B = rs.standard_normal((k, n)); d = rs.standard_normal(k)
        def f(x):
            z = B @ x + d; zm = z.max()
            return float(zm + np.log(np.sum(np.exp(z - zm))) + 0.5 * x @ x)
        def g(x):
            z = B @ x + d; w = np.exp(z - z.max()); w /= w.sum()
            return B.T @ w + x
        return Smooth(name, f, g, rs.standard_normal(n), n, None)
    raise ValueError(name)

SMOOTH_NAMES = ("quad", "rosen", "lse")

def fd_gradient(f, x, h=1e-6):
    n = len(x); g = np.zeros(n)
    for j in range(n):
        e = np.zeros(n); e[j] = h
        g[j] = (f(x + e) - f(x - e)) / (2 * h)
    return g

# --------------------------------------------------------------------------- self test

def selftest():
    """Returns a list of failure messages (empty = fine)."""
    bad = []
    rs = np.random.RandomState(12345)
    # generators honour the condition number
    for (m, n, c) in ((12, 5, 1e3), (5, 12, 1e2), (7, 7, 10.0)):
        s = svals(dense_matrix(rs, m, n, c))
        if not (abs(s[0] / s[-1] - c) <= 1e-6 * c):
            bad.append(f"dense_matrix cond {s[0]/s[-1]} != {c}")
        s = svals(sparse_matrix(rs, m, n, c))
        if not (s[-1] > 0 and s[0] / s[-1] <= c):
            bad.append("sparse_matrix cond bound")
    for kind in ("diag", "spd", "upper", "general"):
        P = preconditioner(rs, 9, kind).toarray()
        if np.linalg.cond(P) > 60:
            bad.append(f"preconditioner {kind} cond {np.linalg.cond(P)}")
        if kind == "spd" and (not np.allclose(P, P.T) or np.linalg.eigvalsh(P).min() <= 0):
            bad.append("spd preconditioner not SPD")
    # normal-equation references vs numpy lstsq / pinv
    A = dense_matrix(rs, 10, 4, 100.0); b = rs.standard_normal(10)
    x, lam, uniq = ne_solution(A, b, 0.0, np.zeros(4))
    if not np.allclose(x, np.linalg.lstsq(A, b, rcond=None)[0], atol=1e-10) or not uniq:
        bad.append("ne_solution overdetermined")
    x, lam, uniq = ne_solution(A, b, 0.7, np.zeros(4))
    if np.linalg.norm(ne_residual(A, b, x, 0.7)) > 1e-10:
        bad.append("ne_solution shifted")
    A = dense_matrix(rs, 4, 9, 100.0); b = rs.standard_normal(4); x0 = rs.standard_normal(9)
    P = preconditioner(rs, 9, "upper")
    for PP in (None, P):
        x, lam, uniq = ne_solution(A, b, 0.0, x0, PP)
        if np.linalg.norm(A @ x - b) > 1e-10 or uniq:
            bad.append("ne_solution underdetermined residual")
        Pd = np.eye(9) if PP is None else PP.toarray()
        # the correction P(x-x0) must be orthogonal to null(A P^-1)
        B = A @ np.linalg.inv(Pd)
        N = np.eye(9) - np.linalg.pinv(B) @ B
        if np.linalg.norm(N @ (Pd @ (x - x0))) > 1e-9:
            bad.append("ne_solution underdetermined not minimum-norm correction")
    # proximal maps: loop formulas vs grid brute force and vs scipy/numpy closed forms
    x = np.concatenate([rs.standard_normal(20) * 3, [0.0, 0.5, -0.5, 1.0, -1.0]])
    for gam in (0.1, 0.5, 2.0):
        p = soft(x, gam); z, h = grid_argmin("l1", x, gamma=gam)
        if np.any(np.abs(p - z) > h * (1 + 1e-9)):
            bad.append("soft vs grid")
        if not np.array_equal(p, np.sign(x) * np.maximum(np.abs(x) - gam, 0)):
            bad.append("soft vs closed form")
    p = proj_box(x, -0.3, 1.2); z, h = grid_argmin("box", x, lo=-0.3, hi=1.2)
    if np.any(np.abs(p - z) > h * (1 + 1e-9)) or not np.array_equal(p, np.clip(x, -0.3, 1.2)):
        bad.append("proj_box vs grid/clip")
    p = proj_nonneg(x); z, h = grid_argmin("nonneg", x, lo=0.0)
    if np.any(np.abs(p - z) > h * (1 + 1e-9)) or not np.array_equal(p, np.maximum(x, 0)):
        bad.append("proj_nonneg vs grid/maximum")
    # independent minimisers are fixed points of the prox-gradient map
    A = dense_matrix(rs, 14, 6, 20.0); b = rs.standard_normal(14) * 2
    t = 0.7 / svals(A)[0] ** 2
    for kind, kw in (("l1", {"lam": 0.3}), ("nonneg", {}), ("box", {"lo": -0.2, "hi": 0.3})):
        xr, ok = constrained_reference(A, b, kind, **kw)
        if not ok or np.linalg.norm(xr - prox_grad_map(A, b, xr, t, kind, **kw)) > 1e-9:
            bad.append(f"constrained_reference {kind} is not a fixed point")
    # analytic Jacobians / gradients vs central differences
    for name in NLS_NAMES:
        pb = nls_problem(name, rs)
        Jd = fd_jacobian(pb.r, pb.x0)
        if not np.allclose(pb.J(pb.x0), Jd, rtol=1e-5, atol=1e-6):
            bad.append(f"jacobian of {name}")
    for name in SMOOTH_NAMES:
        fn = smooth_function(name, rs)
        if not np.allclose(fn.g(fn.x0), fd_gradient(fn.f, fn.x0), rtol=1e-5, atol=1e-5):
            bad.append(f"gradient of {name}")
    return bad
