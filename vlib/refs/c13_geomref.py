"""Reference models for the geometry maps (property C13), written from the class
docstrings of cuqi.geometry.  Explicit loops / dense algebra only; never imports cuqi.

Conventions: a *single* parameter vector is a 1D array of length par_dim, a function value has
the documented fun_shape, a batch carries the column index on a new last axis.
"""
import math
import numpy as np

# ----------------------------------------------------------------------------- pixels / nodes

def identity_par2fun(p, n):
    out = np.empty(n)
    for k in range(n):
        out[k] = p[k]
    return out

def image_par2fun(p, im_shape, order):
    """Image2D: order 'C' = row-major (pixel (i,j) <- p[i*ncols+j]); 'F' = column-major
    (pixel (i,j) <- p[i+nrows*j])."""
    nr, nc = im_shape
    img = np.empty((nr, nc))
    for i in range(nr):
        for j in range(nc):
            img[i, j] = p[i * nc + j] if order == "C" else p[i + nr * j]
    return img

def image_fun2par(img, im_shape, order):
    nr, nc = im_shape
    p = np.empty(nr * nc)
    for i in range(nr):
        for j in range(nc):
            p[(i * nc + j) if order == "C" else (i + nr * j)] = img[i, j]
    return p

def cont2d_par2fun(p, fun_shape):
    """Continuous2D: fun_shape = (len(grid[0]), len(grid[1])); node (i,j) <- p[i*n1+j]
    (row-major reshape, the layout its own fun2par inverts and the unit tests pin)."""
    return image_par2fun(p, fun_shape, "C")

def cont2d_fun2par(f, fun_shape):
    return image_fun2par(f, fun_shape, "C")

# ----------------------------------------------------------------------------- KL expansion

def kl_basis(N):
    """S[K,i] = sin(pi/N (i+1)(K+1/2)) for i < N-1, S[K,N-1] = (-1)^K / 2  (inverse DST-II)."""
    S = np.zeros((N, N))
    for K in range(N):
        for i in range(N - 1):
            S[K, i] = math.sin(math.pi / N * (i + 1) * (K + 0.5))
        S[K, N - 1] = (-1.0) ** K / 2.0
    return S

def kl_scaling(m, decay, normalizer):
    """1 / ((i+1)^gamma * tau), i = 0..m-1."""
    return np.array([1.0 / ((i + 1.0) ** decay * normalizer) for i in range(m)])

def kl_par2fun(p, N, decay, normalizer, S=None):
    S = kl_basis(N) if S is None else S
    m = len(p)
    c = kl_scaling(m, decay, normalizer)
    f = np.zeros(N)
    for i in range(m):
        f += c[i] * p[i] * S[:, i]
    return f

def kl_fun2par(f, N, m, decay, normalizer, S=None):
    """Closest element of the span of the first m scaled basis functions (least squares)."""
    S = kl_basis(N) if S is None else S
    c = kl_scaling(m, decay, normalizer)
    A = S[:, :m] * c[None, :]
    p, *_ = np.linalg.lstsq(A, np.asarray(f, dtype=float), rcond=None)
    return p

def klfull_par2fun(p, N, std, cor_len, nu, S=None):
    """KLExpansion_Full docstring: f = std^2/pi * sum_i tau^g/(tau+i^2)^g p_i S[:,i]."""
    S = kl_basis(N) if S is None else S
    tau = 1.0 / cor_len ** 2
    g = nu + 1.0
    f = np.zeros(N)
    for i in range(len(p)):
        f += (tau ** g / (tau + i ** 2) ** g) * p[i] * S[:, i]
    return std ** 2 / math.pi * f

# ----------------------------------------------------------------------------- step expansion

def step_documented(n_grid, n_steps):
    """Documented step of every node of a regular grid x_k = x0 + k*L/(n_grid-1), in exact
    integer arithmetic: step i owns (x0+i*L/n_steps, x0+(i+1)*L/n_steps], the first one is closed
    at x0.  Returns (step index per node, flag 'node coincides with an interior step boundary').
    A flagged node may legitimately land in the next step through round-off of the float grid."""
    d, on_boundary = [], []
    den = n_grid - 1
    for k in range(n_grid):
        if k == 0:
            d.append(0); on_boundary.append(False); continue
        num = k * n_steps                      # position in units of steps = num/den
        q, r = divmod(num, den)
        if r == 0:                             # exactly on boundary q -> belongs to step q-1
            d.append(q - 1)
            on_boundary.append(q < n_steps)    # the end point x_n is not an interior boundary
        else:
            d.append(q); on_boundary.append(False)
    return d, on_boundary

def step_par2fun(p, assignment):
    return np.array([p[a] for a in assignment], dtype=float)

def step_fun2par(f, assignment, n_steps, projection):
    out = np.empty(n_steps)
    for i in range(n_steps):
        vals = [f[k] for k, a in enumerate(assignment) if a == i]
        if not vals:
            out[i] = np.nan
        elif projection == "mean":
            out[i] = math.fsum(vals) / len(vals)
        elif projection == "max":
            out[i] = max(vals)
        else:
            out[i] = min(vals)
    return out

# ----------------------------------------------------------------------------- self test

def selftest():
    """Returns a list of problems (empty = fine).  Cross-checks against scipy / numpy."""
    from scipy.fftpack import idst, dst
    bad = []
    rs = np.random.RandomState(12345)
    for N in (2, 3, 7, 16, 31):
        S = kl_basis(N)
        x = rs.standard_normal(N)
        if not np.allclose(S @ x, idst(x) / 2, rtol=1e-12, atol=1e-12):
            bad.append("kl_basis disagrees with scipy.fftpack.idst for N=%d" % N)
        G = S.T @ S
        if not np.allclose(G, np.diag(np.diag(G)), atol=1e-10):
            bad.append("kl_basis not orthogonal for N=%d" % N)
        # truncated exact inverse == least squares (orthogonality)
        f = rs.standard_normal(N)
        full = np.linalg.solve(S, f)
        for m in (1, max(1, N // 2), N):
            c = kl_scaling(m, 1.7, 3.0)
            if not np.allclose(kl_fun2par(f, N, m, 1.7, 3.0, S) * c, full[:m], rtol=1e-9, atol=1e-11):
                bad.append("kl_fun2par (lstsq) != truncated inverse for N=%d m=%d" % (N, m))
        # inverse through scipy's forward DST-II
        if not np.allclose(full, dst(f) / N, rtol=1e-9, atol=1e-11):
            bad.append("inverse of kl_basis disagrees with scipy dst for N=%d" % N)
    for shape in ((2, 3), (1, 4), (3, 1), (4, 4)):
        p = rs.standard_normal(shape[0] * shape[1])
        for order in ("C", "F"):
            if not np.array_equal(image_par2fun(p, shape, order), p.reshape(shape, order=order)):
                bad.append("image_par2fun vs numpy reshape %s %s" % (shape, order))
            if not np.array_equal(image_fun2par(image_par2fun(p, shape, order), shape, order), p):
                bad.append("image maps not inverse %s %s" % (shape, order))
    # documented steps against a high-precision evaluation of the docstring inequality
    from fractions import Fraction
    for n in (2, 3, 7, 11, 20):
        for ns in range(1, n + 1):
            d, ob = step_documented(n, ns)
            for k in range(n):
                x = Fraction(k, n - 1)
                own = [i for i in range(ns) if (Fraction(i, ns) < x <= Fraction(i + 1, ns)) or (i == 0 and x == 0)]
                if own != [d[k]]:
                    bad.append("step_documented wrong n=%d ns=%d k=%d" % (n, ns, k))
                isb = (x * ns).denominator == 1 and 0 < x < 1
                if isb != ob[k]:
                    bad.append("step boundary flag wrong n=%d ns=%d k=%d" % (n, ns, k))
            if sorted(set(d)) != list(range(ns)):
                bad.append("documented partition has an empty step n=%d ns=%d" % (n, ns))
    return bad
