"""Reference machinery for C05 (direct samples follow the object's own density).

Pure numpy/scipy, never imports cuqi.

* cdf_table      numerically integrated CDF (and low moments) of an arbitrary scalar
                 density given as a callable, on knots taken from the data plus quad tails.
* ks_stat / ks_pvalue   one-sample Kolmogorov-Smirnov statistic against a tabulated CDF.
* mhn_logpdf_doc documented modified-half-normal log density (un-normalised).
* random matrix forms with bounded condition number (well-posed by construction).
* affine read-off helpers (covariance comparison on the range of a precision).
"""
import math
import numpy as np
from scipy import integrate, special

_GL_X, _GL_W = np.polynomial.legendre.leggauss(10)

# --------------------------------------------------------------------------- CDF by quadrature

class CdfTable:
    """CDF of a scalar density tabulated on knots; linear interpolation in between is NOT
    used - instead every query point is located in its cell and the cell integral is
    approximated by the monotone cubic through the knot CDF values with knot densities as
    slopes (C1 Hermite).  For the quantile knots used here the error is below 1e-4 (self-tested against scipy)."""
    def __init__(self, knots, cdf, pdf_at_knots, total, lo_mass, hi_mass, moments):
        self.knots, self.cdf, self.pdfk = knots, cdf, pdf_at_knots
        self.total, self.lo_mass, self.hi_mass = total, lo_mass, hi_mass
        self.moments = moments     # raw moments E[x^k], k=1..4 (None when not requested / not finite)

    def __call__(self, x):
        x = np.asarray(x, dtype=float)
        k, F, f = self.knots, self.cdf, self.pdfk
        idx = np.clip(np.searchsorted(k, x, side="right") - 1, 0, len(k) - 2)
        h = k[idx + 1] - k[idx]
        t = np.clip((x - k[idx]) / h, 0.0, 1.0)
        h00 = 2 * t ** 3 - 3 * t ** 2 + 1
        h10 = t ** 3 - 2 * t ** 2 + t
        h01 = -2 * t ** 3 + 3 * t ** 2
        h11 = t ** 3 - t ** 2
        val = h00 * F[idx] + h10 * h * f[idx] + h01 * F[idx + 1] + h11 * h * f[idx + 1]
        # Hermite may overshoot marginally near singular knots: clamp to the cell's bracket
        val = np.minimum(np.maximum(val, F[idx]), F[idx + 1])
        val = np.where(x <= k[0], F[0], val)
        val = np.where(x >= k[-1], F[-1], val)
        return val


def cdf_table(pdf, lo, hi, knots, want_moments=False):
    """Tabulate the CDF of the (possibly un-normalised) scalar density `pdf` (callable on a
    float) with support inside [lo, hi] (may be infinite).  `knots` is a strictly increasing
    array strictly inside the support; cells are integrated with 10-point Gauss-Legendre,
    the two tails with adaptive quadrature.  Returns a CdfTable normalised to total mass 1."""
    knots = np.asarray(knots, dtype=float)
    assert np.all(np.diff(knots) > 0)
    a, b = knots[:-1], knots[1:]
    mid, half = 0.5 * (a + b), 0.5 * (b - a)
    X = mid[:, None] + half[:, None] * _GL_X[None, :]
    P = np.array([[pdf(float(x)) for x in row] for row in X])
    P = np.where(np.isfinite(P), P, 0.0)
    cell = half * (P @ _GL_W)
    npow = 4 if want_moments else 0
    cellm = [half * ((P * X ** k) @ _GL_W) for k in range(1, npow + 1)]
    def tail(f, u, v):
        if not (v > u):
            return 0.0
        with np.errstate(all="ignore"):
            val, _err = integrate.quad(f, u, v, limit=200, epsabs=0, epsrel=1e-8)
        return float(val) if np.isfinite(val) else float("nan")
    g = lambda x: (lambda p: p if np.isfinite(p) else 0.0)(pdf(float(x)))
    import warnings
    with warnings.catch_warnings():
        warnings.simplefilter("ignore")
        lo_mass = tail(g, lo, knots[0])
        hi_mass = tail(g, knots[-1], hi)
        tailm = []
        for k in range(1, npow + 1):
            gk = lambda x, k=k: g(x) * x ** k
            tailm.append((tail(gk, lo, knots[0]), tail(gk, knots[-1], hi)))
    total = lo_mass + float(np.sum(cell)) + hi_mass
    cdf = (lo_mass + np.concatenate([[0.0], np.cumsum(cell)])) / total
    pk = np.array([g(x) for x in knots]) / total
    moments = None
    if want_moments:
        moments = [(tailm[k][0] + float(np.sum(cellm[k])) + tailm[k][1]) / total for k in range(npow)]
        if not np.all(np.isfinite(moments)):
            moments = None
    return CdfTable(knots, cdf, pk, total, lo_mass / total, hi_mass / total, moments)


def knots_from_sample(x, lo, hi, n_knots=300):
    """Strictly increasing knots inside (lo, hi): sample quantiles (so that every cell carries
    about the same mass), thinned to be strictly increasing."""
    x = np.asarray(x, dtype=float)
    x = x[np.isfinite(x) & (x > lo) & (x < hi)]
    if x.size < 50:
        return None
    lev = list(np.linspace(0.0, 1.0, n_knots))
    j, base = 1, 1.0 / (n_knots - 1)
    while base * 0.5 ** j > 0.5 / x.size and j < 40:      # refine both tails geometrically
        lev += [base * 0.5 ** j, 1.0 - base * 0.5 ** j]
        j += 1
    q = np.quantile(x, np.array(sorted(set(lev))))
    q = np.unique(q)
    # drop knots that coincide to relative round-off
    keep = [q[0]]
    for v in q[1:]:
        if v - keep[-1] > 1e-12 * max(1.0, abs(v), abs(keep[-1])):
            keep.append(v)
    return np.array(keep) if len(keep) >= 20 else None


def ks_stat(x, F):
    """Two-sided one-sample KS statistic of data x against a vectorised CDF F; returns
    (D, signed deviation at the arg max) ; sign>0: empirical CDF above reference."""
    x = np.sort(np.asarray(x, dtype=float))
    n = x.size
    Fx = np.asarray(F(x), dtype=float)
    up = np.arange(1, n + 1) / n - Fx
    dn = Fx - np.arange(0, n) / n
    iu, idn = int(np.argmax(up)), int(np.argmax(dn))
    if up[iu] >= dn[idn]:
        return float(up[iu]), +1, float(x[iu])
    return float(dn[idn]), -1, float(x[idn])


def ks_pvalue(D, n):
    """Asymptotic Kolmogorov p-value with the Stephens finite-n correction."""
    lam = (math.sqrt(n) + 0.12 + 0.11 / math.sqrt(n)) * D
    if lam < 0.2:
        return 1.0
    s = 0.0
    for j in range(1, 101):
        term = 2 * (-1) ** (j - 1) * math.exp(-2.0 * j * j * lam * lam)
        s += term
        if abs(term) < 1e-18:
            break
    return float(min(1.0, max(0.0, s)))


def z_pvalue(z):
    return float(math.erfc(abs(z) / math.sqrt(2.0)))


def spearman_z(a, b):
    """Spearman rank correlation times sqrt(n-1): ~N(0,1) for independent continuous a, b."""
    n = len(a)
    ra = np.argsort(np.argsort(a)).astype(float)
    rb = np.argsort(np.argsort(b)).astype(float)
    ra -= ra.mean(); rb -= rb.mean()
    rho = float(ra @ rb / math.sqrt((ra @ ra) * (rb @ rb)))
    return rho * math.sqrt(n - 1), rho

# --------------------------------------------------------------------------- documented MHN density

def mhn_logpdf_doc(x, alpha, beta, gamma):
    """Un-normalised log density of the modified half-normal as documented:
    f(x) ~ x^(alpha-1) exp(-beta x^2 + gamma x), x > 0."""
    if x <= 0:
        return -math.inf
    return (alpha - 1.0) * math.log(x) - beta * x * x + gamma * x


def mhn_mode_scale(alpha, beta, gamma):
    """Rough location/scale of the documented MHN (for choosing integration windows)."""
    disc = gamma * gamma + 8.0 * beta * max(alpha - 1.0, 0.0)
    mode = (gamma + math.sqrt(disc)) / (4.0 * beta)
    return max(mode, 0.0), 1.0 / math.sqrt(2.0 * beta)

# --------------------------------------------------------------------------- matrix forms

def random_orthogonal(rs, n):
    Q, R = np.linalg.qr(rs.standard_normal((n, n)))
    return Q * np.sign(np.diag(R))


def spd(rs, n, cond=50.0, scale=1.0, banded=None):
    """SPD matrix with eigenvalues log-uniform in [scale, scale*cond].  banded=k gives a
    banded, strictly diagonally dominant SPD matrix (sparse friendly) instead."""
    if banded:
        A = np.zeros((n, n))
        for k in range(1, banded + 1):
            v = rs.uniform(-1, 1, n - k)
            A += np.diag(v, k) + np.diag(v, -k)
        d = np.sum(np.abs(A), axis=1) + rs.uniform(0.5, 1.5, n)
        return scale * (A + np.diag(d))
    Q = random_orthogonal(rs, n)
    w = scale * np.exp(rs.uniform(0, math.log(cond), n))
    return (Q * w) @ Q.T


def sqrt_factor(rs, n, kind, cond=30.0, scale=1.0, banded=None):
    """Invertible square matrix R of the requested structure with bounded condition number.
    kind in lower | upper | symmetric | nonsymmetric | diag"""
    if kind == "diag":
        return np.diag(scale * np.exp(rs.uniform(0, math.log(cond), n)) * rs.choice([-1.0, 1.0], n))
    if kind in ("lower", "upper"):
        if banded:
            L = np.zeros((n, n))
            for k in range(1, banded + 1):
                L += np.diag(rs.uniform(-0.4, 0.4, n - k), -k)
        else:
            L = np.tril(rs.uniform(-1, 1, (n, n)), -1) * (1.5 / max(n, 1) ** 0.5)
        d = rs.uniform(1.0, 2.0, n) * rs.choice([-1.0, 1.0], n)
        L = scale * (L + np.diag(d))
        return L if kind == "lower" else L.T.copy()
    if kind == "symmetric":
        A = spd(rs, n, cond=cond, scale=scale, banded=banded)
        return A
    if kind == "nonsymmetric":
        if banded:
            A = np.zeros((n, n))
            for k in range(1, banded + 1):
                A += np.diag(rs.uniform(-0.4, 0.4, n - k), k) + np.diag(rs.uniform(-0.4, 0.4, n - k), -k)
            return scale * (A + np.diag(rs.uniform(2.0, 3.0, n) * rs.choice([-1.0, 1.0], n)))
        U, V = random_orthogonal(rs, n), random_orthogonal(rs, n)
        w = scale * np.exp(rs.uniform(0, math.log(cond), n))
        return (U * w) @ V.T
    raise ValueError(kind)

# --------------------------------------------------------------------------- covariance vs precision

def cov_vs_precision(C, P, rel_floor=1e-9):
    """Compare a covariance C (= B B^T read off the sampler) with the precision P (read off the
    log-density) on the range of P:   P C P == P   and  C has no mass outside range(P) beyond
    what P C P == P implies is NOT judged (improper directions).  Returns (relative error,
    rank of P, smallest non-zero eigenvalue, largest eigenvalue)."""
    P = 0.5 * (P + P.T)
    w = np.linalg.eigvalsh(P)
    wmax = float(np.max(np.abs(w)))
    nz = w[w > 1e-8 * wmax]
    err = float(np.max(np.abs(P @ C @ P - P)) / max(wmax, 1e-300))
    return err, int(nz.size), float(nz.min()) if nz.size else 0.0, wmax


def selftest():
    """Return a list of failure strings (empty = fine)."""
    import scipy.stats as st
    bad = []
    rs = np.random.RandomState(12345)
    for name, dist, lo, hi in (("norm", st.norm(1.0, 2.0), -np.inf, np.inf),
                               ("gamma.5", st.gamma(0.5, scale=2.0), 0.0, np.inf),
                               ("gamma3", st.gamma(3.0, scale=0.1), 0.0, np.inf),
                               ("cauchy", st.cauchy(0.3, 2.0), -np.inf, np.inf),
                               ("beta", st.beta(0.6, 2.5), 0.0, 1.0),
                               ("invgamma", st.invgamma(2.5, loc=1.0, scale=3.0), 1.0, np.inf),
                               ("uniform", st.uniform(-1.0, 3.0), -1.0, 2.0),
                               ("laplace", st.laplace(0.5, 0.2), -np.inf, np.inf)):
        x = dist.rvs(size=8000, random_state=rs)
        k = knots_from_sample(x, lo, hi)
        T = cdf_table(lambda t: 7.3 * float(dist.pdf(t)), lo, hi, k, want_moments=name in ("norm", "gamma3", "beta", "uniform", "laplace", "gamma.5"))
        q = np.sort(x)[::37]
        err = float(np.max(np.abs(T(q) - dist.cdf(q))))
        if not err < 2e-4:
            bad.append(f"cdf_table({name}) differs from scipy cdf by {err:.2e}")
        if abs(T.total - 7.3) > 1e-4 * 7.3:
            bad.append(f"cdf_table({name}) total mass {T.total} != 7.3")
        if T.moments is not None:
            m1, m2 = T.moments[0], T.moments[1]
            if abs(m1 - dist.mean()) > 1e-5 * (1 + abs(dist.mean())) or abs(m2 - m1 * m1 - dist.var()) > 1e-5 * (1 + dist.var()):
                bad.append(f"cdf_table({name}) moments {m1},{m2 - m1 * m1} vs {dist.mean()},{dist.var()}")
        D, sgn, at = ks_stat(x, T)
        D2 = st.kstest(x, dist.cdf).statistic
        if abs(D - D2) > 2e-4:
            bad.append(f"ks_stat({name}) {D} vs scipy {D2}")
    for D, n in ((0.01, 20000), (0.02, 20000), (0.03, 5000), (0.004, 400000)):
        p, p2 = ks_pvalue(D, n), float(st.kstwo.sf(D, n))
        if not (abs(math.log(max(p, 1e-300)) - math.log(max(p2, 1e-300))) < 0.35):
            bad.append(f"ks_pvalue({D},{n})={p} vs scipy {p2}")
    # matrix forms: structure and conditioning
    for kind in ("lower", "upper", "symmetric", "nonsymmetric", "diag"):
        for banded in (None, 2):
            R = sqrt_factor(rs, 12, kind, banded=banded)
            c = np.linalg.cond(R)
            if not c < 1e4:
                bad.append(f"sqrt_factor({kind},{banded}) cond {c}")
            if kind == "lower" and not np.allclose(R, np.tril(R)): bad.append("lower not lower")
            if kind == "upper" and not np.allclose(R, np.triu(R)): bad.append("upper not upper")
            if kind == "nonsymmetric" and np.allclose(R, R.T): bad.append("nonsymmetric is symmetric")
    A = spd(rs, 9); B = spd(rs, 9, banded=2)
    for M in (A, B):
        if np.linalg.eigvalsh(M).min() <= 0: bad.append("spd not positive definite")
    # cov_vs_precision on a singular precision
    Dm = np.diff(np.eye(7), axis=0); P = Dm.T @ Dm
    err, r, lmin, lmax = cov_vs_precision(np.linalg.pinv(P), P)
    if err > 1e-10 or r != 6: bad.append(f"cov_vs_precision pinv err {err} rank {r}")
    err, _, _, _ = cov_vs_precision(1.3 * np.linalg.pinv(P), P)
    if err < 0.1: bad.append("cov_vs_precision does not see a 30 % scale error")
    return bad
