"""Reference structure of the C11 model graphs (no cuqi import).

Given a case descriptor (template + options) this module states, independently of the
library, which random variables exist, which other variables each of them is conditioned on
(its conditioning variables), the support of every variable and therefore
  * the parameter names every node must report (conditioning variables + own name),
  * the parameter names of the joint after any set of variables has been fixed.
The check compares what the live objects report (before, during and after operation
sequences) with these tables.
"""

HIER_XPRIORS = ["gmrf_d", "gmrf_fix", "gauss_cov_d", "gauss_prec_d", "gauss_sqrtprec_d", "gauss_sqrtcov_d",
                "gauss_covmat", "gauss_precmat", "gauss_sqrtprecmat", "gauss_covvec", "lmrf_d", "lmrf_fix",
                "cmrf_fix", "laplace_fix", "reg_d", "reg_fix", "reggmrf_d", "con_fix", "uniform_fix",
                "lognormal_fix", "udd"]
HIER_NOISES = ["cov_l", "prec_l", "sqrtprec_l", "sqrtcov_l", "fixed_s", "fixed_v", "fixed_m"]
HIER_MODELS = ["mat", "fun", "geom", "nl_jac", "nl_grad", "nl_nograd", "raw", "spmat"]
HIER_LIKS = ["gauss", "gauss", "gauss", "lognormal", "laplace"]

CHAIN_ROOTS = ["normal", "gauss", "uniform", "beta", "gamma", "invgamma", "lognormal", "cauchy", "laplace"]
CHAIN_B = ["normal_mean", "normal_std", "normal_both", "gauss_mean", "gauss_cov", "laplace_loc", "cauchy_loc",
           "lognormal_mean", "gamma_rate", "beta_alpha", "lognormal_cov"]
CHAIN_C = ["gauss_ab", "normal_a_b", "gauss_b", "lognormal_ab", "none"]
# size-deferred distributions: every size-bearing parameter is a conditioning variable and no geometry is given, so the
# dimension is unknown until conditioning (copies derived from one original get DIFFERENT dimensions)
DEFERRED = ["normal_ms", "laplace_none", "gamma_ms", "uniform_ms", "cauchy_ms", "none"]
DEFERRED_DEPS = {"normal_ms": ["m", "s"], "laplace_none": ["location", "scale"], "gamma_ms": ["m", "s"],
                 "uniform_ms": ["m", "s"], "cauchy_ms": ["m", "s"]}
DEFERRED_LENGTHS = [3, 5, 2]      # length of the probe values number 0, 1, 2 of the size-bearing parameter
CHAIN_LOOSE = ["none", "normal_none", "gauss_none", "gauss_mean_none", "lognormal_none"]

ROOT_SUPPORT = {"normal": "real", "gauss": "real", "uniform": "interval", "beta": "unit", "gamma": "pos",
                "invgamma": "pos", "lognormal": "pos", "cauchy": "real", "laplace": "real"}
B_SUPPORT = {"normal_mean": "real", "normal_std": "real", "normal_both": "real", "gauss_mean": "real", "gauss_cov": "real",
             "laplace_loc": "real", "cauchy_loc": "real", "lognormal_mean": "pos", "gamma_rate": "pos", "beta_alpha": "unit",
             "lognormal_cov": "pos"}
C_SUPPORT = {"gauss_ab": "real", "normal_a_b": "real", "gauss_b": "real", "lognormal_ab": "pos"}


def structure(case):
    """-> dict(nodes=[names in joint order], deps={name: [conditioning variables]}, support={name: kind},
              loose={id: [conditioning variables]})"""
    o = case["opts"]
    if case["tpl"] == "hier":
        deps, support = {}, {}
        has_d = o["xprior"].endswith("_d")
        has_l = o["noise"].endswith("_l") and o["lik"] != "lognormal"   # Lognormal(model, cov) needs a fixed covariance
        if has_d:
            deps["d"] = []; support["d"] = "pos"
        if has_l:
            deps["l"] = []; support["l"] = "pos"
        deps["x"] = ["d"] if has_d else []
        support["x"] = {"uniform_fix": "interval", "lognormal_fix": "pos"}.get(o["xprior"], "real")
        deps["y"] = ["x"] + (["l"] if has_l else [])
        support["y"] = "pos" if o["lik"] == "lognormal" else "real"
        for k in range(2, o["ndata"] + 1):
            deps["y%d" % k] = ["x"]; support["y%d" % k] = "real"
        names = list(deps)
        order = o.get("order")
        if order:
            names = [names[i % len(names)] for i in _perm(order, len(names))]
        # "z": a free-standing distribution with the dimension of x (forward models get applied to it as well)
        loose = {"z": []}
        if o.get("defer", "none") != "none":
            loose["e"] = list(DEFERRED_DEPS[o["defer"]])
        return {"nodes": names, "deps": deps, "support": support, "loose": loose}
    if case["tpl"] == "chain":
        deps = {"a": []}
        support = {"a": ROOT_SUPPORT[o["a"]]}
        deps["b"] = ["a"]; support["b"] = B_SUPPORT[o["b"]]
        if o["c"] != "none":
            deps["c"] = {"gauss_ab": ["a", "b"], "normal_a_b": ["b", "a"], "gauss_b": ["b", "a"], "lognormal_ab": ["a", "b"]}[o["c"]]
            support["c"] = C_SUPPORT[o["c"]]
        names = list(deps)
        order = o.get("order")
        if order:
            names = [names[i % len(names)] for i in _perm(order, len(names))]
        loose = {}
        if o["loose"] == "normal_none":
            loose["q"] = ["mean", "std"]
        elif o["loose"] == "gauss_none":
            loose["q"] = ["mean", "cov"]
        elif o["loose"] == "gauss_mean_none":
            loose["q"] = ["mean"]
        elif o["loose"] == "lognormal_none":
            loose["q"] = ["mean"]
        if o.get("defer", "none") != "none":
            loose["e"] = list(DEFERRED_DEPS[o["defer"]])
        return {"nodes": names, "deps": deps, "support": support, "loose": loose}
    raise ValueError(case["tpl"])


def _perm(code, n):
    """Deterministic permutation of range(n) from an integer code (factorial number system)."""
    items = list(range(n))
    out = []
    for k in range(n, 0, -1):
        out.append(items.pop(code % k))
        code //= k
    return out


def model_argument(case, tag):
    """Name of the input argument of the original forward model `tag` (M1 belongs to y, M2 to y2, M3 to y3):
    matrix-backed models are built around `lambda x: matrix @ x`; function-backed ones use the generated argument name.
    Applying a model to a distribution must leave this name in place (only the returned copy is renamed)."""
    o = case["opts"]
    kind = {"M1": o["model"], "M2": "mat", "M3": "fun"}[tag]
    return o["arg"] if kind in ("fun", "nl_jac", "nl_grad", "nl_nograd") else "x"


def expected_parameter_names(st, name):
    return list(st["deps"][name]) + [name]


def joint_parameter_names(st, fixed):
    """Parameter names of the joint after the variables in `fixed` were conditioned on (order of the joint)."""
    return [n for n in st["nodes"] if n not in fixed]


def selftest():
    """Internal consistency of the tables; returns list of problems."""
    bad = []
    for n in (1, 2, 3, 4, 5):
        seen = set()
        import math
        for code in range(math.factorial(n)):
            p = tuple(_perm(code, n))
            if sorted(p) != list(range(n)):
                bad.append("perm not a permutation %r" % (p,))
            seen.add(p)
        if len(seen) != math.factorial(n):
            bad.append("perm codes do not enumerate S_%d" % n)
    for b in CHAIN_B:
        if b not in B_SUPPORT:
            bad.append("no support for " + b)
    for r in CHAIN_ROOTS:
        if r not in ROOT_SUPPORT:
            bad.append("no support for " + r)
    return bad
