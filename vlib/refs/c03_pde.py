"""Pure-numpy reference pieces for the PDE-based C03 workload (never imports cuqi).

Poisson (steady state, parametrised diffusion coefficient, as in the documentation of
cuqi.testproblem.Poisson1D):      (Dx^T diag(k) Dx) u = rhs ,   obs = O u
    du/dk_j = -A(k)^{-1} Dx[j,:]^T (Dx u)_j        (derivative of a linear solve)

Heat (time dependent, parametrised initial condition, forward/backward Euler):
    the solution at the final time is a fixed linear map of the initial condition, so the
    Jacobian is the propagator matrix built by stepping the identity with the same scheme.

The harness hands `poisson_form` / `heat_form` to the real cuqi.pde classes and attaches the
Jacobians below as `jacobian_wrt_parameter` / `gradient_wrt_parameter` of a PDE subclass, i.e.
they play the role of the user-supplied derivative that cuqi.model.PDEModel documents.
"""
import numpy as np


def poisson_matrices(N, rs):
    """N solution nodes, N+1 coefficient nodes (one per difference)."""
    dx = 1.0 / (N + 1)
    Dx = -np.diag(np.ones(N), 0) + np.diag(np.ones(N - 1), 1)
    first = np.zeros(N); first[0] = 1
    Dx = np.concatenate([first.reshape(1, -1), Dx], axis=0) / dx      # (N+1) x N
    grid = np.linspace(dx, 1.0, N, endpoint=False)
    c = 0.3 + 0.4 * rs.uniform()
    rhs = 10 * np.exp(-((grid - c) ** 2) / 0.02) + rs.uniform(0, 2, N)
    return Dx, rhs, grid


def poisson_form(Dx, rhs):
    return lambda k: (Dx.T @ np.diag(np.asarray(k, dtype=float)) @ Dx, rhs)


def poisson_forward(Dx, rhs, k, O=None):
    A = Dx.T @ np.diag(k) @ Dx
    u = np.linalg.solve(A, rhs)
    return u if O is None else O @ u


def poisson_jacobian(Dx, rhs, k, O=None):
    k = np.asarray(k, dtype=float)
    A = Dx.T @ np.diag(k) @ Dx
    u = np.linalg.solve(A, rhs)
    Du = Dx @ u
    J = -np.linalg.solve(A, Dx.T * Du[None, :])      # column j = -A^{-1} Dx[j,:]^T (Dx u)_j
    return J if O is None else O @ J


def heat_matrices(N, steps, rs):
    dx = 1.0 / (N + 1)
    Dxx = (np.diag(-2 * np.ones(N)) + np.diag(np.ones(N - 1), -1) + np.diag(np.ones(N - 1), 1)) / dx ** 2
    dt = 0.4 * dx ** 2
    time_steps = np.linspace(0, dt * steps, steps + 1, endpoint=True)
    src = rs.uniform(-1, 1, N)
    return Dxx, src, time_steps


def heat_form(Dxx, src):
    return lambda ic, t: (Dxx, src, np.asarray(ic, dtype=float))


def heat_propagator(Dxx, time_steps, method):
    """Matrix P with u(T) = P u(0) + const for the documented Euler schemes."""
    N = Dxx.shape[0]
    P = np.eye(N)
    for i in range(len(time_steps) - 1):
        dt = time_steps[i + 1] - time_steps[i]
        if method == "forward_euler":
            P = (np.eye(N) + dt * Dxx) @ P
        else:
            P = np.linalg.solve(np.eye(N) - dt * Dxx, P)
    return P


def selftest():
    fails = []
    rs = np.random.RandomState(7)
    for N in (4, 7):
        Dx, rhs, _ = poisson_matrices(N, rs)
        k = np.exp(0.3 * rs.standard_normal(N + 1))
        O = rs.standard_normal((3, N))
        J = poisson_jacobian(Dx, rhs, k, O)
        Jfd = np.zeros_like(J)
        for j in range(N + 1):
            h = 1e-6 * k[j]
            kp = k.copy(); kp[j] += h
            km = k.copy(); km[j] -= h
            Jfd[:, j] = (poisson_forward(Dx, rhs, kp, O) - poisson_forward(Dx, rhs, km, O)) / (2 * h)
        if not np.allclose(J, Jfd, rtol=1e-6, atol=1e-7 * np.abs(J).max()):
            fails.append(f"poisson jacobian N={N}: max diff {np.abs(J - Jfd).max():.3g}")
        Dxx, src, ts = heat_matrices(N, 5, rs)
        for method in ("forward_euler", "backward_euler"):
            P = heat_propagator(Dxx, ts, method)
            u0 = rs.standard_normal(N)
            def run(u):
                for i in range(len(ts) - 1):
                    dt = ts[i + 1] - ts[i]
                    u = (np.eye(N) + dt * Dxx) @ u + dt * src if method == "forward_euler" else np.linalg.solve(np.eye(N) - dt * Dxx, u + dt * src)
                return u
            if not np.allclose(run(u0) - run(np.zeros(N)), P @ u0, rtol=1e-10, atol=1e-12):
                fails.append(f"heat propagator {method} N={N}")
    return fails
