"""Dense linear-Gaussian algebra for C06 (never imports cuqi).

Everything is written in *information form* from the textbook formulas

    posterior precision  H  = sum_i A_i^T P_i A_i + P_0
    posterior mean       xm = H^{-1} ( sum_i A_i^T P_i d_i + P_0 mu_0 )
    posterior covariance C  = H^{-1}

and, for the self test, independently in *covariance (Kalman) form*.  The
documented relations between the four ways of giving a Gaussian are

    cov = S            prec = P  (S = P^{-1})
    sqrtcov  = R with cov  = R^T R   (only symmetric / diagonal R are used by the check,
                                      for which R^T R == R R^T, see DESIGN.md #18)
    sqrtprec = R with prec = R^T R
    scalar / 1-d values are the diagonal of the respective matrix
    (standard deviations / inverse standard deviations for the sqrt forms).
"""
import numpy as np


def dense(M):
    return M.toarray() if hasattr(M, "toarray") else np.asarray(M, dtype=float)


def _as_matrix(value, n):
    v = dense(value)
    if v.ndim == 0 or v.size == 1:
        return float(v.reshape(-1)[0]) * np.eye(n)
    if v.ndim == 1:
        return np.diag(v)
    return v


def precision_from_form(family, value, n):
    """family in {'cov','prec','sqrtcov','sqrtprec'}; value scalar / 1-d / 2-d."""
    M = _as_matrix(value, n)
    if family == "cov":
        return np.linalg.inv(M)
    if family == "prec":
        return M.copy()
    if family == "sqrtcov":
        return np.linalg.inv(M.T @ M)
    if family == "sqrtprec":
        return M.T @ M
    raise ValueError(family)


def posterior(As, Ps, ds, P0, mu0):
    """Information form. Returns mean, cov, H, rhs."""
    n = P0.shape[0]
    H = np.array(P0, dtype=float, copy=True)
    rhs = P0 @ np.asarray(mu0, dtype=float).reshape(n)
    for A, P, d in zip(As, Ps, ds):
        H = H + A.T @ P @ A
        rhs = rhs + A.T @ (P @ d)
    H = (H + H.T) / 2
    C = np.linalg.inv(H)
    C = (C + C.T) / 2
    return np.linalg.solve(H, rhs), C, H, rhs


def posterior_kalman(As, Ps, ds, P0, mu0):
    """Same posterior through the covariance form (used only to self-test `posterior`)."""
    S0 = np.linalg.inv(P0)
    A = np.vstack(As)
    d = np.concatenate(ds)
    m = A.shape[0]
    R = np.zeros((m, m))
    k = 0
    for P in Ps:
        r = P.shape[0]
        R[k:k + r, k:k + r] = np.linalg.inv(P)
        k += r
    G = A @ S0 @ A.T + R
    K = S0 @ A.T @ np.linalg.inv(G)
    mean = mu0 + K @ (d - A @ mu0)
    C = S0 - K @ A @ S0
    return mean, (C + C.T) / 2


def product_of_gaussians(means, precs):
    """N(m1,P1^-1) * N(m2,P2^-1) * ...  ->  precision and mean of the (normalised) product."""
    P = sum(precs)
    rhs = sum(Pi @ mi for Pi, mi in zip(precs, means))
    return np.linalg.solve(P, rhs), P


def ugla_weights(D, xk, loc, beta):
    """Lagged-diffusivity weights of the smoothed l1 norm  sum_i sqrt(t_i^2+beta), t = D (x - loc)."""
    t = D @ (np.asarray(xk, dtype=float) - loc)
    return 1.0 / np.sqrt(t ** 2 + beta)


def ugla_prior_precision(D, xk, loc, scale, beta):
    """Local Gaussian N(loc, ((1/b) D^T W_k D)^-1) replacing exp(-(1/b) |D(x-loc)|_1) at x_k."""
    w = ugla_weights(D, xk, loc, beta)
    return (D.T * w) @ D / scale


def ugla_local(A, P, d, D, loc, scale, beta, xk):
    n = D.shape[1]
    loc = np.broadcast_to(np.asarray(loc, dtype=float).reshape(-1), (n,)) if np.size(loc) in (1, n) else np.asarray(loc, dtype=float)
    P0 = ugla_prior_precision(D, xk, loc, scale, beta)
    return posterior([A], [P], [d], P0, loc)


def smoothed_l1_gradient(D, x, loc, scale, beta):
    """Gradient of (1/b) sum_i sqrt((D(x-loc))_i^2 + beta)  (for the self test of the weights)."""
    t = D @ (x - loc)
    return D.T @ (t / np.sqrt(t ** 2 + beta)) / scale

