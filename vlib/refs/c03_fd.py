"""Error-estimated numerical differentiation of a scalar function (reference for C03).

Pure numpy; never imports cuqi.  The function handed in is the *observed*
log-density of the object under test (the harness passes ``obj.logd``), so the
reference only contributes the differentiation rule:

    D(h)  = (f(x+h e_i) - f(x-h e_i)) / 2h                 central difference
    R1    = (4 D(h/2) - D(h)) / 3 ,  R2 = (4 D(h/4) - D(h/2)) / 3
    R     = (16 R2 - R1) / 15                               two Richardson levels
    err   = |R - R2| + roundoff,  roundoff = 64 eps max|f| / (h/4)
    and finally err = max(err, |R(h) - R(h/3)|) from a second, un-nested extrapolation

`richardson_gradient` retries with smaller steps when the stencil leaves the
region where f is finite (near the edge of a support) or when the error estimate
is poor, and returns per-component (value, error estimate, step used).  A
component whose stencil never became finite is returned as NaN with err = inf
(the caller then reports *inconclusive*, never a violation).
"""
import numpy as np

EPS = np.finfo(float).eps


def _scalar(v):
    a = np.asarray(v, dtype=float)
    if a.size != 1:
        raise ValueError("log-density returned %d values" % a.size)
    return float(a.reshape(-1)[0])


def _component(f, x, i, h, f0mag, min_side=None):
    """Two-level Richardson central difference in component i with base step h."""
    D = []
    fmax = f0mag
    for k in range(3):
        hk = h / (2 ** k)
        xp = x.copy(); xp[i] += hk
        xm = x.copy(); xm[i] -= hk
        fp, fm = _scalar(f(xp)), _scalar(f(xm))
        if not (np.isfinite(fp) and np.isfinite(fm)):
            return None
        fmax = max(fmax, abs(fp), abs(fm))
        # use the representable step actually taken
        D.append((fp - fm) / ((xp[i] - xm[i])))
    R1 = (4 * D[1] - D[0]) / 3
    R2 = (4 * D[2] - D[1]) / 3
    R = (16 * R2 - R1) / 15
    round_off = 64 * EPS * max(fmax, 1e-300) / (h / 4)
    err = abs(R - R2) + round_off
    return R, err


def richardson_gradient(f, x, h0=1e-3, max_shrink=18, good_rel=1e-7, only=None):
    """Gradient of scalar f at x (1-D float array) with per-component error estimates.

    Returns (grad, err, steps).  Steps start at h0*max(1,|x_i|) (and, for problems living on a tiny scale,
    also at h0*max|x|) and are divided by 8 while the stencil touches non-finite values of f or the error
    estimate is not yet `good_rel` *relative to the derivative itself*; the search stops once the estimate
    got worse twice in a row (round-off regime) and the best (smallest err) attempt is kept.  Nothing in here
    compares against an absolute magnitude: tiny and huge derivatives are treated alike."""
    x = np.array(x, dtype=float).reshape(-1)
    n = x.size
    f0 = _scalar(f(x.copy()))
    g = np.full(n, np.nan); e = np.full(n, np.inf); hs = np.zeros(n)
    if not np.isfinite(f0):
        return g, e, hs
    xmax = float(np.max(np.abs(x))) if n else 0.0
    for i in (range(n) if only is None else only):       # `only`: judge a subset of the components (others stay NaN/inf)
        starts = [h0 * max(1.0, abs(x[i]))]
        if 0.0 < xmax < 1e-2:
            starts.append(h0 * xmax)
        if 0.0 < abs(x[i]) < 1e-2 * xmax or (0.0 < abs(x[i]) < 1e-2 and abs(x[i]) != xmax):
            starts.append(h0 * abs(x[i]))
        best = None
        rel = lambda r: r[1] / max(abs(r[0]), 1e-300)      # candidates are ranked by their error relative to themselves
        for h in starts:
            prev, worse, tries = None, 0, 0
            for _ in range(max_shrink):
                r = _component(f, x, i, h, abs(f0))
                if r is not None:
                    tries += 1
                    if best is None or rel(r) < rel(best):
                        best = (r[0], r[1], h)
                    if r[1] <= good_rel * abs(r[0]):
                        break
                    worse = worse + 1 if (prev is not None and r[1] >= prev) else 0
                    prev = r[1]
                    if worse >= 2 and tries >= 3:
                        break
                h /= 8.0
                if x[i] + h / 4 == x[i] or h < 1e-300:
                    break
            if best is not None and best[1] <= good_rel * abs(best[0]):
                break
        if best is not None:
            # a-posteriori confirmation with an un-nested step (h/3): two independent extrapolations must agree;
            # their difference bounds the error of the worse one
            r = _component(f, x, i, best[2] / 3.0, abs(f0))
            if r is not None:
                diff = abs(r[0] - best[0])
                best = (r[0], max(r[1], diff), best[2] / 3.0) if rel(r) <= rel(best) else (best[0], max(best[1], diff), best[2])
        if best is None:
            # the point sits on the edge of the region where f is finite: one-sided derivative
            for sign in (+1.0, -1.0):
                h = h0 * max(1.0, abs(x[i]))
                for _ in range(max_shrink):
                    r = _one_sided(f, x, i, sign * h, f0)
                    if r is not None and (best is None or r[1] < best[1]):
                        best = (r[0], r[1], sign * h)
                    h /= 8.0
                    if x[i] + h / 4 == x[i]:
                        break
                if best is not None:
                    break
        if best is not None:
            g[i], e[i], hs[i] = best
    return g, e, hs


def _one_sided(f, x, i, h, f0):
    """Three-step Richardson extrapolation of the one-sided quotient (f(x+h)-f(x))/h (h may be negative)."""
    D = []
    fmax = abs(f0)
    for k in range(3):
        hk = h / (2 ** k)
        xp = x.copy(); xp[i] += hk
        fp = _scalar(f(xp))
        if not np.isfinite(fp):
            return None
        fmax = max(fmax, abs(fp))
        D.append((fp - f0) / (xp[i] - x[i]))
    R1 = 2 * D[1] - D[0]
    R1b = 2 * D[2] - D[1]
    R2 = (4 * R1b - R1) / 3
    err = abs(R2 - R1b) + 64 * EPS * max(fmax, 1e-300) / abs(h / 4)
    return R2, err


def forward_quotient(f, x, eps):
    """The plain forward-difference quotient (what an FD fall-back is documented to be)."""
    x = np.array(x, dtype=float).reshape(-1)
    f0 = _scalar(f(x.copy()))
    out = np.zeros(x.size)
    for i in range(x.size):
        xp = x.copy(); xp[i] += eps
        out[i] = (_scalar(f(xp)) - f0) / eps
    return out


def second_derivative_diag(f, x, h=1e-4):
    """Rough diagonal of the Hessian (used only to size the truncation error of a forward difference)."""
    x = np.array(x, dtype=float).reshape(-1)
    f0 = _scalar(f(x.copy()))
    out = np.zeros(x.size)
    for i in range(x.size):
        hi = h * max(1.0, abs(x[i]))
        xp = x.copy(); xp[i] += hi
        xm = x.copy(); xm[i] -= hi
        fp, fm = _scalar(f(xp)), _scalar(f(xm))
        out[i] = (fp - 2 * f0 + fm) / hi ** 2 if np.isfinite(fp) and np.isfinite(fm) else np.nan
    return out


def selftest():
    """Compare against closed-form derivatives; returns list of failure strings."""
    fails = []
    rs = np.random.RandomState(12345)
    tests = [
        ("quadratic", lambda x: -0.5 * float(x @ A @ x), lambda x: -A @ x),
        ("logsumcauchy", lambda x: float(np.sum(-np.log(1 + (x / 0.05) ** 2))), lambda x: -2 * x / (0.05 ** 2 + x ** 2)),
        ("smoothabs", lambda x: float(-np.sum(np.sqrt(x ** 2 + 1e-6)) / 0.3), lambda x: -x / np.sqrt(x ** 2 + 1e-6) / 0.3),
        ("logbeta", lambda x: float(np.sum(2.5 * np.log(x) + 0.5 * np.log(1 - x))) if np.all((x > 0) & (x < 1)) else -np.inf,
         lambda x: 2.5 / x - 0.5 / (1 - x)),
        ("exp", lambda x: float(-np.sum(np.exp(2 * x))), lambda x: -2 * np.exp(2 * x)),
    ]
    M = rs.standard_normal((5, 5)); A = M @ M.T + np.eye(5)
    for name, f, df in tests:
        for rep in range(4):
            x = rs.standard_normal(5)
            if name == "logbeta":
                x = rs.uniform(1e-5, 1 - 1e-5, 5)
                if rep == 0:
                    x[0] = 1e-7; x[1] = 1 - 1e-7
            if name == "smoothabs" and rep == 0:
                x[:2] = [1e-4, -3e-3]
            g, e, _ = richardson_gradient(f, x)
            ref = df(x)
            sc = max(1.0, float(np.max(np.abs(ref))))
            if not np.all(np.isfinite(g)):
                fails.append(f"{name}: non-finite reference {g}")
                continue
            if np.any(np.abs(g - ref) > 100 * e + 1e-7 * sc):
                fails.append(f"{name}: |g-ref|={np.abs(g-ref).max():.3g} err={e.max():.3g}")
            if np.any(e > 1e-4 * sc):
                fails.append(f"{name}: error estimate too large {e.max():.3g} (scale {sc:.3g})")
    return fails
