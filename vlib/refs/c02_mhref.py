"""Reference model for C02 (Metropolis-type kernels).  Pure numpy/scipy.special - never imports cuqi.

* harness-owned target log-densities (value + gradient, up to an additive constant),
* the Metropolis-Hastings log acceptance probability for an arbitrary affine-Gaussian proposal
  q(.|x) = N(a(x), B(x) B(x)^T) that was *identified* from executions,
* the documented proposals of the five samplers,
* exact laws (cdf / whitening) of the small targets used by the stationarity tests.
"""
import math
import numpy as np
from scipy import special as _sp

# --------------------------------------------------------------------------- targets

class Target:
    """log-density up to a constant, gradient, admissible region."""
    name = "?"
    has_bad = None          # None | "neginf" | "nan"

    def lp(self, x):
        raise NotImplementedError

    def grad(self, x):
        raise NotImplementedError

    def in_bad(self, x):
        return False

    def typical(self, rs):
        raise NotImplementedError

    def bad_point(self, rs, x):
        return None


def _spd(rs, d, cond=30.0):
    Q, _ = np.linalg.qr(rs.standard_normal((d, d)))
    ev = np.exp(rs.uniform(0.0, np.log(cond), d)) if d > 1 else np.array([1.0])
    ev = ev / np.exp(np.mean(np.log(ev)))
    return (Q * ev) @ Q.T


class Gauss(Target):
    name = "gauss"

    def __init__(self, rs, d):
        self.d = d
        self.mu = rs.uniform(-2, 2, d)
        self.C = _spd(rs, d) * rs.uniform(0.3, 3.0)
        self.P = np.linalg.inv(self.C)
        self.P = 0.5 * (self.P + self.P.T)
        self.L = np.linalg.cholesky(self.C)

    def lp(self, x):
        r = np.asarray(x, float) - self.mu
        return float(-0.5 * r @ self.P @ r)

    def grad(self, x):
        return -self.P @ (np.asarray(x, float) - self.mu)

    def typical(self, rs):
        return self.mu + self.L @ rs.standard_normal(self.d)


class Banana(Target):
    name = "banana"

    def __init__(self, rs, d):
        assert d >= 2
        self.d = d
        self.s1 = rs.uniform(1.0, 2.5)
        self.b = rs.uniform(0.1, 0.6)

    def lp(self, x):
        x = np.asarray(x, float)
        r = x[1] - self.b * (x[0] ** 2 - self.s1 ** 2)
        return float(-0.5 * x[0] ** 2 / self.s1 ** 2 - 0.5 * r ** 2 - 0.5 * np.sum(x[2:] ** 2))

    def grad(self, x):
        x = np.asarray(x, float)
        r = x[1] - self.b * (x[0] ** 2 - self.s1 ** 2)
        g = -x.copy()
        g[0] = -x[0] / self.s1 ** 2 + r * 2 * self.b * x[0]
        g[1] = -r
        return g

    def typical(self, rs):
        x = rs.standard_normal(self.d)
        x[0] *= self.s1
        x[1] += self.b * (x[0] ** 2 - self.s1 ** 2)
        return x


class Funnel(Target):
    name = "funnel"

    def __init__(self, rs, d):
        assert d >= 2
        self.d = d
        self.sv = rs.uniform(1.0, 2.0)

    def lp(self, x):
        x = np.asarray(x, float)
        v = x[0]
        return float(-0.5 * v ** 2 / self.sv ** 2 - 0.5 * (self.d - 1) * v - 0.5 * math.exp(-v) * np.sum(x[1:] ** 2))

    def grad(self, x):
        x = np.asarray(x, float)
        v = x[0]
        g = np.empty(self.d)
        g[0] = -v / self.sv ** 2 - 0.5 * (self.d - 1) + 0.5 * math.exp(-v) * np.sum(x[1:] ** 2)
        g[1:] = -math.exp(-v) * x[1:]
        return g

    def typical(self, rs):
        v = self.sv * rs.standard_normal()
        x = np.empty(self.d)
        x[0] = v
        x[1:] = math.exp(v / 2) * rs.standard_normal(self.d - 1)
        return x


class Logistic(Target):
    """product of logistic densities (heavier than Gaussian tails, smooth)."""
    name = "logistic"

    def __init__(self, rs, d):
        self.d = d
        self.m = rs.uniform(-1.5, 1.5, d)
        self.s = rs.uniform(0.4, 2.0, d)

    def lp(self, x):
        z = np.abs((np.asarray(x, float) - self.m) / self.s)
        return float(np.sum(-z - 2 * np.log1p(np.exp(-z))))

    def grad(self, x):
        z = (np.asarray(x, float) - self.m) / self.s
        return -np.tanh(z / 2) / self.s

    def typical(self, rs):
        u = rs.uniform(0.02, 0.98, self.d)
        return self.m + self.s * np.log(u / (1 - u))


class Student(Target):
    name = "student"

    def __init__(self, rs, d):
        self.d = d
        self.nu = rs.uniform(2.5, 8.0)
        self.m = rs.uniform(-1, 1, d)

    def lp(self, x):
        r = np.asarray(x, float) - self.m
        return float(-0.5 * (self.nu + self.d) * np.log1p(r @ r / self.nu))

    def grad(self, x):
        r = np.asarray(x, float) - self.m
        return -(self.nu + self.d) * r / (self.nu + r @ r)

    def typical(self, rs):
        g = rs.standard_normal(self.d)
        w = rs.chisquare(self.nu) / self.nu
        return self.m + g / math.sqrt(w)


class Box(Target):
    """Gaussian restricted to a box: -inf outside (bounded support)."""
    name = "box"
    has_bad = "neginf"

    def __init__(self, rs, d, grad_bad="finite", ones_inside=True):
        self.d = d
        self.mu = rs.uniform(0.5, 1.5, d)
        self.sig = rs.uniform(0.7, 2.0, d)
        self.lo = self.mu - rs.uniform(1.0, 2.5, d)
        self.hi = self.mu + rs.uniform(1.0, 2.5, d)       # np.ones(d) is always inside
        self.lo = np.minimum(self.lo, 0.2)
        self.hi = np.maximum(self.hi, 1.8)
        if not ones_inside:                               # shifted box: the default initial point ones(d) is outside
            sh = rs.uniform(2.5, 4.0, d) * (rs.uniform(size=d) < 0.6)
            if not np.any(sh):
                sh[int(rs.randint(d))] = 3.0
            sh = sh * rs.choice([-1.0, 1.0], d)
            self.mu, self.lo, self.hi = self.mu + sh, self.lo + sh, self.hi + sh
        self.grad_bad = grad_bad

    def in_bad(self, x):
        x = np.asarray(x, float)
        return bool(np.any(x < self.lo) or np.any(x > self.hi))

    def lp(self, x):
        x = np.asarray(x, float)
        if self.in_bad(x):
            return -np.inf
        return float(-0.5 * np.sum(((x - self.mu) / self.sig) ** 2))

    def grad(self, x):
        x = np.asarray(x, float)
        if self.in_bad(x):
            return np.full(self.d, np.nan) if self.grad_bad == "nan" else np.zeros(self.d)
        return -(x - self.mu) / self.sig ** 2

    def typical(self, rs):
        return self.lo + (self.hi - self.lo) * rs.uniform(0.1, 0.9, self.d)

    def bad_point(self, rs, x):
        y = np.array(x, float)
        j = int(rs.randint(self.d))
        if rs.uniform() < 0.5:
            y[j] = self.hi[j] + rs.uniform(0.05, 1.0)
        else:
            y[j] = self.lo[j] - rs.uniform(0.05, 1.0)
        return y, j


class NanHalf(Target):
    """Gaussian-like target whose log-density is NaN in the half space x[0] > c (c >= 2.5, so that
    the default initial point ones(d) is admissible)."""
    name = "nanhalf"
    has_bad = "nan"

    def __init__(self, rs, d, grad_bad="finite"):
        self.d = d
        self.c = rs.uniform(2.5, 3.5)
        self.mu = rs.uniform(0.0, 2.0, d)
        self.sig = rs.uniform(0.7, 2.0, d)
        self.grad_bad = grad_bad

    def in_bad(self, x):
        return bool(np.asarray(x, float)[0] > self.c)

    def lp(self, x):
        x = np.asarray(x, float)
        if self.in_bad(x):
            return np.nan
        return float(-0.5 * np.sum(((x - self.mu) / self.sig) ** 2))

    def grad(self, x):
        x = np.asarray(x, float)
        if self.in_bad(x):
            return np.full(self.d, np.nan) if self.grad_bad == "nan" else -(x - self.mu) / self.sig ** 2
        return -(x - self.mu) / self.sig ** 2

    def typical(self, rs):
        for _ in range(100):
            x = self.mu + self.sig * rs.standard_normal(self.d)
            if x[0] < self.c - 0.2:
                return x
        x[0] = self.c - 1.0
        return x

    def bad_point(self, rs, x):
        y = np.array(x, float)
        y[0] = self.c + rs.uniform(0.05, 1.5)
        return y, 0


TARGETS = {"gauss": Gauss, "banana": Banana, "funnel": Funnel, "logistic": Logistic, "student": Student,
           "box": Box, "nanhalf": NanHalf}
MIN_DIM = {"banana": 2, "funnel": 2}

# --------------------------------------------------------------------------- posteriors

class GaussPrior:
    """N(m, C) with C given as scalar / vector / matrix (the form is passed on to the library)."""

    def __init__(self, rs, d, mean_kind, cov_kind):
        self.d = d
        self.m = np.zeros(d) if mean_kind == "zero" else rs.uniform(1.0, 4.0, d) * rs.choice([-1.0, 1.0], d)
        if cov_kind == "scalar":
            self.cov_arg = float(rs.uniform(0.3, 3.0))
            self.C = self.cov_arg * np.eye(d)
        elif cov_kind == "vector":
            self.cov_arg = rs.uniform(0.3, 3.0, d)
            self.C = np.diag(self.cov_arg)
        else:
            self.C = _spd(rs, d, cond=20.0) * rs.uniform(0.3, 3.0)
            self.C = 0.5 * (self.C + self.C.T)
            self.cov_arg = self.C.copy()
        self.P = np.linalg.inv(self.C)
        self.P = 0.5 * (self.P + self.P.T)
        self.L = np.linalg.cholesky(self.C)

    def lp(self, x):
        r = np.asarray(x, float) - self.m
        return float(-0.5 * r @ self.P @ r)

    def grad(self, x):
        return -self.P @ (np.asarray(x, float) - self.m)

    def draw(self, rs):
        return self.m + self.L @ rs.standard_normal(self.d)


class LinLik:
    """y = A x + e, e ~ N(0, s2 I)."""
    kind = "lin"
    has_bad = None

    def __init__(self, rs, d, prior):
        self.d = d
        self.m_out = int(rs.randint(1, d + 2))
        self.A = rs.standard_normal((self.m_out, d)) / math.sqrt(d)
        self.s2 = float(rs.uniform(0.2, 2.0))
        self.y = self.A @ prior.draw(rs) + math.sqrt(self.s2) * rs.standard_normal(self.m_out)

    def fwd(self, x):
        return self.A @ np.asarray(x, float)

    def jac(self, x):
        return self.A

    def ll(self, x):
        r = self.y - self.fwd(x)
        return float(-0.5 * r @ r / self.s2)

    def grad(self, x):
        return self.jac(x).T @ (self.y - self.fwd(x)) / self.s2

    def in_bad(self, x):
        return False


class NonlinLik(LinLik):
    """y = A tanh(x) + 0.2 (A x)^2-like smooth non-linear map."""
    kind = "nonlin"

    def fwd(self, x):
        x = np.asarray(x, float)
        return self.A @ np.tanh(x) + 0.1 * (self.A @ x) ** 2

    def jac(self, x):
        x = np.asarray(x, float)
        return self.A * (1 - np.tanh(x) ** 2)[None, :] + 0.2 * (self.A @ x)[:, None] * self.A


class UserLik:
    """logistic-regression log-likelihood (non-Gaussian posterior), optionally NaN / -inf beyond a half space."""
    kind = "user"

    def __init__(self, rs, d, prior, bad=None):
        self.d = d
        n = int(rs.randint(2, 6))
        self.F = rs.standard_normal((n, d))
        self.t = (rs.uniform(size=n) < 0.5).astype(float)
        self.has_bad = bad
        self.w = rs.standard_normal(d)
        self.w /= np.linalg.norm(self.w)
        # half space w.(x - m) > c is bad; ones(d) and the prior mean are admissible
        self.c = float(max(self.w @ (np.ones(d) - prior.m), 0.0) + rs.uniform(1.0, 2.0))
        self.pm = prior.m.copy()

    def in_bad(self, x):
        if self.has_bad is None:
            return False
        return bool(self.w @ (np.asarray(x, float) - self.pm) > self.c)

    def ll(self, x):
        x = np.asarray(x, float)
        if self.in_bad(x):
            return np.nan if self.has_bad == "nan" else -np.inf
        a = self.F @ x
        # t*log(sig(a)) + (1-t)*log(1-sig(a)) = t*a - log(1+e^a)
        return float(np.sum(self.t * a - np.logaddexp(0.0, a)))

    def grad(self, x):
        x = np.asarray(x, float)
        a = self.F @ x
        return self.F.T @ (self.t - _sp.expit(a))

    def bad_point(self, rs, x):
        x = np.asarray(x, float)
        cur = self.w @ (x - self.pm)
        return x + self.w * (self.c - cur + rs.uniform(0.05, 1.5)), None


class UniformPrior:
    """U(lo, hi) on a box: log-density 0 inside (up to a constant), -inf outside."""

    def __init__(self, rs, d, ones_inside=True):
        self.d = d
        c = rs.uniform(0.5, 1.5, d)
        self.lo = np.minimum(c - rs.uniform(1.0, 2.5, d), 0.2)
        self.hi = np.maximum(c + rs.uniform(1.0, 2.5, d), 1.8)
        if not ones_inside:
            sh = rs.uniform(2.5, 4.0, d) * (rs.uniform(size=d) < 0.6)
            if not np.any(sh):
                sh[int(rs.randint(d))] = 3.0
            sh = sh * rs.choice([-1.0, 1.0], d)
            self.lo, self.hi = self.lo + sh, self.hi + sh
        self.m = 0.5 * (self.lo + self.hi)

    def in_bad(self, x):
        x = np.asarray(x, float)
        return bool(np.any(x < self.lo) or np.any(x > self.hi))

    def lp(self, x):
        return -np.inf if self.in_bad(x) else 0.0

    def grad(self, x):
        return np.zeros(self.d)

    def draw(self, rs):
        return self.lo + (self.hi - self.lo) * rs.uniform(0.1, 0.9, self.d)

    def bad_point(self, rs, x):
        y = np.array(x, float)
        j = int(rs.randint(self.d))
        y[j] = self.hi[j] + rs.uniform(0.05, 1.0) if rs.uniform() < 0.5 else self.lo[j] - rs.uniform(0.05, 1.0)
        return y, j


class PostRef(Target):
    name = "post"

    def __init__(self, prior, lik):
        self.prior, self.lik, self.d = prior, lik, prior.d
        self.has_bad = getattr(lik, "has_bad", None)
        if isinstance(prior, UniformPrior):
            self.has_bad = "neginf"
            self.lo, self.hi = prior.lo, prior.hi

    def ll(self, x):
        return self.lik.ll(x)

    def lp(self, x):
        l = self.lik.ll(x)
        return l + self.prior.lp(x) if np.isfinite(l) else l

    def grad(self, x):
        return self.lik.grad(x) + self.prior.grad(x)

    def in_bad(self, x):
        if isinstance(self.prior, UniformPrior) and self.prior.in_bad(x):
            return True
        return self.lik.in_bad(x)

    def typical(self, rs):
        for _ in range(100):
            x = self.prior.draw(rs)
            if not self.lik.in_bad(x + 0.0):
                return x
        return self.prior.m.copy()

    def bad_point(self, rs, x):
        if isinstance(self.prior, UniformPrior):
            return self.prior.bad_point(rs, x)
        return self.lik.bad_point(rs, x)

    def _uniform_prior(self):
        return isinstance(self.prior, UniformPrior)

    def gaussian_posterior(self):
        """exact mean/cov for the linear-Gaussian case."""
        assert self.lik.kind == "lin"
        A, s2 = self.lik.A, self.lik.s2
        Ppost = self.prior.P + A.T @ A / s2
        Cpost = np.linalg.inv(Ppost)
        mpost = Cpost @ (self.prior.P @ self.prior.m + A.T @ self.lik.y / s2)
        return mpost, 0.5 * (Cpost + Cpost.T)

# --------------------------------------------------------------------------- proposals and the MH ratio

def fit_affine(a, cols):
    """a = x*(0); cols[i] = x*(e_i) -> (a, B)."""
    a = np.asarray(a, float)
    B = np.stack([np.asarray(c, float) - a for c in cols], axis=1)
    return a, B


def log_q(y, a, B):
    """log N(y; a, B B^T) without the (2 pi) constant; B square and non-singular."""
    r = np.linalg.solve(B, np.asarray(y, float) - a)
    sign, ld = np.linalg.slogdet(B)
    return float(-0.5 * r @ r - ld)


def log_q_cov(y, a, C):
    r = np.asarray(y, float) - a
    sign, ld = np.linalg.slogdet(C)
    return float(-0.5 * r @ np.linalg.solve(C, r) - 0.5 * ld)


def log_alpha_full(lp_x, lp_y, lq_x_given_y, lq_y_given_x):
    """MH log acceptance probability min(0, log[pi(y) q(x|y) / (pi(x) q(y|x))]).
    Returns {"la": log alpha, "raw": unclipped log ratio, "mag": sum of |terms| (error scale)}.
    A NaN or -inf target value at the proposal gives alpha = 0 (log alpha = -inf)."""
    if np.isnan(lp_y) or lp_y == -np.inf:
        return {"la": -np.inf, "raw": -np.inf, "mag": 0.0}
    terms = [lp_y, -lp_x, lq_x_given_y, -lq_y_given_x]
    r = float(sum(terms))
    mag = float(sum(abs(t) for t in terms))
    return {"la": (r if np.isnan(r) else min(0.0, r)), "raw": r, "mag": mag}


def documented_proposal(sampler, x, scale, tgt, prop_cov=None, prior=None):
    """(a, Sigma) of the documented proposal N(a, Sigma) of the sampler at x with the given scale.
    MH:   x + scale*xi, xi ~ proposal (default N(0, I))
    CWMH: x_j + scale_j*xi_j
    pCN:  m + sqrt(1-s^2)(x-m) + s*L*xi   (xi ~ N(0, I), L L^T = C the prior covariance)
    MALA/ULA: x + s/2 grad log pi(x) + sqrt(s) xi
    """
    x = np.asarray(x, float)
    d = x.size
    if sampler == "MH":
        S = np.eye(d) if prop_cov is None else prop_cov
        return x.copy(), float(scale) ** 2 * S
    if sampler == "CWMH":
        s = np.ones(d) * np.asarray(scale, float)
        return x.copy(), np.diag(s ** 2)
    if sampler == "PCN":
        s = float(scale)
        return prior.m + math.sqrt(1 - s ** 2) * (x - prior.m), s ** 2 * prior.C
    if sampler in ("MALA", "ULA"):
        s = float(scale)
        return x + 0.5 * s * tgt.grad(x), s * np.eye(d)
    raise KeyError(sampler)

# --------------------------------------------------------------------------- exact laws for the stationarity tests

def norm_cdf(z):
    return _sp.ndtr(z)


def norm_ppf(p):
    return _sp.ndtri(p)


class Stat1DGauss(Target):
    name = "s_gauss1"
    d = 1

    def __init__(self, rs):
        self.mu = float(rs.uniform(-2, 2))
        self.sig = float(rs.uniform(0.5, 2.0))

    def lp(self, x):
        return float(-0.5 * ((np.asarray(x, float).ravel()[0] - self.mu) / self.sig) ** 2)

    def grad(self, x):
        return -(np.asarray(x, float).ravel() - self.mu) / self.sig ** 2

    def draw(self, rs, K):
        return self.mu + self.sig * rs.standard_normal((K, 1))

    def scores(self, X):
        return (X - self.mu) / self.sig

    def natural_scale(self):
        return self.sig


class Stat1DLogistic(Target):
    name = "s_logistic1"
    d = 1

    def __init__(self, rs):
        self.m = float(rs.uniform(-2, 2))
        self.s = float(rs.uniform(0.4, 1.5))

    def lp(self, x):
        z = abs((np.asarray(x, float).ravel()[0] - self.m) / self.s)
        return float(-z - 2 * math.log1p(math.exp(-z)))

    def grad(self, x):
        z = (np.asarray(x, float).ravel() - self.m) / self.s
        return -np.tanh(z / 2) / self.s

    def draw(self, rs, K):
        u = rs.uniform(size=(K, 1))
        u = np.clip(u, 1e-300, 1 - 1e-16)
        return self.m + self.s * (np.log(u) - np.log1p(-u))

    def scores(self, X):
        z = (X - self.m) / self.s
        # normal scores of the exact cdf, computed stably in both tails
        return np.where(z < 0, norm_ppf(_sp.expit(z)), -norm_ppf(_sp.expit(-z)))

    def natural_scale(self):
        return self.s * math.pi / math.sqrt(3)


class Stat1DTrunc(Target):
    """N(mu, sig^2) truncated to [lo, hi]; -inf outside."""
    name = "s_trunc1"
    d = 1
    has_bad = "neginf"

    def __init__(self, rs):
        self.mu = float(rs.uniform(0.5, 1.5))
        self.sig = float(rs.uniform(0.8, 1.5))
        self.lo = self.mu - float(rs.uniform(0.6, 1.5))
        self.hi = self.mu + float(rs.uniform(0.6, 1.5))
        self.lo, self.hi = min(self.lo, 0.5), max(self.hi, 1.5)      # ones(1) inside
        self.Fl = norm_cdf((self.lo - self.mu) / self.sig)
        self.Fh = norm_cdf((self.hi - self.mu) / self.sig)

    def in_bad(self, x):
        v = np.asarray(x, float).ravel()[0]
        return bool(v < self.lo or v > self.hi)

    def lp(self, x):
        if self.in_bad(x):
            return -np.inf
        return float(-0.5 * ((np.asarray(x, float).ravel()[0] - self.mu) / self.sig) ** 2)

    def grad(self, x):
        if self.in_bad(x):
            return np.zeros(1)
        return -(np.asarray(x, float).ravel() - self.mu) / self.sig ** 2

    def draw(self, rs, K):
        u = rs.uniform(size=(K, 1))
        return self.mu + self.sig * norm_ppf(self.Fl + u * (self.Fh - self.Fl))

    def scores(self, X):
        p = (norm_cdf((X - self.mu) / self.sig) - self.Fl) / (self.Fh - self.Fl)
        return norm_ppf(np.clip(p, 1e-16, 1 - 1e-16))

    def natural_scale(self):
        return min(self.sig, (self.hi - self.lo) / 2)


class Stat2DGauss(Gauss):
    name = "s_gauss2"

    def __init__(self, rs):
        super().__init__(rs, 2)

    def draw(self, rs, K):
        return self.mu + rs.standard_normal((K, 2)) @ self.L.T

    def scores(self, X):
        return np.linalg.solve(self.L, (X - self.mu).T).T

    def natural_scale(self):
        return float(np.sqrt(np.min(np.linalg.eigvalsh(self.C))))


class Stat2DProd(Target):
    """independent product: logistic (coordinate 0) x truncated normal (coordinate 1)."""
    name = "s_prod2"
    d = 2
    has_bad = "neginf"

    def __init__(self, rs):
        self.t0, self.t1 = Stat1DLogistic(rs), Stat1DTrunc(rs)

    def in_bad(self, x):
        return self.t1.in_bad(np.asarray(x, float).ravel()[1:2])

    def lp(self, x):
        x = np.asarray(x, float).ravel()
        v = self.t1.lp(x[1:2])
        return v if v == -np.inf else self.t0.lp(x[0:1]) + v

    def grad(self, x):
        x = np.asarray(x, float).ravel()
        return np.concatenate([self.t0.grad(x[0:1]), self.t1.grad(x[1:2])])

    def draw(self, rs, K):
        return np.hstack([self.t0.draw(rs, K), self.t1.draw(rs, K)])

    def scores(self, X):
        return np.hstack([self.t0.scores(X[:, 0:1]), self.t1.scores(X[:, 1:2])])

    def natural_scale(self):
        return min(self.t0.natural_scale(), self.t1.natural_scale())


class StatLinPost(PostRef):
    """linear-Gaussian posterior with known Gaussian law (prior mean non-zero)."""
    name = "s_linpost"

    def __init__(self, rs, d, mean_kind="nonzero"):
        prior = GaussPrior(rs, d, mean_kind, "matrix" if d > 1 else "scalar")
        lik = LinLik(rs, d, prior)
        super().__init__(prior, lik)
        self.mpost, self.Cpost = self.gaussian_posterior()
        self.Lpost = np.linalg.cholesky(self.Cpost)

    def draw(self, rs, K):
        return self.mpost + rs.standard_normal((K, self.d)) @ self.Lpost.T

    def scores(self, X):
        return np.linalg.solve(self.Lpost, (X - self.mpost).T).T

    def natural_scale(self):
        return float(np.sqrt(np.min(np.linalg.eigvalsh(self.Cpost))))


def normal_battery(W):
    """Two-sided p-values (and signs) of a battery of statistics of W (K x d), which is i.i.d. N(0, I)
    under the null: per-coordinate KS, mean, second moment, pairwise cross moments."""
    from scipy import stats
    K, d = W.shape
    out = {}
    for i in range(d):
        w = W[:, i]
        ks = stats.kstest(w, "norm")
        # signed KS: sign of the larger one-sided deviation
        ws = np.sort(w)
        F = norm_cdf(ws)
        dplus = np.max(np.arange(1, K + 1) / K - F)
        dminus = np.max(F - np.arange(0, K) / K)
        out[f"ks{i}"] = (float(ks.pvalue), 1 if dplus >= dminus else -1, float(ks.statistic))
        z = math.sqrt(K) * float(np.mean(w))
        out[f"mean{i}"] = (float(2 * stats.norm.sf(abs(z))), 1 if z > 0 else -1, z)
        z = (float(np.mean(w ** 2)) - 1.0) / math.sqrt(2.0 / K)
        out[f"m2_{i}"] = (float(2 * stats.norm.sf(abs(z))), 1 if z > 0 else -1, z)
        for j in range(i + 1, d):
            z = math.sqrt(K) * float(np.mean(w * W[:, j]))
            out[f"cross{i}{j}"] = (float(2 * stats.norm.sf(abs(z))), 1 if z > 0 else -1, z)
    return out

# --------------------------------------------------------------------------- self test helpers

def fd_grad(f, x, h=1e-5):
    x = np.asarray(x, float)
    g = np.zeros(x.size)
    for i in range(x.size):
        e = np.zeros(x.size); e[i] = h
        g[i] = (f(x + e) - f(x - e)) / (2 * h)
    return g

# --------------------------------------------------------------------------- references for REAL library targets
# (the library object is built by the check; the densities below are independent numpy re-implementations,
#  up to an additive constant, always evaluated on copies of the points)

def _gauss2_terms(y, m, C):
    P = np.linalg.inv(C)
    r = y - m
    return float(-0.5 * r @ P @ r), -P @ r


class GalleryRef(Target):
    """cuqi.distribution.DistributionGallery(<name>) re-implemented from its documentation/source formulas."""
    d = 2

    def __init__(self, which):
        self.which = which
        self.name = "lib_" + which
        self.lib = ("gallery", {"banana": "banana", "funnel": "funnel", "squiggle": "squiggle", "donut": "donut",
                                "bivgauss": "BivariateGaussian"}[which])

    def lp(self, x):
        return self._both(x)[0]

    def grad(self, x):
        return self._both(x)[1]

    def _both(self, x):
        x = np.array(x, dtype=float, copy=True).ravel()
        w = self.which
        if w == "banana":
            a, b = 2.0, 0.2
            y = np.array([x[0] / a, x[1] * a + a * b * (x[0] ** 2 + a ** 2)])
            v, gy = _gauss2_terms(y, np.array([0.0, 4.0]), np.array([[1.0, 0.5], [0.5, 1.0]]))
            return v, np.array([gy[0] / a + gy[1] * a * b * 2 * x[0], gy[1] * a])
        if w == "squiggle":
            y = np.array([x[0], x[1] + math.sin(5 * x[0])])
            v, gy = _gauss2_terms(y, np.zeros(2), np.array([[2.0, 0.25], [0.25, 0.5]]))
            return v, np.array([gy[0] + gy[1] * 5 * math.cos(5 * x[0]), gy[1]])
        if w == "funnel":
            e = math.exp(-x[1])
            v = -0.5 * x[1] - 0.5 * x[0] ** 2 * e - x[1] ** 2 / 18.0
            return float(v), np.array([-x[0] * e, -0.5 + 0.5 * x[0] ** 2 * e - x[1] / 9.0])
        if w == "donut":
            r = float(np.linalg.norm(x))
            v = -(r - 2.6) ** 2 / 0.033
            return float(v), x * ((2.6 / max(r, 1e-300)) - 1) * 2 / 0.033
        if w == "bivgauss":
            s = np.diag(np.linspace(0.5, 1, 2))
            C = s @ np.array([[1.0, 0.9], [0.9, 1.0]]) @ s
            return _gauss2_terms(x, np.zeros(2), C)
        raise KeyError(w)

    def typical(self, rs):
        w = self.which
        if w == "banana":
            y = np.array([0.0, 4.0]) + np.linalg.cholesky(np.array([[1.0, 0.5], [0.5, 1.0]])) @ rs.standard_normal(2)
            x0 = 2.0 * y[0]
            return np.array([x0, (y[1] - 2.0 * 0.2 * (x0 ** 2 + 4.0)) / 2.0])
        if w == "squiggle":
            y = np.linalg.cholesky(np.array([[2.0, 0.25], [0.25, 0.5]])) @ rs.standard_normal(2)
            return np.array([y[0], y[1] - math.sin(5 * y[0])])
        if w == "funnel":
            v = 3.0 * rs.standard_normal() * 0.5
            return np.array([math.exp(v / 2) * rs.standard_normal(), v])
        if w == "donut":
            th = rs.uniform(0, 2 * math.pi)
            r = 2.6 + math.sqrt(0.033 / 2) * rs.standard_normal()
            return r * np.array([math.cos(th), math.sin(th)])
        s = np.diag(np.linspace(0.5, 1, 2))
        return np.linalg.cholesky(s @ np.array([[1.0, 0.9], [0.9, 1.0]]) @ s) @ rs.standard_normal(2)


class StatBanana(GalleryRef):
    """exact law of the gallery banana: T(x) = (x0/a, a x1 + a b (x0^2 + a^2)) ~ N([0,4], [[1,.5],[.5,1]]), |det T'| = 1."""
    def __init__(self, rs=None):
        super().__init__("banana")
        self.name = "s_banana"
        self.m0 = np.array([0.0, 4.0])
        self.L0 = np.linalg.cholesky(np.array([[1.0, 0.5], [0.5, 1.0]]))

    def draw(self, rs, K):
        Y = self.m0 + rs.standard_normal((K, 2)) @ self.L0.T
        X0 = 2.0 * Y[:, 0]
        return np.column_stack([X0, (Y[:, 1] - 0.4 * (X0 ** 2 + 4.0)) / 2.0])

    def scores(self, X):
        Y = np.column_stack([X[:, 0] / 2.0, 2.0 * X[:, 1] + 0.4 * (X[:, 0] ** 2 + 4.0)])
        return np.linalg.solve(self.L0, (Y - self.m0).T).T

    def natural_scale(self):
        return 1.0


class LibGauss(Gauss):
    """cuqi.distribution.Gaussian(mean, <form>=...) as the target itself."""
    def __init__(self, rs, d, form):
        super().__init__(rs, d)
        self.name = "lib_gauss"
        self.form = form
        if form == "cov_scalar":
            v = float(rs.uniform(0.3, 3.0)); self.C = v * np.eye(d); self.arg = v
        elif form == "cov_vector":
            v = rs.uniform(0.3, 3.0, d); self.C = np.diag(v); self.arg = v.copy()
        elif form == "cov":
            self.arg = self.C.copy()
        elif form == "prec":
            self.arg = np.linalg.inv(self.C); self.arg = 0.5 * (self.arg + self.arg.T); self.C = np.linalg.inv(self.arg)
        elif form == "sqrtcov":
            w, V = np.linalg.eigh(self.C)          # symmetric root: R R^T = R^T R = C (either convention)
            self.arg = (V * np.sqrt(w)) @ V.T
        elif form == "sqrtprec":
            w, V = np.linalg.eigh(np.linalg.inv(self.C))
            self.arg = (V * np.sqrt(w)) @ V.T
        else:
            raise KeyError(form)
        self.C = 0.5 * (self.C + self.C.T)
        self.P = np.linalg.inv(self.C); self.P = 0.5 * (self.P + self.P.T)
        self.L = np.linalg.cholesky(self.C)
        self.lib = ("gauss", form)


class GeomLik(LinLik):
    """y = A par2fun(x) + e with the documented par2fun of a cuqi geometry, implemented here independently:
    kl / kl_lin : KLExpansion (sine basis, all modes) on arange(N) / linspace(0,1,N)
    step        : StepExpansion with n_steps = d on a grid with N >= d nodes
    mapped      : MappedGeometry(Continuous1D(d), map) with map x -> x^3/3 + x or exp(x/2)"""
    kind = "geom"

    def __init__(self, rs, d, prior, gkind):
        self.d, self.gkind = d, gkind
        if gkind in ("kl", "kl_lin"):
            self.N = d
            self.decay, self.tau = float(rs.choice([1.0, 1.5, 2.5])), float(rs.choice([1.0, 2.0]))
            K = np.zeros((d, d))
            for k in range(d):
                for i in range(d - 1):
                    K[k, i] = math.sin(math.pi / d * (i + 1) * (k + 0.5)) / ((i + 1) ** self.decay * self.tau)
                K[k, d - 1] = (-1) ** k / 2.0 / (d ** self.decay * self.tau)
            self.K = K
            self.grid = np.arange(d) if gkind == "kl" else np.linspace(0, 1, d)
        elif gkind == "step":
            self.N = d * int(rs.choice([1, 2, 3])) + int(rs.choice([0, 1]))
            self.unit_grid = bool(rs.uniform() < 0.5)
            self.grid = np.arange(self.N, dtype=float) if self.unit_grid else np.linspace(0.0, 1.0, self.N)
            K = np.zeros((self.N, d))
            x0, Ltot = self.grid[0], self.grid[-1] - self.grid[0]
            for i in range(d):
                start, end = x0 + i * Ltot / d, x0 + (i + 1) * Ltot / d
                if i == d - 1:
                    end = self.grid[-1]
                for k, g in enumerate(self.grid):
                    if (g > start or (i == 0 and g >= start)) and g <= end:
                        K[k, i] = 1.0
            self.K = K
        elif gkind == "mapped":
            self.N = d
            self.map_kind = str(rs.choice(["cubic", "exp"]))
            self.K = None
        else:
            raise KeyError(gkind)
        self.m_out = int(rs.randint(1, d + 2))
        self.A = rs.standard_normal((self.m_out, self.N)) / math.sqrt(self.N)
        self.s2 = float(rs.uniform(0.2, 2.0))
        self.y = self.A @ self.p2f(prior.draw(rs)) + math.sqrt(self.s2) * rs.standard_normal(self.m_out)

    def p2f(self, x):
        x = np.array(x, dtype=float, copy=True).ravel()
        if self.K is not None:
            return self.K @ x
        return x ** 3 / 3 + x if self.map_kind == "cubic" else np.exp(x / 2)

    def map_fn(self, v):
        v = np.asarray(v)
        return v ** 3 / 3 + v if self.map_kind == "cubic" else np.exp(v / 2)

    def fwd(self, x):
        return self.A @ self.p2f(x)

    def fwd_fun(self, f):
        return self.A @ np.array(f, dtype=float, copy=True).ravel()

    def jac(self, x):
        x = np.asarray(x, float).ravel()
        if self.K is not None:
            return self.A @ self.K
        dm = x ** 2 + 1 if self.map_kind == "cubic" else 0.5 * np.exp(x / 2)
        return self.A * dm[None, :]


class GradBad(Target):
    """Hostile target for gradient-based kernels: the log-density is FINITE everywhere, but the gradient is NaN,
    +inf or -inf in the half space x[0] > c (c >= 2.5, so that ones(d) is admissible).  The MH ratio of a Langevin
    proposal landing there is undefined or zero: such a move must never be accepted."""
    name = "gradbad"
    has_bad = "gradnan"

    def __init__(self, rs, d, grad_kind="nan"):
        self.d = d
        self.c = rs.uniform(2.5, 3.5)
        self.mu = rs.uniform(0.0, 2.0, d)
        self.sig = rs.uniform(0.7, 2.0, d)
        self.grad_kind = grad_kind

    def in_bad(self, x):
        return bool(np.asarray(x, float)[0] > self.c)

    def lp(self, x):
        x = np.asarray(x, float)
        return float(-0.5 * np.sum(((x - self.mu) / self.sig) ** 2))

    def grad(self, x):
        x = np.asarray(x, float)
        g = -(x - self.mu) / self.sig ** 2
        if self.in_bad(x):
            k = self.grad_kind
            if k == "nan":
                return np.full(self.d, np.nan)
            if k == "nan_one":
                g = g.copy(); g[0] = np.nan; return g
            return np.full(self.d, np.inf if k == "posinf" else -np.inf)
        return g

    def typical(self, rs):
        for _ in range(100):
            x = self.mu + self.sig * rs.standard_normal(self.d)
            if x[0] < self.c - 0.2:
                return x
        x[0] = self.c - 1.0
        return x

    def bad_point(self, rs, x):
        y = np.array(x, float)
        y[0] = self.c + rs.uniform(0.05, 1.5)
        return y, 0
