"""Reference models for C12 (never imports cuqi).

A forward model, as the documentation of cuqi.model.Model describes it, is

    parameters --par2fun(domain)--> function values --F--> function values --fun2par(range)--> parameters

This module provides, in plain numpy,
  * the parameter<->function maps of the geometries (written from their docstrings),
    together with the derivative of par2fun,
  * a small family of function-space operators F with their Jacobians,
  * Poisson / heat / a parametrised linear steady-state PDE,
  * finite differences with an error estimate.
The specs are plain dicts; the check builds the real cuqi objects from the *same* spec.
"""
import math
import numpy as np

# ----------------------------------------------------------------------------- named maps (user code of a MappedGeometry)

MAPS = {
    # name: (map, inverse, derivative)
    "affine": (lambda x: 2.0 * x + 1.0, lambda y: (y - 1.0) / 2.0, lambda x: 2.0 + 0.0 * x),
    "sinh":   (lambda x: np.sinh(x), lambda y: np.arcsinh(y), lambda x: np.cosh(x)),
    "exp":    (lambda x: np.exp(x), lambda y: np.log(y), lambda x: np.exp(x)),
    "square": (lambda x: x ** 2, lambda y: np.sqrt(y), lambda x: 2.0 * x),
}

# ----------------------------------------------------------------------------- geometries

class RefGeom:
    identity_like = False     # par2fun is the identity up to a reshape (library: _get_identity_geometries)
    has_fun2par = True
    has_gradient = False      # the cuqi object built from the spec carries a `gradient` method
    positive_pars = False     # parameters must be > 0

    def par2fun(self, p):
        raise NotImplementedError
    def fun2par(self, f):
        raise NotImplementedError
    def dfun(self, p):
        """d vecC(par2fun(p)) / d p   as a (fun_dim x par_dim) matrix"""
        raise NotImplementedError
    @property
    def fun_dim(self):
        return int(np.prod(self.fun_shape))
    def geom_gradient(self, direction_fun, p):
        """what a correct `gradient(direction, wrt)` of the geometry returns: dfun(p)^T vec(direction)"""
        return self.dfun(p).T @ np.asarray(direction_fun, dtype=float).reshape(-1)


class Identity1D(RefGeom):
    identity_like = True
    def __init__(self, n):
        self.par_dim, self.fun_shape = n, (n,)
    def par2fun(self, p):
        return np.array(p, dtype=float)
    def fun2par(self, f):
        return np.array(f, dtype=float)
    def dfun(self, p):
        return np.eye(self.par_dim)


class Reshape2D(RefGeom):
    """Image2D (order C/F) and Continuous2D (C): the function value is the parameter vector as a 2-D array."""
    identity_like = True
    def __init__(self, shape, order="C"):
        self.fun_shape, self.order = tuple(shape), order
        self.par_dim = shape[0] * shape[1]
    def par2fun(self, p):
        r, c = self.fun_shape
        p = np.asarray(p, dtype=float)
        out = np.empty((r, c))
        for i in range(r):
            for j in range(c):
                out[i, j] = p[i * c + j] if self.order == "C" else p[i + r * j]
        return out
    def fun2par(self, f):
        r, c = self.fun_shape
        f = np.asarray(f, dtype=float)
        out = np.empty(r * c)
        for i in range(r):
            for j in range(c):
                out[i * c + j if self.order == "C" else i + r * j] = f[i, j]
        return out
    def dfun(self, p):
        n = self.par_dim
        M = np.zeros((n, n))
        for k in range(n):
            e = np.zeros(n); e[k] = 1.0
            M[:, k] = self.par2fun(e).reshape(-1)
        return M


class KL(RefGeom):
    """f_K = sum_{i<N-1} c_i p_i sin(pi/N (i+1)(K+1/2)) + (-1)^K/2 c_{N-1} p_{N-1},  c_i = 1/((i+1)^decay * normalizer);
    only the first num_modes coefficients are parameters (the others are zero)."""
    def __init__(self, n, num_modes=None, decay=2.5, normalizer=12.0):
        self.n = n
        self.par_dim = n if (num_modes is None or num_modes > n) else num_modes
        self.fun_shape = (n,)
        N = n
        T = np.zeros((N, N))
        for K in range(N):
            for i in range(N):
                c = 1.0 / (float(i + 1) ** decay * normalizer)
                if i < N - 1:
                    T[K, i] = c * math.sin(math.pi / N * (i + 1) * (K + 0.5))
                else:
                    T[K, i] = c * ((-1.0) ** K) / 2.0
        self.Tfull = T
        self.T = T[:, :self.par_dim]
    def par2fun(self, p):
        return self.T @ np.asarray(p, dtype=float)
    def fun2par(self, f):
        # projection on the first num_modes coefficients = first entries of the exact inverse transform
        return np.linalg.solve(self.Tfull, np.asarray(f, dtype=float))[:self.par_dim]
    def dfun(self, p):
        return self.T.copy()


class Step(RefGeom):
    """piecewise constant on n_steps equal sub-intervals of [x0, xn]; interval i = (x0+iL/s, x0+(i+1)L/s] (first one closed).
    fun2par projects with mean/max/min over the nodes of an interval."""
    def __init__(self, grid, n_steps, projection="mean"):
        self.grid = np.asarray(grid, dtype=float)
        self.par_dim, self.fun_shape, self.projection = n_steps, (len(grid),), projection
        x0, L = self.grid[0], self.grid[-1] - self.grid[0]
        self.owner = []
        self.margin = np.inf   # distance of the closest node to an interior interval boundary (relative to spacing)
        h = self.grid[1] - self.grid[0]
        for x in self.grid:
            t = (x - x0) / L * n_steps
            i = int(math.ceil(t - 1e-9)) - 1
            i = min(max(i, 0), n_steps - 1)
            self.owner.append(i)
            for b in range(1, n_steps):
                self.margin = min(self.margin, abs(x - (x0 + b * L / n_steps)) / h)
        self.owner = np.array(self.owner)
    def par2fun(self, p):
        return np.asarray(p, dtype=float)[self.owner]
    def fun2par(self, f):
        f = np.asarray(f, dtype=float)
        red = {"mean": np.mean, "max": np.max, "min": np.min}[self.projection]
        return np.array([red(f[self.owner == i]) for i in range(self.par_dim)])
    def dfun(self, p):
        M = np.zeros((len(self.grid), self.par_dim))
        M[np.arange(len(self.grid)), self.owner] = 1.0
        return M


class Mapped(RefGeom):
    def __init__(self, inner, mapname, with_imap=True):
        self.inner, self.mapname = inner, mapname
        self.map, self.imap, self.dmap = MAPS[mapname]
        self.has_fun2par = with_imap and inner.has_fun2par
        self.par_dim, self.fun_shape = inner.par_dim, inner.fun_shape
        self.positive_pars = mapname == "square" or inner.positive_pars
    def par2fun(self, p):
        return self.map(self.inner.par2fun(p))
    def fun2par(self, f):
        return self.inner.fun2par(self.imap(np.asarray(f, dtype=float)))
    def dfun(self, p):
        u = self.inner.par2fun(p)
        return np.diag(self.dmap(u).reshape(-1)) @ self.inner.dfun(p)


class UserExpansion(RefGeom):
    """a user geometry:  f = W (p + a sin p),  W (n x k) of full column rank; fun2par inverts it on its image."""
    def __init__(self, W, a=0.3):
        self.W, self.a = np.asarray(W, dtype=float), a
        self.par_dim, self.fun_shape = self.W.shape[1], (self.W.shape[0],)
        self.Wpinv = np.linalg.pinv(self.W)
    def phi(self, p):
        return p + self.a * np.sin(p)
    def par2fun(self, p):
        return self.W @ self.phi(np.asarray(p, dtype=float))
    def fun2par(self, f):
        q = self.Wpinv @ np.asarray(f, dtype=float)
        p = q.copy()
        for _ in range(60):   # Newton on p + a sin p = q (a < 1: monotone)
            p = p - (p + self.a * np.sin(p) - q) / (1.0 + self.a * np.cos(p))
        return p
    def dfun(self, p):
        return self.W @ np.diag(1.0 + self.a * np.cos(np.asarray(p, dtype=float)))


def make_geom(spec):
    k = spec["kind"]
    if k in ("cont1d", "discrete", "int"):
        g = Identity1D(spec["n"])
    elif k in ("image2d", "tuple", "cont2d"):
        g = Reshape2D(spec["shape"], spec.get("order", "C"))
    elif k == "kl":
        g = KL(spec["n"], spec.get("num_modes"), spec.get("decay", 2.5), spec.get("normalizer", 12.0))
    elif k == "step":
        g = Step(grid_of(spec), spec["n_steps"], spec.get("projection", "mean"))
    elif k == "mapped":
        g = Mapped(make_geom(spec["inner"]), spec["map"], spec.get("imap", True))
    elif k in ("user", "user_c1d"):
        g = UserExpansion(np.array(spec["W"]), spec.get("a", 0.3))
    else:
        raise ValueError(k)
    g.has_gradient = bool(spec.get("gradient", False))
    g.kind = k
    return g

def grid_of(spec):
    return spec.get("x0", 0.0) + spec.get("h", 1.0) * np.arange(spec["n"])

# ----------------------------------------------------------------------------- function-space operators

class Nonlinear:
    """F(u) = A tanh(B u + b) + c (C u)^2   on flattened (C order) function values"""
    def __init__(self, A, B, b, C, c=0.3):
        self.A, self.B, self.b, self.C, self.c = (np.asarray(A, float), np.asarray(B, float), np.asarray(b, float), np.asarray(C, float), c)
        self.m, self.n = self.C.shape
    def __call__(self, u):          # keeps ndarray subclasses alive on purpose (no asarray)
        t = np.tanh(self.B @ u + self.b)
        w = self.C @ u
        return self.A @ t + self.c * w * w
    def jac(self, u):
        u = np.asarray(u, dtype=float)
        t = np.tanh(self.B @ u + self.b)
        return self.A @ (np.diag(1.0 - t * t) @ self.B) + 2.0 * self.c * np.diag(self.C @ u) @ self.C


class Linear:
    def __init__(self, A):
        self.Amat = np.asarray(A, float)
        self.m, self.n = self.Amat.shape
    def __call__(self, u):
        return self.Amat @ u
    def jac(self, u):
        return self.Amat.copy()


class WangCubic:
    """the documented example: F(x) = 10 x2 - 10 x1^3 + 5 x1^2 + 6 x1 (scalar output)"""
    m, n = 1, 2
    def __call__(self, u):
        return 10 * u[1] - 10 * u[0] ** 3 + 5 * u[0] ** 2 + 6 * u[0]
    def jac(self, u):
        return np.array([[-30 * u[0] ** 2 + 10 * u[0] + 6, 10.0]])


class ParamPDE:
    """(K0 + sum_j theta_j K_j) u = b0 + Bm theta ;  observation Cobs u"""
    def __init__(self, K0, Ks, b0, Bm, Cobs):
        self.K0, self.Ks, self.b0, self.Bm, self.Cobs = (np.asarray(K0, float), np.asarray(Ks, float), np.asarray(b0, float),
                                                         np.asarray(Bm, float), np.asarray(Cobs, float))
        self.m, self.n = self.Cobs.shape[0], self.Bm.shape[1]
    def operator(self, theta):
        A = self.K0.copy()
        for j in range(self.n):
            A = A + theta[j] * self.Ks[j]
        return A, self.b0 + self.Bm @ theta
    def __call__(self, theta):
        theta = np.asarray(theta, dtype=float)
        A, b = self.operator(theta)
        return self.Cobs @ np.linalg.solve(A, b)
    def jac(self, theta):
        theta = np.asarray(theta, dtype=float)
        A, b = self.operator(theta)
        u = np.linalg.solve(A, b)
        cols = [np.linalg.solve(A, self.Bm[:, j] - self.Ks[j] @ u) for j in range(self.n)]
        return self.Cobs @ np.array(cols).T


class Poisson:
    """d/dx( kappa du/dx ) discretised as in the Poisson1D test problem: Dx^T diag(kappa) Dx u = source(grid)"""
    def __init__(self, dim, endpoint=1.0, obs_idx=None):
        N = dim - 1
        dx = endpoint / N
        Dx = np.zeros((N + 1, N))
        Dx[0, 0] = 1.0
        for i in range(N):
            Dx[i + 1, i] = -1.0
            if i + 1 < N:
                Dx[i + 1, i + 1] = 1.0
        self.Dx = Dx / dx
        grid = np.array([dx + k * (endpoint - dx) / N for k in range(N)])   # linspace(dx, endpoint, N, endpoint=False)
        self.grid = grid
        self.rhs = 10 * np.exp(-((grid - 0.5) ** 2) / 0.02)
        self.n, self.m = dim, N
    def __call__(self, kappa):
        kappa = np.asarray(kappa, dtype=float)
        A = self.Dx.T @ np.diag(kappa) @ self.Dx
        return np.linalg.solve(A, self.rhs)
    jac = None


class Heat:
    """forward Euler for u_t = u_xx with homogeneous Dirichlet ends, as in the Heat1D test problem; input = initial condition"""
    def __init__(self, dim, endpoint=1.0, max_time=0.02):
        N = dim
        dx = endpoint / (N + 1)
        dt_approx = 5 / 11 * dx ** 2
        max_iter = int(max_time / dt_approx)
        self.times = np.linspace(0, max_time, max_iter + 1, endpoint=True)
        Dxx = np.zeros((N, N))
        for i in range(N):
            Dxx[i, i] = -2.0
            if i > 0: Dxx[i, i - 1] = 1.0
            if i < N - 1: Dxx[i, i + 1] = 1.0
        self.Dxx = Dxx / dx ** 2
        self.n = self.m = N
    def __call__(self, u0):
        u = np.asarray(u0, dtype=float).copy()
        for k in range(len(self.times) - 1):
            dt = self.times[k + 1] - self.times[k]
            u = u + dt * (self.Dxx @ u)
        return u
    def jac(self, u0):
        M = np.eye(self.n)
        for k in range(len(self.times) - 1):
            dt = self.times[k + 1] - self.times[k]
            M = (np.eye(self.n) + dt * self.Dxx) @ M
        return M

# ----------------------------------------------------------------------------- the composed parameter-to-parameter map

class RefModel:
    def __init__(self, op, dom, ran):
        self.op, self.dom, self.ran = op, dom, ran
    def forward_fun(self, f):
        """function values in -> range parameters out"""
        v = np.asarray(self.op(np.asarray(f, dtype=float).reshape(-1)), dtype=float)
        return np.asarray(self.ran.fun2par(v.reshape(self.ran.fun_shape)), dtype=float).reshape(-1)
    def forward(self, p):
        return self.forward_fun(self.dom.par2fun(np.asarray(p, dtype=float)))
    def jac(self, p):
        """analytic Jacobian of the parameter-to-parameter map; only for identity-like range geometries"""
        if not self.ran.identity_like or getattr(self.op, "jac", None) is None:
            return None
        f = self.dom.par2fun(np.asarray(p, dtype=float))
        Jf = self.op.jac(np.asarray(f, dtype=float).reshape(-1)) @ self.dom.dfun(p)      # d vecC(F)/dp
        m = Jf.shape[0]
        P = np.zeros((m, m))                                                          # vecC(function) -> range parameters
        for k in range(m):
            e = np.zeros(m); e[k] = 1.0
            P[:, k] = np.asarray(self.ran.fun2par(e.reshape(self.ran.fun_shape))).reshape(-1)
        return P @ Jf


def fd_jacobian(fun, p, h=1e-5):
    """central differences at step h and h/2, Richardson-extrapolated; returns (J, error estimate = |J_h - J_{h/2}|max)"""
    p = np.asarray(p, dtype=float)
    def J_at(step):
        cols = []
        for j in range(len(p)):
            e = np.zeros(len(p)); e[j] = step * max(1.0, abs(p[j]))
            cols.append((np.asarray(fun(p + e), dtype=float).reshape(-1) - np.asarray(fun(p - e), dtype=float).reshape(-1)) / (2 * e[j]))
        return np.array(cols).T
    J1, J2 = J_at(h), J_at(h / 2)
    J = (4 * J2 - J1) / 3
    return J, float(np.max(np.abs(J1 - J2))) if J1.size else 0.0
