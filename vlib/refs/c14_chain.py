"""C14 reference bookkeeping (pure numpy, never imports cuqi).

* value fingerprints used to diff the attributes of a sampler across one transition,
* the chain a stateless run has to return given its initial point, the observed
  transitions and the requested burn-in,
* the signature of the one known legacy-CWMH aliasing pattern (so that the known finding
  can be matched narrowly and every other mismatch is still reported).
"""
import numpy as np

_SCALARS = (int, float, complex, bool, str, bytes, type(None), np.generic)


def fingerprint(v, depth=0):
    """Hashable, value based description of `v`.  Arrays/sparse matrices/lists/dicts are
    described by value; arbitrary objects only by their type (their identity is checked
    separately by the caller where it matters)."""
    if isinstance(v, np.ndarray):
        a = np.asarray(v)
        if a.dtype == object:
            return ("objarr", a.shape, tuple(fingerprint(x, depth + 1) for x in a.ravel().tolist()))
        return ("arr", a.shape, a.dtype.kind, np.ascontiguousarray(a).tobytes())
    if isinstance(v, _SCALARS):
        if isinstance(v, (float, np.floating)) and v != v:
            return ("nan",)
        if isinstance(v, (bool, np.bool_)):
            return ("b", bool(v))
        if isinstance(v, (int, np.integer)):
            return ("n", float(v))
        if isinstance(v, (float, np.floating)):
            return ("n", float(v))
        return ("s", v)
    if hasattr(v, "tocsr") and hasattr(v, "shape"):  # scipy sparse
        c = v.tocsr().copy()
        c.sum_duplicates(); c.sort_indices()
        return ("sp", tuple(c.shape), c.data.tobytes(), c.indices.tobytes(), c.indptr.tobytes())
    if depth < 4:
        if isinstance(v, (list, tuple)):
            return ("seq", type(v).__name__, tuple(fingerprint(x, depth + 1) for x in v))
        if isinstance(v, dict):
            return ("map", tuple((str(k), fingerprint(x, depth + 1)) for k, x in sorted(v.items(), key=lambda kv: str(kv[0]))))
    return ("obj", type(v).__name__)


def snapshot(d):
    """Fingerprint every entry of an attribute dictionary."""
    return {k: fingerprint(v) for k, v in d.items()}


def changed_keys(before, after):
    out = []
    for k in sorted(set(before) | set(after)):
        if k not in before or k not in after or before[k] != after[k]:
            out.append(k)
    return out


def as_chain(x):
    """(dim, N) float array of a returned chain (Samples.samples, raw array or scalar)."""
    a = np.asarray(x, dtype=float)
    if a.ndim == 0:
        return a.reshape(1, 1)
    if a.ndim == 1:
        return a.reshape(1, -1)
    return a.reshape(a.shape[0], -1)


def column(x):
    return np.array(x, dtype=float, copy=True).reshape(-1)


def expected_stateless_chain(x0, transition_states, Nb):
    """Chain of a stateless run: [x0, states produced by the transitions][Nb:]."""
    cols = [column(x0)] + [column(s) for s in transition_states]
    return np.stack(cols, axis=1)[:, Nb:]


def is_previous_overwritten_pattern(returned, x0, transition_states, Nb):
    """True when `returned` is exactly what is obtained if every transition overwrote the
    stored previous state with the new one: full = [c1, c2, ..., c_{T}, c_{T}] (c_k the state
    produced by transition k) instead of [x0, c1, ..., c_T]; and that differs from the
    correct chain."""
    T = len(transition_states)
    if T == 0:
        return False
    cs = [column(s) for s in transition_states]
    full = np.stack(cs + [cs[-1]], axis=1)[:, Nb:]
    good = expected_stateless_chain(x0, transition_states, Nb)
    return returned.shape == full.shape and np.array_equal(returned, full) and not np.array_equal(full, good)
