"""Reference models for C18 (PDE machinery).  Pure numpy - never imports cuqi; scipy is used only
in `selftest` to cross-validate the references.

* Euler recurrences written from the documentation of TimeDependentLinearPDE
  (forward: from u at t gives u at t+dt with the operator/source of time t;
   backward: from u at t-dt gives u at t with the operator/source of time t).
* Interpolating splines with "not-a-knot" knot placement, built from the Cox-de Boor recursion
  and a dense collocation solve (degree 2: interior knots at the interval midpoints without the
  first and last; degree 3: interior knots at the data sites without the second and second-to-last).
  `interp_matrix(x, xnew, k)` returns the *linear operator* mapping nodal values to interpolated
  values, so tensor-product interpolation is `Mx @ U @ Mt.T`.
"""
import numpy as np


# ------------------------------------------------------------------ Euler recurrences
def dense(A):
    if hasattr(A, "toarray"):
        A = A.toarray()
    return np.asarray(A, dtype=float)


def euler_reference(op_of_t, src_of_t, ic, ts, method):
    """Whole trajectory (n x nt) by explicit loops.  op_of_t/src_of_t: callables of time."""
    ts = np.asarray(ts, dtype=float)
    ic = np.asarray(ic, dtype=float).ravel()
    n, nt = ic.size, ts.size
    U = np.zeros((n, nt))
    U[:, 0] = ic
    for k in range(nt - 1):
        dt = ts[k + 1] - ts[k]
        if method == "forward_euler":
            A, f = dense(op_of_t(ts[k])), np.asarray(src_of_t(ts[k]), dtype=float).ravel()
            U[:, k + 1] = U[:, k] + dt * (A @ U[:, k] + f)
        elif method == "backward_euler":
            A, f = dense(op_of_t(ts[k + 1])), np.asarray(src_of_t(ts[k + 1]), dtype=float).ravel()
            U[:, k + 1] = np.linalg.solve(np.eye(n) - dt * A, U[:, k] + dt * f)
        else:
            raise ValueError(method)
    return U


def euler_level_defect(op_of_t, src_of_t, U, ts, k, method):
    """Defect of the stored level k+1 w.r.t. the recurrence started from the *stored* level k.
    Returns (defect_norm, scale)."""
    ts = np.asarray(ts, dtype=float)
    dt = ts[k + 1] - ts[k]
    uk, uk1 = U[:, k], U[:, k + 1]
    if method == "forward_euler":
        A, f = dense(op_of_t(ts[k])), np.asarray(src_of_t(ts[k]), dtype=float).ravel()
        rhs = uk + dt * (A @ uk + f)
        d = uk1 - rhs
        scale = np.abs(uk).max() + dt * (np.abs(A).sum(axis=1).max() * np.abs(uk).max() + np.abs(f).max()) + np.abs(uk1).max()
    else:
        A, f = dense(op_of_t(ts[k + 1])), np.asarray(src_of_t(ts[k + 1]), dtype=float).ravel()
        M = np.eye(len(uk)) - dt * A
        d = M @ uk1 - (uk + dt * f)
        scale = np.abs(M).sum(axis=1).max() * np.abs(uk1).max() + np.abs(uk).max() + dt * np.abs(f).max()
    return float(np.abs(d).max()), float(scale) + 1e-300


# ------------------------------------------------------------------ B-splines (Cox - de Boor)
def notaknot_knots(x, k):
    x = np.asarray(x, dtype=float)
    n = x.size
    if n < k + 1:
        raise ValueError("need at least k+1 sites")
    if k == 1:
        interior = x[1:-1]
    elif k == 2:
        mid = 0.5 * (x[1:] + x[:-1])
        interior = mid[1:-1]
    elif k == 3:
        interior = x[2:-2]
    else:
        raise ValueError("degree 1, 2 or 3 only")
    return np.concatenate([[x[0]] * (k + 1), interior, [x[-1]] * (k + 1)])


def bspline_design(t, k, xs):
    """Dense matrix B[j, i] = B_{i,k}(xs[j]) for the knot vector t (len = nbasis + k + 1)."""
    t = np.asarray(t, dtype=float)
    xs = np.atleast_1d(np.asarray(xs, dtype=float))
    nb = t.size - k - 1
    out = np.zeros((xs.size, nb))
    # last non-empty knot interval is closed on the right
    last = max(i for i in range(t.size - 1) if t[i] < t[i + 1])
    for j, x in enumerate(xs):
        # degree 0
        N = np.zeros(t.size - 1)
        if x < t[0] or x > t[-1]:
            raise ValueError("evaluation point outside the knot range")
        for i in range(t.size - 1):
            if t[i] <= x < t[i + 1] or (i == last and x == t[i + 1]):
                N[i] = 1.0
                break
        for d in range(1, k + 1):
            Nn = np.zeros(t.size - 1 - d)
            for i in range(t.size - 1 - d):
                a = 0.0
                den = t[i + d] - t[i]
                if den > 0:
                    a += (x - t[i]) / den * N[i]
                den = t[i + d + 1] - t[i + 1]
                if den > 0:
                    a += (t[i + d + 1] - x) / den * N[i + 1]
                Nn[i] = a
            N = Nn
        out[j] = N[:nb]
    return out


def interp_matrix(x, xnew, k):
    """Matrix M (len(xnew) x len(x)) with  s(xnew) = M @ y  for the degree-k not-a-knot interpolating
    spline s of the data (x, y).  x must be strictly increasing."""
    x = np.asarray(x, dtype=float)
    if np.any(np.diff(x) <= 0):
        raise ValueError("sites must be strictly increasing")
    t = notaknot_knots(x, k)
    C = bspline_design(t, k, x)            # collocation matrix (square)
    E = bspline_design(t, k, xnew)
    return E @ np.linalg.inv(C), float(np.linalg.cond(C))


def restriction_indices(grid, sub):
    """Indices i with grid[i] == sub[j] exactly (or None where no node coincides)."""
    grid = np.asarray(grid, dtype=float)
    out = []
    for s in np.atleast_1d(np.asarray(sub, dtype=float)):
        w = np.nonzero(grid == s)[0]
        out.append(int(w[0]) if w.size else None)
    return out


# ------------------------------------------------------------------ self test (scipy used here only)
def selftest():
    """Returns a list of failure strings (empty = fine)."""
    import scipy.interpolate as si
    bad = []
    rs = np.random.RandomState(12345)
    for trial in range(12):
        n = int(rs.randint(4, 14))
        x = np.cumsum(rs.uniform(0.2, 1.5, n))
        y = rs.standard_normal(n)
        xn = np.concatenate([rs.uniform(x[0], x[-1], 7), x[[0, -1, n // 2]]])
        for k in (2, 3):
            M, _ = interp_matrix(x, xn, k)
            ref = si.make_interp_spline(x, y, k=k)(xn)
            if not np.allclose(M @ y, ref, rtol=1e-9, atol=1e-10):
                bad.append(f"spline degree {k} disagrees with scipy.make_interp_spline (n={n})")
        ref = si.CubicSpline(x, y)(xn)       # default bc: not-a-knot
        M, _ = interp_matrix(x, xn, 3)
        if not np.allclose(M @ y, ref, rtol=1e-9, atol=1e-10):
            bad.append("cubic not-a-knot disagrees with scipy.CubicSpline")
        # polynomial reproduction
        for k in (2, 3):
            M, _ = interp_matrix(x, xn, k)
            c = rs.standard_normal(k + 1)
            if not np.allclose(M @ np.polyval(c, x), np.polyval(c, xn), rtol=1e-9, atol=1e-9 * np.abs(np.polyval(c, x)).max()):
                bad.append(f"degree {k} spline does not reproduce polynomials")
    # Euler against closed forms for a scalar equation u' = a u + f
    a, f, u0 = -0.7, 0.3, 1.2
    ts = np.array([0.0, 0.1, 0.35, 0.4, 0.9])
    Uf = euler_reference(lambda t: np.array([[a]]), lambda t: np.array([f]), [u0], ts, "forward_euler")[0]
    Ub = euler_reference(lambda t: np.array([[a]]), lambda t: np.array([f]), [u0], ts, "backward_euler")[0]
    uf, ub = [u0], [u0]
    for dt in np.diff(ts):
        uf.append(uf[-1] * (1 + dt * a) + dt * f)
        ub.append((ub[-1] + dt * f) / (1 - dt * a))
    if not (np.allclose(Uf, uf, rtol=1e-13) and np.allclose(Ub, ub, rtol=1e-13)):
        bad.append("Euler reference disagrees with the scalar closed form")
    return bad
