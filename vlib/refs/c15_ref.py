"""Reference models for C15 (pure numpy/scipy, never imports cuqi).

* dense linear-Gaussian algebra: posterior mean / covariance / precision in the
  *precision* form (the library uses the Kalman-gain form of Tarantola), the
  weighted least-squares solution, the quadratic objective gaps;
* generators of well-conditioned SPD matrices and of their equivalent
  specifications (cov / prec / sqrtcov / sqrtprec  x  scalar / vector /
  diagonal matrix / full / sparse);
* unnormalised log-densities of the non-Gaussian priors used by the
  optimisation-route cases (Cauchy, Laplace, smoothed Laplace, LMRF, CMRF, GMRF)
  and of Gaussian / Cauchy / Laplace noise.
"""
import numpy as np
import scipy.linalg as sla
import scipy.sparse as sps

# ----------------------------------------------------------------------------- linear-Gaussian algebra

def posterior(A, b, mu, Cx, Ce):
    """Posterior of x ~ N(mu, Cx), b | x ~ N(Ax, Ce) in precision form.
    Returns mean, covariance, precision."""
    A = np.asarray(A, float); b = np.asarray(b, float).ravel(); mu = np.asarray(mu, float).ravel()
    Le = np.linalg.cholesky(Ce)
    Lx = np.linalg.cholesky(Cx)
    WA = sla.solve_triangular(Le, A, lower=True)             # Le^-1 A
    Wb = sla.solve_triangular(Le, b, lower=True)
    Px = sla.cho_solve((Lx, True), np.eye(len(mu)))
    P = WA.T @ WA + Px
    P = 0.5 * (P + P.T)
    rhs = WA.T @ Wb + Px @ mu
    cf = sla.cho_factor(P, lower=True)
    mean = sla.cho_solve(cf, rhs)
    C = sla.cho_solve(cf, np.eye(len(mu)))
    return mean, 0.5 * (C + C.T), P

def posterior_kalman(A, b, mu, Cx, Ce):
    """Same posterior through the gain form (used only by the self test)."""
    S = A @ Cx @ A.T + Ce
    K = Cx @ A.T @ np.linalg.inv(S)
    return mu + K @ (b - A @ mu), Cx - K @ A @ Cx

def posterior_lstsq(A, b, mu, Cx, Ce):
    """Posterior mean as the solution of the stacked whitened least-squares problem (self test)."""
    Le = np.linalg.cholesky(Ce); Lx = np.linalg.cholesky(Cx)
    M = np.vstack([np.linalg.solve(Le, A), np.linalg.solve(Lx, np.eye(len(mu)))])
    r = np.concatenate([np.linalg.solve(Le, b), np.linalg.solve(Lx, mu)])
    return np.linalg.lstsq(M, r, rcond=None)[0]

def wls(A, b, Ce):
    """Maximum-likelihood point of b ~ N(Ax, Ce) for full column rank A; returns x, normal matrix."""
    Le = np.linalg.cholesky(Ce)
    WA = sla.solve_triangular(Le, A, lower=True)
    Wb = sla.solve_triangular(Le, np.asarray(b, float).ravel(), lower=True)
    x = np.linalg.lstsq(WA, Wb, rcond=None)[0]
    return x, WA.T @ WA

def quad_gap(P, x, xref):
    """f(xref) - f(x) for a concave quadratic log-density with precision P and maximiser xref."""
    e = np.asarray(x, float).ravel() - np.asarray(xref, float).ravel()
    return 0.5 * float(e @ P @ e)

# ----------------------------------------------------------------------------- SPD generators and specifications

FORMS = ("cov", "prec", "sqrtcov", "sqrtprec")
SHAPES = ("scalar", "vector", "diagmat", "full", "corr", "blockdiag", "banded", "kron", "sparse")

def _sym_tridiag(rs, n, lo, hi):
    """Strictly diagonally dominant symmetric tridiagonal matrix with eigenvalues in about [lo, hi]."""
    mid = 0.5 * (lo + hi)
    off = rs.uniform(-1, 1, max(n - 1, 0)) * 0.2 * lo
    d = rs.uniform(0.8 * mid, 1.0 * mid, n)
    T = np.diag(d)
    if n > 1:
        T += np.diag(off, 1) + np.diag(off, -1)
    return T

def make_spec(rs, n, form, shape, scale):
    """Return (kwargs_value, true_covariance) for a Gaussian of dimension n.

    `scale` is the typical variance.  The eigenvalues of the covariance lie in
    [0.4, 2.5]*scale so that every derived matrix is well conditioned.
    Square-root specifications: `sqrtcov` is always symmetric (the library and its
    documentation disagree on R R^T vs R^T R for non-symmetric R, which is not this
    property's business); `sqrtprec` full is upper triangular with R^T R = precision,
    the convention shared by documentation and code."""
    if shape == "scalar":
        var = float(scale * rs.uniform(0.5, 2.0))
        C = var * np.eye(n)
        val = {"cov": var, "prec": 1.0 / var, "sqrtcov": np.sqrt(var), "sqrtprec": 1.0 / np.sqrt(var)}[form]
        return val, C
    if shape in ("vector", "diagmat"):
        var = scale * rs.uniform(0.5, 2.0, n)
        C = np.diag(var)
        v = {"cov": var, "prec": 1.0 / var, "sqrtcov": np.sqrt(var), "sqrtprec": 1.0 / np.sqrt(var)}[form]
        return (v.copy() if shape == "vector" else np.diag(v)), C
    if shape == "full":
        Q, _ = np.linalg.qr(rs.standard_normal((n, n)))
        w = scale * rs.uniform(0.5, 2.0, n)
        C = (Q * w) @ Q.T; C = 0.5 * (C + C.T)
        if form == "cov":
            return C.copy(), C
        if form == "prec":
            P = (Q / w) @ Q.T
            return 0.5 * (P + P.T), C
        if form == "sqrtcov":
            S = (Q * np.sqrt(w)) @ Q.T
            return 0.5 * (S + S.T), C
        P = (Q / w) @ Q.T; P = 0.5 * (P + P.T)
        R = np.linalg.cholesky(P).T                      # upper, R^T R = P
        return R, C
    if shape == "corr":
        # strongly correlated: AR(1) correlation (0.8 or 0.95) between heteroscedastic components
        rho = 0.8 if rs.uniform() < 0.5 else 0.95
        idx = np.arange(n)
        Rm = rho ** np.abs(idx[:, None] - idx[None, :])
        sd = np.sqrt(scale * rs.uniform(0.5, 2.0, n))
        C = sd[:, None] * Rm * sd[None, :]; C = 0.5 * (C + C.T)
        if form == "cov":
            return C.copy(), C
        w, Q = np.linalg.eigh(C)
        if form == "prec":
            P = (Q / w) @ Q.T
            return 0.5 * (P + P.T), C
        if form == "sqrtcov":
            Sq = (Q * np.sqrt(w)) @ Q.T
            return 0.5 * (Sq + Sq.T), C
        P = (Q / w) @ Q.T; P = 0.5 * (P + P.T)
        return np.linalg.cholesky(P).T, C
    if shape == "banded":
        # dense array with the band structure of the sparse specifications (tri-/bi-diagonal)
        val, C = make_spec(rs, n, form, "sparse", scale)
        return val.toarray(), C
    if shape == "blockdiag":
        # two or three independent groups (fields / sensor groups), each strongly or fully correlated: dense block-diagonal
        if n < 2:
            return make_spec(rs, n, form, "full", scale)
        k = 2 if n < 6 else int(rs.randint(2, 4))
        cuts = sorted(rs.choice(np.arange(1, n), size=k - 1, replace=False).tolist())
        sizes = np.diff([0] + cuts + [n]).tolist()
        vals, Cs = [], []
        for sz in sizes:
            v, Cb = make_spec(rs, int(sz), form, "corr" if (sz > 1 and rs.uniform() < 0.6) else "full", scale)
            vals.append(np.atleast_2d(v)); Cs.append(Cb)
        return sla.block_diag(*vals), sla.block_diag(*Cs)
    if shape == "kron":
        # separable (Kronecker) structure: covariance kron(C1, C2) with a x b = n; every parameterisation factorises too
        a = max((d for d in range(2, int(np.sqrt(n)) + 1) if n % d == 0), default=None)
        if a is None:
            return make_spec(rs, n, form, "blockdiag", scale)
        b = n // a
        v1, C1 = make_spec(rs, a, form, "full", scale)
        idx = np.arange(b)
        C2 = 0.6 ** np.abs(idx[:, None] - idx[None, :])
        w, Q = np.linalg.eigh(C2)
        v2 = {"cov": C2, "prec": (Q / w) @ Q.T, "sqrtcov": (Q * np.sqrt(w)) @ Q.T,
              "sqrtprec": np.linalg.cholesky((Q / w) @ Q.T).T}[form]
        val = np.kron(v1, v2)
        if form in ("cov", "prec", "sqrtcov"):
            val = 0.5 * (val + val.T)
        return val, np.kron(C1, C2)
    if shape == "sparse":
        if form == "cov":
            C = _sym_tridiag(rs, n, 0.5 * scale, 2.0 * scale)
            return sps.csc_matrix(C), C
        if form == "prec":
            P = _sym_tridiag(rs, n, 0.5 / scale, 2.0 / scale)
            return sps.csc_matrix(P), np.linalg.inv(P)
        if form == "sqrtcov":
            S = _sym_tridiag(rs, n, np.sqrt(0.5 * scale), np.sqrt(2.0 * scale))
            return sps.csc_matrix(S), S @ S
        d = rs.uniform(0.8, 1.25, n) / np.sqrt(scale)
        R = np.diag(d)
        if n > 1:
            R += np.diag(rs.uniform(-0.2, 0.2, n - 1) / np.sqrt(scale), 1)   # upper bidiagonal
        return sps.csc_matrix(R), np.linalg.inv(R.T @ R)
    raise ValueError(shape)

# ----------------------------------------------------------------------------- geometry matrices known by construction

def step_matrix(nf, n_steps):
    """par -> function values of a step expansion on linspace(0,1,nf): documented intervals
    (x0+i L/n, x0+(i+1) L/n], first one closed on the left."""
    grid = np.linspace(0.0, 1.0, nf)
    G = np.zeros((nf, n_steps))
    for j, t in enumerate(grid):
        i = int(np.ceil(t * n_steps - 1e-9)) - 1
        i = min(max(i, 0), n_steps - 1)
        G[j, i] = 1.0
    return G

# ----------------------------------------------------------------------------- difference operator (zero bc, order 1/2) for the MRF priors

def diff1_zero(n):
    """First-order difference with zero boundary: (n+1) x n, rows x_0, x_i - x_{i-1}, -x_{n-1}."""
    D = np.zeros((n + 1, n))
    for i in range(n):
        D[i, i] = 1.0
        D[i + 1, i] = -1.0
    return D

# ----------------------------------------------------------------------------- unnormalised log-densities

def logprior(kind, x, loc, par):
    d = np.asarray(x, float) - loc
    if kind == "gaussian_prec":          # par = precision matrix
        return -0.5 * float(d @ par @ d)
    if kind == "cauchy":                 # par = scale (vector)
        return float(np.sum(-np.log1p((d / par) ** 2)))
    if kind == "laplace":
        return -float(np.sum(np.abs(d))) / par
    if kind == "slaplace":               # par = (scale, beta)
        return -float(np.sum(np.sqrt(d ** 2 + par[1]))) / par[0]
    if kind == "lmrf":
        return -float(np.sum(np.abs(diff1_zero(len(d)) @ d))) / par
    if kind == "cmrf":
        return -float(np.sum(np.log((diff1_zero(len(d)) @ d) ** 2 + par ** 2)))
    raise ValueError(kind)

def lognoise(kind, r, par):
    """log-density (up to a constant) of the residual r = data - F(x)."""
    if kind == "gaussian":               # par = precision matrix
        return -0.5 * float(r @ par @ r)
    if kind == "cauchy":
        return float(np.sum(-np.log1p((r / par) ** 2)))
    if kind == "laplace":
        return -float(np.sum(np.abs(r))) / par
    raise ValueError(kind)

# ----------------------------------------------------------------------------- self test

def selftest():
    """Returns a list of failure strings (empty = fine)."""
    bad = []
    rs = np.random.RandomState(12345)
    for (m, n) in ((3, 5), (6, 6), (9, 4)):
        A = rs.standard_normal((m, n)); b = rs.standard_normal(m); mu = rs.standard_normal(n)
        _, Cx = make_spec(rs, n, "cov", "full", 1.3)
        _, Ce = make_spec(rs, m, "cov", "full", 0.2)
        m1, C1, P1 = posterior(A, b, mu, Cx, Ce)
        m2, C2 = posterior_kalman(A, b, mu, Cx, Ce)
        m3 = posterior_lstsq(A, b, mu, Cx, Ce)
        if not (np.allclose(m1, m2, rtol=1e-9, atol=1e-11) and np.allclose(m1, m3, rtol=1e-9, atol=1e-11)):
            bad.append(f"posterior mean forms disagree for {m}x{n}")
        if not np.allclose(C1, C2, rtol=1e-9, atol=1e-11) or not np.allclose(C1 @ P1, np.eye(n), atol=1e-9):
            bad.append(f"posterior covariance forms disagree for {m}x{n}")
        g = A.T @ np.linalg.solve(Ce, b - A @ m1) - np.linalg.solve(Cx, m1 - mu)
        if np.max(np.abs(g)) > 1e-9:
            bad.append("gradient at the reference posterior mean does not vanish")
        if m >= n:
            xw, N = wls(A, b, Ce)
            if np.max(np.abs(A.T @ np.linalg.solve(Ce, b - A @ xw))) > 1e-9:
                bad.append("normal equations not satisfied by wls")
    # the same algebra at extreme scales (operator scaled so that the signal-to-noise ratio stays O(1))
    for kx, ke in ((-12, -12), (-10, 4), (8, -8), (4, 8), (-4, -12)):
        m, n = 7, 5
        A = rs.standard_normal((m, n)) * 10.0 ** ((ke - kx) / 2); mu = rs.standard_normal(n) * 10.0 ** (kx / 2)
        _, Cx = make_spec(rs, n, "cov", "corr", 10.0 ** kx)
        _, Ce = make_spec(rs, m, "cov", "corr", 0.1 * 10.0 ** ke)
        b = A @ (mu + np.linalg.cholesky(Cx) @ rs.standard_normal(n)) + np.linalg.cholesky(Ce) @ rs.standard_normal(m)
        m1, C1, P1 = posterior(A, b, mu, Cx, Ce)
        m2, C2 = posterior_kalman(A, b, mu, Cx, Ce)
        m3 = posterior_lstsq(A, b, mu, Cx, Ce)
        d2, d3 = np.sqrt(2 * quad_gap(P1, m2, m1)), np.sqrt(2 * quad_gap(P1, m3, m1))
        if d2 > 1e-6 or d3 > 1e-6:
            bad.append(f"posterior mean forms disagree at scales 1e{kx}/1e{ke}: {d2:.2g}, {d3:.2g} standard deviations")
        if np.max(np.abs(C1 - C2)) > 1e-6 * np.max(np.abs(C1)):
            bad.append(f"posterior covariance forms disagree at scales 1e{kx}/1e{ke}")
    # every specification reproduces its covariance
    for form in FORMS:
      for scale_ in (0.7, 3e-12, 2e8):
        for shape in SHAPES:
          for dim_ in (5, 12):
            val, C = make_spec(rs, dim_, form, shape, scale_)
            V = val.toarray() if sps.issparse(val) else np.asarray(val, float)
            if V.ndim == 0: V = V * np.eye(dim_)
            elif V.ndim == 1: V = np.diag(V)
            Cv = {"cov": lambda: V, "prec": lambda: np.linalg.inv(V), "sqrtcov": lambda: V @ V.T,
                  "sqrtprec": lambda: np.linalg.inv(V.T @ V)}[form]()
            if not np.allclose(Cv, C, rtol=1e-7 if shape in ("corr", "blockdiag", "kron") else 1e-9, atol=1e-12 * scale_):
                bad.append(f"specification {form}/{shape} does not reproduce its covariance")
            w = np.linalg.eigvalsh(C)
            if w.min() <= 0 or w.max() / w.min() > (50 if shape not in ("corr", "blockdiag", "kron") else 2e4):
                bad.append(f"specification {form}/{shape} ill conditioned ({w.min()}, {w.max()})")
            if form == "sqrtcov" and not np.allclose(V, V.T):
                bad.append("sqrtcov specification not symmetric")
    # step matrix: partition of the nodes, documented intervals
    for nf, k in ((7, 3), (12, 4), (10, 10), (11, 2)):
        G = step_matrix(nf, k)
        if not np.all(G.sum(axis=1) == 1) or np.any(G.sum(axis=0) == 0):
            bad.append(f"step matrix {nf},{k} is not a partition")
        grid = np.linspace(0, 1, nf)
        for j, t in enumerate(grid):
            i = int(np.argmax(G[j]))
            lo, hi = i / k, (i + 1) / k
            if not ((lo - 1e-9 < t <= hi + 1e-9) or (i == 0 and abs(t) < 1e-12)):
                bad.append(f"step matrix {nf},{k}: node {j} in wrong interval")
    # difference stencils against numpy.diff
    x = rs.standard_normal(6)
    if not np.allclose(diff1_zero(6) @ x, np.diff(np.concatenate([[0.0], x, [0.0]]))):
        bad.append("diff1_zero disagrees with numpy.diff of the zero-padded vector")
    return bad
