"""Dense, loop-built finite-difference stencils written from the documentation
(cuqi.operator docstrings / GMRF notes).  Never imports cuqi."""
import numpy as np

BCS1 = ("zero", "periodic", "neumann", "backward", "none")
BCS2 = ("zero", "periodic", "neumann")

def first_order_1d(N, bc, dx=1.0):
    """Rows are first differences x_i - x_{i-1}; boundary rows per bc."""
    rows = []
    if bc == "zero":        # x_{-1} = x_N = 0  -> N+1 differences
        for i in range(N + 1):
            r = np.zeros(N)
            if i < N: r[i] += 1
            if i - 1 >= 0: r[i - 1] -= 1
            rows.append(r)
    elif bc == "periodic":  # indices wrap; N+1 rows (first difference listed at both ends)
        for i in range(N + 1):
            r = np.zeros(N)
            r[i % N] += 1
            r[(i - 1) % N] -= 1
            rows.append(r)
    elif bc == "neumann":   # only interior differences
        for i in range(N - 1):
            r = np.zeros(N)
            r[i + 1] += 1; r[i] -= 1
            rows.append(r)
    elif bc == "backward":  # x_{-1} = 0
        for i in range(N):
            r = np.zeros(N)
            r[i] += 1
            if i - 1 >= 0: r[i - 1] -= 1
            rows.append(r)
    elif bc == "none":
        rows = list(np.eye(N))
    else:
        raise ValueError(bc)
    return np.array(rows).reshape(len(rows), N) / dx

def second_order_1d(N, bc, dx=1.0):
    """Rows are -x_i + 2 x_{i-1} - x_{i-2}."""
    rows = []
    if bc == "zero":
        for i in range(N + 2):
            r = np.zeros(N)
            for j, c in ((i, -1.0), (i - 1, 2.0), (i - 2, -1.0)):
                if 0 <= j < N: r[j] += c
            rows.append(r)
    elif bc == "periodic":
        for i in range(N + 2):
            r = np.zeros(N)
            for j, c in ((i, -1.0), (i - 1, 2.0), (i - 2, -1.0)):
                r[j % N] += c
            rows.append(r)
    elif bc == "neumann":
        for i in range(N - 2):
            r = np.zeros(N)
            r[i] -= 1; r[i + 1] += 2; r[i + 2] -= 1
            rows.append(r)
    else:
        raise ValueError(bc)
    return np.array(rows).reshape(len(rows), N) / dx ** 2

def diff_1d(N, bc, order, dx=1.0):
    if order == 0:
        return np.eye(N)
    return first_order_1d(N, bc, dx) if order == 1 else second_order_1d(N, bc, dx)

def stack_2d(D, N):
    """Documented 2D stacking: differences along the fast axis for every line, then
    along the slow axis: vstack(kron(I, D), kron(D, I)), built by loops."""
    m = D.shape[0]
    top = np.zeros((N * m, N * N))
    for blk in range(N):            # kron(I, D)
        top[blk * m:(blk + 1) * m, blk * N:(blk + 1) * N] = D
    bot = np.zeros((m * N, N * N))
    for a in range(m):              # kron(D, I)
        for b in range(N):
            for k in range(N):
                bot[a * N + k, b * N + k] = D[a, b]
    return np.vstack([top, bot])

def diff_op(N, bc, order, physical_dim=1, dx=1.0):
    D = diff_1d(N, bc, order, dx)
    return D if physical_dim == 1 else stack_2d(D, N)

def null_space_dim(N, bc, order, physical_dim):
    """Dimension of the null space implied by the boundary condition."""
    if order == 0 or bc in ("zero", "backward", "none"):
        return 0
    if order == 1:
        return 1                    # constants (periodic, neumann)
    if bc == "periodic":
        return 1
    # order 2 neumann: affine functions per axis
    return 2 if physical_dim == 1 else 4

def null_space_basis(N, bc, order, physical_dim):
    k = null_space_dim(N, bc, order, physical_dim)
    if k == 0:
        return np.zeros((N ** physical_dim, 0))
    if physical_dim == 1:
        cols = [np.ones(N)]
        if k == 2: cols.append(np.arange(N, dtype=float))
        return np.array(cols).T
    i = np.repeat(np.arange(N, dtype=float), N); j = np.tile(np.arange(N, dtype=float), N)
    cols = [np.ones(N * N)]
    if k == 4: cols += [i, j, i * j]
    return np.array(cols).T

def pseudo_logdet_and_rank(P, tol=1e-9):
    w = np.linalg.eigvalsh((P + P.T) / 2)
    keep = w > tol * max(1.0, w.max())
    return float(np.sum(np.log(w[keep]))), int(np.sum(keep)), w
