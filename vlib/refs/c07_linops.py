"""Reference for C07 (no cuqi import): the documented parameter<->function maps of the identity-like,
image-reshaping and orthogonal-map geometries as explicit matrices, and the parameter-space matrix of a
user operator given on (C-flattened) function values.

par2fun_matrix(spec) = E with  funvals.ravel(order='C') == E @ par.
For these geometry classes E is orthogonal, so fun2par == E^T and

    forward_par  = E_r^T  M  E_d          adjoint_par = E_d^T  M^T  E_r = forward_par^T
"""
import numpy as np

TWO_D = ("default2d", "image_C", "image_F", "cont2d")

def fun_shape(spec):
    if spec["g"] in TWO_D:
        return tuple(spec["shape"])
    if spec["g"] == "image_visual":
        return (spec["shape"][0] * spec["shape"][1],)
    return (spec["n"],)

def par2fun_matrix(spec):
    g = spec["g"]
    n = int(np.prod(fun_shape(spec)))
    E = np.zeros((n, n))
    if g == "image_F":
        r, c = spec["shape"]
        # parameter index p (column-major: p = i + r*j) -> pixel (i, j) -> C-flattened position i*c + j
        for j in range(c):
            for i in range(r):
                E[i * c + j, i + r * j] = 1.0
    elif g == "mapped_flip":
        for i in range(n):
            E[n - 1 - i, i] = 1.0
    elif g in ("default", "cont1d", "cont1d_grid", "discrete", "discrete_names", "image_visual", "step_eq",
               "default2d", "image_C", "cont2d"):
        for i in range(n):
            E[i, i] = 1.0
    else:
        raise ValueError("no exact reference for geometry " + g)
    return E

def param_matrix(M, dspec, rspec):
    return par2fun_matrix(rspec).T @ np.asarray(M) @ par2fun_matrix(dspec)
