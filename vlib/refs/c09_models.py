"""Reference models for C09 (Gibbs sweeps).  Pure numpy/scipy, never imports cuqi.

Each model gives, for a joint target with named blocks,
  * ``logjoint(values)``  - the joint log-density written from the textbook formulas,
  * ``draw(rs)``          - one exact joint draw by ancestral sampling,
  * ``pivots(states)``    - pivotal quantities of a list of joint states whose law is known
                            exactly when the states follow the joint law,
and generic helpers that derive the *conditional* of one block from ``logjoint`` alone
(Gaussian conditional mean/precision by exact central differences of a quadratic, Gamma
conditional shape/rate from three evaluations), plus the exact-law test statistics.
"""
import math
import numpy as np
from scipy import stats, special
from vlib.refs import stencils as S

LOG2PI = math.log(2.0 * math.pi)

# ----------------------------------------------------------------------------- densities

def log_gamma_pdf(x, shape, rate):
    x = float(np.asarray(x).reshape(-1)[0])
    if x <= 0:
        return -np.inf
    return shape * math.log(rate) - special.gammaln(shape) + (shape - 1.0) * math.log(x) - rate * x

def log_gauss_prec(x, mean, P):
    """N(mean, P^{-1}) with dense SPD precision P."""
    x = np.asarray(x, float).reshape(-1); mean = np.asarray(mean, float).reshape(-1)
    dev = x - mean
    sign, ld = np.linalg.slogdet(P)
    return 0.5 * ld - 0.5 * len(x) * LOG2PI - 0.5 * float(dev @ P @ dev)

def log_gauss_diag(x, mean, var):
    x = np.asarray(x, float).reshape(-1); mean = np.asarray(mean, float).reshape(-1)
    var = np.broadcast_to(np.asarray(var, float), x.shape)
    if np.any(var <= 0):
        return np.nan
    return float(np.sum(-0.5 * np.log(2 * np.pi * var) - 0.5 * (x - mean) ** 2 / var))

def log_uniform(x, lo, hi):
    x = float(np.asarray(x).reshape(-1)[0])
    return -math.log(hi - lo) if lo <= x <= hi else -np.inf

# ----------------------------------------------------------------------------- models

class Hier:
    """d ~ Gamma(a_d,b_d); l ~ Gamma(a_l,b_l); x|d ~ prior(d); y|x,l ~ N(A x, I/l).

    prior in {"cov","prec"}: x|d ~ N(x0, I/d);  "gmrf": x|d ~ N(x0, (d D^T D)^{-1}) with the
    zero-boundary first-difference operator D; "lmrf": x|d ~ prod Laplace(D x; 0, 1/d).
    If ``y_obs`` is given y is data, otherwise y is a block of the joint."""
    family = "hier"

    def __init__(self, n, m, A, a_d, b_d, a_l, b_l, x0, prior, y_obs=None):
        self.n, self.m, self.A = n, m, np.asarray(A, float)
        self.a_d, self.b_d, self.a_l, self.b_l = a_d, b_d, a_l, b_l
        self.x0 = np.asarray(x0, float)
        self.prior = prior
        self.y_obs = None if y_obs is None else np.asarray(y_obs, float)
        self.D = S.first_order_1d(n, "zero")
        self.Q = self.D.T @ self.D if prior in ("gmrf",) else np.eye(n)
        self.Lq = np.linalg.cholesky(self.Q).T          # Q = Lq^T Lq
        self.names = ["d", "l", "x"] + ([] if y_obs is not None else ["y"])
        self.dims = {"d": 1, "l": 1, "x": n, "y": m}
        self.positive = {"d", "l"}

    def logjoint(self, v):
        d = float(np.asarray(v["d"]).reshape(-1)[0]); l = float(np.asarray(v["l"]).reshape(-1)[0])
        x = np.asarray(v["x"], float).reshape(-1)
        y = self.y_obs if self.y_obs is not None else np.asarray(v["y"], float).reshape(-1)
        out = log_gamma_pdf(d, self.a_d, self.b_d) + log_gamma_pdf(l, self.a_l, self.b_l)
        if not np.isfinite(out):
            return out
        if self.prior == "lmrf":
            scale = 1.0 / d
            out += float(np.sum(-math.log(2 * scale) - np.abs(self.D @ (x - self.x0)) / scale))
        else:
            out += log_gauss_prec(x, self.x0, d * self.Q)
        out += log_gauss_diag(y, self.A @ x, 1.0 / l)
        return out

    def draw(self, rs):
        assert self.prior != "lmrf"
        d = rs.gamma(self.a_d, 1.0 / self.b_d); l = rs.gamma(self.a_l, 1.0 / self.b_l)
        x = self.x0 + np.linalg.solve(self.Lq, rs.standard_normal(self.n)) / math.sqrt(d)
        y = self.A @ x + rs.standard_normal(self.m) / math.sqrt(l)
        return {"d": np.array([d]), "l": np.array([l]), "x": x, "y": y}

    def pivots(self, states):
        """states: list of dicts with d,l,x,y (y always present: block value or the data used)."""
        d = np.array([float(np.asarray(s["d"]).reshape(-1)[0]) for s in states])
        l = np.array([float(np.asarray(s["l"]).reshape(-1)[0]) for s in states])
        X = np.array([np.asarray(s["x"], float).reshape(-1) for s in states])
        Y = np.array([np.asarray(s["y"], float).reshape(-1) for s in states])
        zx = np.sqrt(d)[:, None] * ((X - self.x0) @ self.Lq.T)       # iid N(0,1)
        zy = np.sqrt(l)[:, None] * (Y - X @ self.A.T)                # iid N(0,1)
        return {
            "d": (d, ("gamma", self.a_d, self.b_d)),
            "l": (l, ("gamma", self.a_l, self.b_l)),
            "d*|x-x0|^2_Q": (np.sum(zx ** 2, axis=1), ("chi2", self.n)),
            "l*|y-Ax|^2": (np.sum(zy ** 2, axis=1), ("chi2", self.m)),
            "sqrt(d)L(x-x0)": (zx.ravel(), ("norm",)),
            "sqrt(l)(y-Ax)": (zy.ravel(), ("norm",)),
            "sqrt(d)L(x-x0)[0]": (zx[:, 0], ("norm",)),
            "sqrt(l)(y-Ax)[0]": (zy[:, 0], ("norm",)),
        }

    pairs = [("d", "d*|x-x0|^2_Q"), ("l", "l*|y-Ax|^2"), ("d", "l"), ("sqrt(d)L(x-x0)[0]", "sqrt(l)(y-Ax)[0]"),
             ("d*|x-x0|^2_Q", "l*|y-Ax|^2"), ("d", "sqrt(d)L(x-x0)[0]")]


class Chain:
    """v1 ~ N(m1, diag(s1)); v_j | v_parent(j) ~ N(B_j v_parent(j) + c_j, diag(s_j)), j >= 2.
    parent(j) defaults to the predecessor (a chain); other choices give forks (a block with two children)."""
    family = "chain"

    def __init__(self, names, dims, m1, Bs, cs, svars, parents=None):
        self.names = list(names)
        self.parents = list(parents) if parents is not None else [None] + list(range(len(names) - 1))
        self.dims = {k: int(dv) for k, dv in zip(names, dims)}
        self.m1 = np.asarray(m1, float)
        self.Bs = [np.asarray(B, float) for B in Bs]
        self.cs = [np.asarray(c, float) for c in cs]
        self.svars = [np.broadcast_to(np.asarray(s, float), (dv,)).copy() for s, dv in zip(svars, dims)]
        self.positive = set()

    def _means(self, v):
        out = [self.m1]
        for j in range(1, len(self.names)):
            out.append(self.Bs[j - 1] @ np.asarray(v[self.names[self.parents[j]]], float).reshape(-1) + self.cs[j - 1])
        return out

    def logjoint(self, v):
        mus = self._means(v)
        return float(sum(log_gauss_diag(v[k], mu, s) for k, mu, s in zip(self.names, mus, self.svars)))

    def draw(self, rs):
        v = {}
        for j, k in enumerate(self.names):
            mu = self.m1 if j == 0 else self.Bs[j - 1] @ v[self.names[self.parents[j]]] + self.cs[j - 1]
            v[k] = mu + np.sqrt(self.svars[j]) * rs.standard_normal(self.dims[k])
        return v

    def pivots(self, states):
        res = {k: [] for k in self.names}
        for s in states:
            mus = self._means(s)
            for k, mu, sv in zip(self.names, mus, self.svars):
                res[k].append((np.asarray(s[k], float).reshape(-1) - mu) / np.sqrt(sv))
        out = {}
        for k in self.names:
            R = np.array(res[k])
            out[f"res_{k}"] = (R.ravel(), ("norm",))
            out[f"res_{k}[0]"] = (R[:, 0], ("norm",))
            out[f"|res_{k}|^2"] = (np.sum(R ** 2, axis=1), ("chi2", R.shape[1]))
        return out

    @property
    def pairs(self):
        p = []
        for j in range(1, len(self.names)):
            a, b = self.names[self.parents[j]], self.names[j]
            p.append((f"res_{a}[0]", f"res_{b}[0]"))
            p.append((f"|res_{a}|^2", f"|res_{b}|^2"))
        return p


class Scalar3:
    """s ~ N(mu, sig2); d ~ U(lo, hi); x | s,d ~ N(s, 1/d)   (the model of the HybridGibbs unit tests)."""
    family = "scalar3"

    def __init__(self, mu, sig2, lo, hi):
        self.mu, self.sig2, self.lo, self.hi = float(mu), float(sig2), float(lo), float(hi)
        self.names = ["x", "d", "s"]
        self.dims = {"x": 1, "d": 1, "s": 1}
        self.positive = {"d"}

    def logjoint(self, v):
        s = float(np.asarray(v["s"]).reshape(-1)[0]); d = float(np.asarray(v["d"]).reshape(-1)[0])
        x = float(np.asarray(v["x"]).reshape(-1)[0])
        lu = log_uniform(d, self.lo, self.hi)
        if not np.isfinite(lu):
            return lu
        return lu + log_gauss_diag([s], [self.mu], self.sig2) + log_gauss_diag([x], [s], 1.0 / d)

    def draw(self, rs):
        s = self.mu + math.sqrt(self.sig2) * rs.standard_normal()
        d = rs.uniform(self.lo, self.hi)
        x = s + rs.standard_normal() / math.sqrt(d)
        return {"x": np.array([x]), "d": np.array([d]), "s": np.array([s])}

    def pivots(self, states):
        s = np.array([float(np.asarray(t["s"]).reshape(-1)[0]) for t in states])
        d = np.array([float(np.asarray(t["d"]).reshape(-1)[0]) for t in states])
        x = np.array([float(np.asarray(t["x"]).reshape(-1)[0]) for t in states])
        return {"s": ((s - self.mu) / math.sqrt(self.sig2), ("norm",)),
                "d": (d, ("uniform", self.lo, self.hi)),
                "(x-s)sqrt(d)": ((x - s) * np.sqrt(d), ("norm",))}

    pairs = [("s", "(x-s)sqrt(d)"), ("d", "(x-s)sqrt(d)"), ("s", "d")]

class Multi:
    """x ~ N(x0, I/d) (d ~ Gamma(a_d,b_d), or d fixed);  J data sets  y_j | x, l_j ~ N(A_j x, I/l_j),  l_j ~ Gamma(a_j, b_j).
    Every data set has its own forward matrix and its own noise-precision block, so the conditional of x is a
    posterior with several *different* likelihoods.  The y_j are data (fixed `ys`, or the values found in the state)."""
    family = "multi"

    def __init__(self, n, As, x0, a_l, b_l, hyper_d, a_d=3.0, b_d=2.0, d_fixed=1.0, ys=None):
        self.n = n
        self.As = [np.asarray(A, float) for A in As]
        self.ms = [A.shape[0] for A in self.As]
        self.J = len(self.As)
        self.x0 = np.asarray(x0, float)
        self.a_l, self.b_l = list(a_l), list(b_l)
        self.hyper_d, self.a_d, self.b_d, self.d_fixed = bool(hyper_d), a_d, b_d, float(d_fixed)
        self.ys = None if ys is None else [np.asarray(y, float) for y in ys]
        self.lnames = [f"l{j + 1}" for j in range(self.J)]
        self.data_names = [f"y{j + 1}" for j in range(self.J)]
        self.names = ["x"] + self.lnames + (["d"] if self.hyper_d else [])
        self.dims = {"x": n, "d": 1, **{k: 1 for k in self.lnames}, **{k: m for k, m in zip(self.data_names, self.ms)}}
        self.positive = set(self.lnames) | {"d"}

    def _y(self, v, j):
        k = self.data_names[j]
        return np.asarray(v[k], float).reshape(-1) if k in v else self.ys[j]

    def logjoint(self, v):
        x = np.asarray(v["x"], float).reshape(-1)
        d = float(np.asarray(v["d"]).reshape(-1)[0]) if self.hyper_d else self.d_fixed
        out = log_gamma_pdf(d, self.a_d, self.b_d) if self.hyper_d else 0.0
        if not np.isfinite(out):
            return out
        out += log_gauss_diag(x, self.x0, 1.0 / d)
        for j in range(self.J):
            l = float(np.asarray(v[self.lnames[j]]).reshape(-1)[0])
            lg = log_gamma_pdf(l, self.a_l[j], self.b_l[j])
            if not np.isfinite(lg):
                return lg
            out += lg + log_gauss_diag(self._y(v, j), self.As[j] @ x, 1.0 / l)
        return out

    def draw(self, rs):
        d = rs.gamma(self.a_d, 1.0 / self.b_d) if self.hyper_d else self.d_fixed
        x = self.x0 + rs.standard_normal(self.n) / math.sqrt(d)
        v = {"x": x}
        if self.hyper_d:
            v["d"] = np.array([d])
        for j in range(self.J):
            l = rs.gamma(self.a_l[j], 1.0 / self.b_l[j])
            v[self.lnames[j]] = np.array([l])
            v[self.data_names[j]] = self.As[j] @ x + rs.standard_normal(self.ms[j]) / math.sqrt(l)
        return v

    def pivots(self, states):
        X = np.array([np.asarray(s["x"], float).reshape(-1) for s in states])
        d = np.array([float(np.asarray(s["d"]).reshape(-1)[0]) for s in states]) if self.hyper_d else np.full(len(states), self.d_fixed)
        zx = np.sqrt(d)[:, None] * (X - self.x0)
        out = {"sqrt(d)(x-x0)": (zx.ravel(), ("norm",)), "sqrt(d)(x-x0)[0]": (zx[:, 0], ("norm",)),
               "d*|x-x0|^2": (np.sum(zx ** 2, axis=1), ("chi2", self.n))}
        if self.hyper_d:
            out["d"] = (d, ("gamma", self.a_d, self.b_d))
        for j in range(self.J):
            l = np.array([float(np.asarray(s[self.lnames[j]]).reshape(-1)[0]) for s in states])
            Y = np.array([self._y(s, j) for s in states])
            z = np.sqrt(l)[:, None] * (Y - X @ self.As[j].T)
            nm = self.lnames[j]
            out[nm] = (l, ("gamma", self.a_l[j], self.b_l[j]))
            out[f"{nm}*|y-Ax|^2"] = (np.sum(z ** 2, axis=1), ("chi2", self.ms[j]))
            out[f"sqrt({nm})(y-Ax)"] = (z.ravel(), ("norm",))
            out[f"sqrt({nm})(y-Ax)[0]"] = (z[:, 0], ("norm",))
        return out

    @property
    def pairs(self):
        p = [("sqrt(d)(x-x0)[0]", f"sqrt({nm})(y-Ax)[0]") for nm in self.lnames]
        p += [(nm, f"{nm}*|y-Ax|^2") for nm in self.lnames]
        p += [("d*|x-x0|^2", f"{nm}*|y-Ax|^2") for nm in self.lnames]
        if self.J > 1:
            p += [("l1", "l2"), ("l1*|y-Ax|^2", "l2*|y-Ax|^2"), ("sqrt(l1)(y-Ax)[0]", "sqrt(l2)(y-Ax)[0]")]
        if self.hyper_d:
            p += [("d", "d*|x-x0|^2")]
        return p


class Prod:
    """d1 ~ Gamma(a1,b1); d2 ~ Gamma(a2,b2); x | d1,d2 ~ N(x0, I/c) with c = d1*d2 ("prod") or d1+d2 ("sum");
    optionally data y | x ~ N(A x, s2 I).  The two hyper-parameters are mutually dependent given x."""
    family = "prod"

    def __init__(self, n, x0, a, b, comb, A=None, s2=1.0, y_obs=None):
        self.n, self.x0, self.a, self.b, self.comb = n, np.asarray(x0, float), list(a), list(b), comb
        self.A = None if A is None else np.asarray(A, float)
        self.s2 = float(s2)
        self.y_obs = None if y_obs is None else np.asarray(y_obs, float)
        self.names = ["d1", "d2", "x"]
        self.data_names = ["y"] if self.A is not None else []
        self.dims = {"d1": 1, "d2": 1, "x": n, "y": 0 if self.A is None else self.A.shape[0]}
        self.positive = {"d1", "d2"}

    def _c(self, d1, d2):
        return d1 * d2 if self.comb == "prod" else d1 + d2

    def logjoint(self, v):
        d1 = float(np.asarray(v["d1"]).reshape(-1)[0]); d2 = float(np.asarray(v["d2"]).reshape(-1)[0])
        out = log_gamma_pdf(d1, self.a[0], self.b[0]) + log_gamma_pdf(d2, self.a[1], self.b[1])
        if not np.isfinite(out):
            return out
        x = np.asarray(v["x"], float).reshape(-1)
        out += log_gauss_diag(x, self.x0, 1.0 / self._c(d1, d2))
        if self.A is not None:
            y = np.asarray(v["y"], float).reshape(-1) if "y" in v else self.y_obs
            out += log_gauss_diag(y, self.A @ x, self.s2)
        return out

    def draw(self, rs):
        d1 = rs.gamma(self.a[0], 1.0 / self.b[0]); d2 = rs.gamma(self.a[1], 1.0 / self.b[1])
        x = self.x0 + rs.standard_normal(self.n) / math.sqrt(self._c(d1, d2))
        v = {"d1": np.array([d1]), "d2": np.array([d2]), "x": x}
        if self.A is not None:
            v["y"] = self.A @ x + math.sqrt(self.s2) * rs.standard_normal(self.A.shape[0])
        return v

    def pivots(self, states):
        d1 = np.array([float(np.asarray(s["d1"]).reshape(-1)[0]) for s in states])
        d2 = np.array([float(np.asarray(s["d2"]).reshape(-1)[0]) for s in states])
        X = np.array([np.asarray(s["x"], float).reshape(-1) for s in states])
        z = np.sqrt(self._c(d1, d2))[:, None] * (X - self.x0)
        out = {"d1": (d1, ("gamma", self.a[0], self.b[0])), "d2": (d2, ("gamma", self.a[1], self.b[1])),
               "c*|x-x0|^2": (np.sum(z ** 2, axis=1), ("chi2", self.n)), "sqrt(c)(x-x0)": (z.ravel(), ("norm",)),
               "sqrt(c)(x-x0)[0]": (z[:, 0], ("norm",))}
        if self.A is not None:
            Y = np.array([np.asarray(s["y"], float).reshape(-1) if "y" in s else self.y_obs for s in states])
            e = (Y - X @ self.A.T) / math.sqrt(self.s2)
            out["(y-Ax)/s"] = (e.ravel(), ("norm",)); out["(y-Ax)/s[0]"] = (e[:, 0], ("norm",))
        return out

    @property
    def pairs(self):
        p = [("d1", "d2"), ("d1", "c*|x-x0|^2"), ("d2", "c*|x-x0|^2"), ("d1", "sqrt(c)(x-x0)[0]")]
        if self.A is not None:
            p.append(("sqrt(c)(x-x0)[0]", "(y-Ax)/s[0]"))
        return p


# ----------------------------------------------------------------------------- conditionals from logjoint only

def gauss_conditional(model, cur, block):
    """Mean and precision of the conditional of `block` given the other values in `cur`, assuming the
    conditional is Gaussian (log-density quadratic in the block): central differences are exact then.
    Returns (mean, precision, defect) where defect measures the departure from a quadratic."""
    p0 = np.asarray(cur[block], float).reshape(-1).copy()
    k = len(p0)
    def f(p):
        v = dict(cur); v[block] = p
        return model.logjoint(v)
    h = 1.0
    f0 = f(p0)
    g = np.zeros(k); H = np.zeros((k, k))
    E = np.eye(k) * h
    fp = [f(p0 + E[i]) for i in range(k)]; fm = [f(p0 - E[i]) for i in range(k)]
    for i in range(k):
        g[i] = (fp[i] - fm[i]) / (2 * h)
        H[i, i] = (fp[i] - 2 * f0 + fm[i]) / h ** 2
    for i in range(k):
        for j in range(i + 1, k):
            H[i, j] = H[j, i] = (f(p0 + E[i] + E[j]) - f(p0 + E[i] - E[j]) - f(p0 - E[i] + E[j]) + f(p0 - E[i] - E[j])) / (4 * h * h)
    P = -H
    mean = p0 + np.linalg.solve(P, g)
    # quadratic defect: third difference along a diagonal direction must vanish
    u = np.ones(k) / math.sqrt(k)
    t3 = f(p0 + 2 * u) - 2 * f(p0 + u) + 2 * f(p0 - u) - f(p0 - 2 * u)
    scale = abs(f0) + abs(fp[0]) + 1.0
    return mean, P, abs(t3) / scale

def gamma_conditional(model, cur, block):
    """Shape and rate of the conditional of a scalar positive block, assuming it is a Gamma law:
    f(t) = (shape-1) log t - rate t + const.  Uses t = 1,2,4 (and 8 as a consistency check)."""
    def f(t):
        v = dict(cur); v[block] = np.array([t])
        return model.logjoint(v)
    f1, f2, f4, f8 = f(1.0), f(2.0), f(4.0), f(8.0)
    rate = (f2 - f1) - (f4 - f2)
    shape = 1.0 + ((f2 - f1) + rate) / math.log(2.0)
    pred8 = f4 + (shape - 1.0) * math.log(2.0) - 4.0 * rate
    defect = abs(pred8 - f8) / (abs(f8) + 1.0)
    return shape, rate, defect

# ----------------------------------------------------------------------------- exact-law statistics

def _frozen(spec):
    kind = spec[0]
    if kind == "norm":
        return stats.norm()
    if kind == "chi2":
        return stats.chi2(spec[1])
    if kind == "gamma":
        return stats.gamma(spec[1], scale=1.0 / spec[2])
    if kind == "uniform":
        return stats.uniform(spec[1], spec[2] - spec[1])
    raise ValueError(spec)

def to_z(values, spec):
    """Probability-integral transform to N(0,1) (exact under the hypothesis)."""
    dist = _frozen(spec)
    v = np.asarray(values, float)
    # use whichever tail is more accurate
    lc, ls = dist.logcdf(v), dist.logsf(v)
    z = np.where(lc < ls, special.ndtri_exp(np.minimum(lc, -1e-300)), -special.ndtri_exp(np.minimum(ls, -1e-300)))
    return z

def law_statistics(pivots, pairs):
    """-> list of (name, p_value, direction) for all pivot groups; p-values are exact under H0 for the
    single-group tests (KS on the PIT, mean and sum of squares of the normal scores) and
    asymptotic for the pair products."""
    out = []
    Z = {}
    for name, (vals, spec) in pivots.items():
        vals = np.asarray(vals, float)
        if not np.all(np.isfinite(vals)):
            out.append((f"finite:{name}", 0.0, 0)); continue
        z = to_z(vals, spec)
        z = np.clip(z, -38, 38)
        Z[name] = z
        N = len(z)
        u = special.ndtr(z)
        dplus = stats.ks_1samp(u, stats.uniform.cdf, alternative="greater")
        dminus = stats.ks_1samp(u, stats.uniform.cdf, alternative="less")
        ks = stats.ks_1samp(u, stats.uniform.cdf)
        out.append((f"ks:{name}", float(ks.pvalue), 1 if dplus.statistic >= dminus.statistic else -1))
        zm = float(np.mean(z) * math.sqrt(N))
        out.append((f"mean:{name}", float(2 * stats.norm.sf(abs(zm))), 1 if zm > 0 else -1))
        ss = float(np.sum(z ** 2))
        p_hi, p_lo = stats.chi2.sf(ss, N), stats.chi2.cdf(ss, N)
        out.append((f"var:{name}", float(min(1.0, 2 * min(p_hi, p_lo))), 1 if ss > N else -1))
    for a, b in pairs:
        if a in Z and b in Z and len(Z[a]) == len(Z[b]):
            N = len(Z[a])
            c = float(np.sum(Z[a] * Z[b]) / math.sqrt(N))
            out.append((f"corr:{a}~{b}", float(2 * stats.norm.sf(abs(c))), 1 if c > 0 else -1))
    return out

# ----------------------------------------------------------------------------- self test

def selftest():
    """Returns a list of failure strings (empty = fine)."""
    bad = []
    rs = np.random.RandomState(12345)
    # densities vs scipy
    for _ in range(5):
        n = rs.randint(1, 5)
        Mx = rs.standard_normal((n, n)); P = Mx @ Mx.T + n * np.eye(n)
        x, mu = rs.standard_normal(n), rs.standard_normal(n)
        if abs(log_gauss_prec(x, mu, P) - stats.multivariate_normal(mu, np.linalg.inv(P)).logpdf(x)) > 1e-9:
            bad.append("log_gauss_prec vs scipy")
        var = rs.uniform(0.2, 3, n)
        if abs(log_gauss_diag(x, mu, var) - stats.multivariate_normal(mu, np.diag(var)).logpdf(x)) > 1e-9:
            bad.append("log_gauss_diag vs scipy")
        a, b, t = rs.uniform(0.5, 5), rs.uniform(0.5, 5), rs.uniform(0.1, 4)
        if abs(log_gamma_pdf(t, a, b) - stats.gamma(a, scale=1 / b).logpdf(t)) > 1e-9:
            bad.append("log_gamma_pdf vs scipy")
    # conditionals of a hierarchical model against the textbook formulas
    n, m = 3, 4
    A = rs.standard_normal((m, n))
    for prior in ("cov", "gmrf"):
        H = Hier(n, m, A, 3.0, 2.0, 4.0, 1.5, rs.standard_normal(n), prior)
        cur = H.draw(rs)
        mean, P, defect = gauss_conditional(H, cur, "x")
        d, l = cur["d"][0], cur["l"][0]
        Pref = l * A.T @ A + d * H.Q
        mref = np.linalg.solve(Pref, l * A.T @ cur["y"] + d * H.Q @ H.x0)
        if not (np.allclose(P, Pref, rtol=1e-7, atol=1e-8) and np.allclose(mean, mref, rtol=1e-7, atol=1e-8) and defect < 1e-9):
            bad.append(f"gauss_conditional({prior})")
        sh, rt, df = gamma_conditional(H, cur, "d")
        dev = cur["x"] - H.x0
        if abs(sh - (3.0 + n / 2)) > 1e-8 or abs(rt - (2.0 + 0.5 * dev @ H.Q @ dev)) > 1e-8 * (1 + rt) or df > 1e-9:
            bad.append(f"gamma_conditional d ({prior})")
        sh, rt, df = gamma_conditional(H, cur, "l")
        r = cur["y"] - A @ cur["x"]
        if abs(sh - (4.0 + m / 2)) > 1e-8 or abs(rt - (1.5 + 0.5 * r @ r)) > 1e-8 * (1 + rt) or df > 1e-9:
            bad.append(f"gamma_conditional l ({prior})")
    # exact draws pass their own law tests; a Jacobi-style corruption fails them
    models = [Hier(n, m, A, 3.0, 2.0, 4.0, 1.5, np.zeros(n), "gmrf"),
              Chain(["a", "b", "c"], [2, 3, 1], [1.0, -1.0], [rs.standard_normal((3, 2)), rs.standard_normal((1, 3))],
                    [np.zeros(3), np.ones(1)], [1.0, 0.5, 0.3]),
              Chain(["a", "b", "c"], [2, 3, 1], [1.0, -1.0], [rs.standard_normal((3, 2)), rs.standard_normal((1, 2))],
                    [np.zeros(3), np.ones(1)], [1.0, 0.5, 0.3], parents=[None, 0, 0]),
              Scalar3(1.0, 1.0, 1.0, 100.0),
              Prod(n, np.zeros(n), [3.0, 4.0], [2.0, 1.0], "prod"),
              Prod(n, rs.standard_normal(n), [3.0, 4.0], [2.0, 1.0], "sum", A=A, s2=0.5),
              Multi(n, [A, rs.standard_normal((m, n))], np.zeros(n), [3.0, 4.0], [1.0, 2.0], True),
              Multi(n, [A, rs.standard_normal((2, n))], rs.standard_normal(n), [3.0, 4.0], [1.0, 2.0], False, d_fixed=0.7)]
    for M in models:
        states = [M.draw(rs) for _ in range(3000)]
        st = law_statistics(M.pivots(states), M.pairs)
        pmin = min(p for _, p, _ in st)
        if pmin < 1e-6:
            bad.append(f"exact draws of {M.family} rejected by the law test (p={pmin:.2e})")
        # corrupt: replace the first block by an independent redraw (breaks the dependence)
        other = [M.draw(rs) for _ in range(3000)]
        k0 = M.names[0] if M.family != "scalar3" else "s"
        if M.family == "prod" and M.comb == "prod":
            v0 = states[0]
            sh, rt, df = gamma_conditional(M, v0, "d2")
            dev = v0["x"] - M.x0
            if abs(sh - (M.a[1] + M.n / 2)) > 1e-8 or abs(rt - (M.b[1] + 0.5 * v0["d1"][0] * dev @ dev)) > 1e-8 * (1 + rt) or df > 1e-9:
                bad.append("gamma_conditional d2 (prod)")
        if M.family == "multi":
            # textbook conditional of x given two different data sets
            v0 = states[0]
            dd = v0["d"][0] if M.hyper_d else M.d_fixed
            Pref = dd * np.eye(M.n) + sum(v0[l][0] * Aj.T @ Aj for l, Aj in zip(M.lnames, M.As))
            mref = np.linalg.solve(Pref, dd * M.x0 + sum(v0[l][0] * Aj.T @ v0[y] for l, Aj, y in zip(M.lnames, M.As, M.data_names)))
            mean, P, defect = gauss_conditional(M, v0, "x")
            if not (np.allclose(P, Pref, rtol=1e-7, atol=1e-8) and np.allclose(mean, mref, rtol=1e-7, atol=1e-8)):
                bad.append("gauss_conditional(multi)")
        mixed = [dict(s, **{k0: o[k0]}) for s, o in zip(states, other)]
        st = law_statistics(M.pivots(mixed), M.pairs)
        if min(p for _, p, _ in st) > 1e-7:
            bad.append(f"law test has no power on a decoupled {M.family}")
    return bad
