"""Reference operators for the shipped test problems (C17).  Pure numpy/math - never imports cuqi.

Everything here is written from the documentation of cuqi.testproblem:
  * convolution with a point spread function P whose centre is the sample at index len(P)//2
    (where the PSF generating functions put x = 0) under the five documented boundary extensions,
  * the legacy periodic convolution (circulant matrix) and its PSFs,
  * explicit (forward Euler) heat equation with homogeneous Dirichlet ends, cfl 5/11,
  * the 1D Poisson equation  D^T diag(kappa) D u = f  on the staggered grid,
  * the mid-point quadrature of the Abel integral,
  * the cubic of Wang (2015),
  * the field parametrisations (KL sine expansion from its docstring formula, step expansion),
  * the closed-form log densities needed for "log-likelihood + log-prior".
"""
import math
import numpy as np

# ----------------------------------------------------------------------------- boundary extension

MODES = ("constant", "wrap", "reflect", "mirror", "nearest")

def ext_index(mode, i, n):
    """Index into a length-n signal of the (infinitely) extended signal at position i; None = zero."""
    if 0 <= i < n:
        return i
    if mode == "constant":
        return None
    if mode == "wrap":
        return i % n
    if mode == "nearest":
        return 0 if i < 0 else n - 1
    if mode == "reflect":            # d c b a | a b c d | d c b a   (about the edge of the last pixel)
        m = i % (2 * n)
        return m if m < n else 2 * n - 1 - m
    if mode == "mirror":             # d c b | a b c d | c b a       (about the centre of the last pixel)
        if n == 1:
            return 0
        m = i % (2 * n - 2)
        return m if m < n else 2 * n - 2 - m
    raise ValueError(mode)

def conv1d_loop(x, P, mode):
    """y[i] = sum_k P[k] * xext[i - (k - c)],  c = len(P)//2  (explicit loops)."""
    n, m = len(x), len(P)
    c = m // 2
    y = np.zeros(n)
    for i in range(n):
        s = 0.0
        for k in range(m):
            j = ext_index(mode, i - k + c, n)
            if j is not None:
                s += P[k] * x[j]
        y[i] = s
    return y

def conv1d_matrix(n, P, mode):
    m = len(P)
    c = m // 2
    A = np.zeros((n, n))
    for i in range(n):
        for k in range(m):
            j = ext_index(mode, i - k + c, n)
            if j is not None:
                A[i, j] += P[k]
    return A

def corr1d_matrix(n, P, mode):
    """The correlation  y[i] = sum_k P[k] * xext[i + (k - c)]  (what a flipped PSF convolves to)."""
    m = len(P)
    c = m // 2
    A = np.zeros((n, n))
    for i in range(n):
        for k in range(m):
            j = ext_index(mode, i + k - c, n)
            if j is not None:
                A[i, j] += P[k]
    return A

def conv2d(X, P, mode):
    """Y[i,j] = sum_{k,l} P[k,l] Xext[i-(k-ck), j-(l-cl)], centre (ck,cl) = (rows//2, cols//2)."""
    n1, n2 = X.shape
    m1, m2 = P.shape
    c1, c2 = m1 // 2, m2 // 2
    Y = np.zeros((n1, n2))
    rows = [[ext_index(mode, i - k + c1, n1) for i in range(n1)] for k in range(m1)]
    cols = [[ext_index(mode, j - l + c2, n2) for j in range(n2)] for l in range(m2)]
    for k in range(m1):
        rk = rows[k]
        rmask = np.array([r is not None for r in rk])
        ridx = np.array([0 if r is None else r for r in rk])
        for l in range(m2):
            if P[k, l] == 0.0:
                continue
            cl = cols[l]
            cmask = np.array([c is not None for c in cl])
            cidx = np.array([0 if c is None else c for c in cl])
            block = X[np.ix_(ridx, cidx)] * np.outer(rmask, cmask)
            Y += P[k, l] * block
    return Y

def conv2d_loop(X, P, mode):
    n1, n2 = X.shape
    m1, m2 = P.shape
    c1, c2 = m1 // 2, m2 // 2
    Y = np.zeros((n1, n2))
    for i in range(n1):
        for j in range(n2):
            s = 0.0
            for k in range(m1):
                a = ext_index(mode, i - k + c1, n1)
                if a is None:
                    continue
                for l in range(m2):
                    b = ext_index(mode, j - l + c2, n2)
                    if b is not None:
                        s += P[k, l] * X[a, b]
            Y[i, j] = s
    return Y

def corr2d(X, P, mode):
    """Transpose of conv2d for 'constant' and 'wrap': correlation with the same centre."""
    n1, n2 = X.shape
    m1, m2 = P.shape
    c1, c2 = m1 // 2, m2 // 2
    Y = np.zeros((n1, n2))
    for i in range(n1):
        for j in range(n2):
            s = 0.0
            for k in range(m1):
                a = ext_index(mode, i + k - c1, n1)
                if a is None:
                    continue
                for l in range(m2):
                    b = ext_index(mode, j + l - c2, n2)
                    if b is not None:
                        s += P[k, l] * X[a, b]
            Y[i, j] = s
    return Y

# ----------------------------------------------------------------------------- point spread functions

def _offsets(size):
    """sample offsets -fix(size/2) ... ceil(size/2)-1 ; offset 0 sits at index size//2"""
    return np.array([k - size // 2 for k in range(size)], dtype=float)

def psf_1d(kind, size, param, shift=0):
    """Normalised 1D PSF of the documented kind centred at index size//2 (+shift, to model an off-centre PSF)."""
    if param is None:
        param = 10
    d = _offsets(size) - shift
    if kind == "gauss":           # Gaussian with standard deviation param
        w = np.exp(-0.5 * d ** 2 / param ** 2)
    elif kind == "moffat":        # Moffat with beta = 1
        w = 1.0 / (1.0 + d ** 2 / param ** 2)
    elif kind == "defocus":       # out-of-focus: constant inside radius param
        w = (d ** 2 <= param ** 2).astype(float)
    else:
        raise ValueError(kind)
    return w / w.sum()

def psf_2d(kind, size, param, shift=0):
    d = _offsets(size) - shift
    X, Y = np.meshgrid(d, d)
    r2 = X ** 2 + Y ** 2
    if kind == "gauss":
        w = np.exp(-0.5 * r2 / param ** 2)
    elif kind == "moffat":
        w = 1.0 / (1.0 + r2 / param ** 2)
    elif kind == "defocus":
        w = (r2 <= param ** 2).astype(float)
    else:
        raise ValueError(kind)
    return w / w.sum()

# legacy periodic PSFs (Hansen): function of the circular distance t = d/dim
def legacy_matrix(dim, kind, param):
    kind = kind.lower()
    if param is None:
        param = {"gauss": 10, "sinc": 15, "prolate": 15, "vonmises": 5}[kind]
    A = np.zeros((dim, dim))
    for i in range(dim):
        for j in range(dim):
            d = abs(i - j)
            t = min(d, dim - d) / dim
            if kind == "gauss":
                v = math.exp(-(param * t) ** 2)
            elif kind in ("sinc", "prolate"):
                a = math.pi * param * t
                v = 1.0 if a == 0 else math.sin(a) / a
            elif kind == "vonmises":
                v = (math.exp(math.cos(2 * math.pi * t)) / math.e) ** param
            else:
                raise ValueError(kind)
            A[i, j] = v
    return A

# ----------------------------------------------------------------------------- 1D phantoms

def _piecewise(mesh, edges, vals, closed_right_end):
    out = np.zeros(len(mesh))
    for t, x in enumerate(mesh):
        for q in range(len(vals)):
            lo, hi = edges[q], edges[q + 1]
            inside = (lo <= x < hi) or (q == len(vals) - 1 and lo <= x <= hi and closed_right_end)
            if inside:
                out[t] = vals[q]
    return out

def phantom_1d(dim, name, param):
    name = name.lower()
    t = np.linspace(-1, 1, dim)
    if name == "gauss":
        p = 5 if param is None else param
        return np.exp(-(p * t) ** 2)
    if name == "sinc":
        p = 5 if param is None else param
        a = np.pi * p * t
        with np.errstate(invalid="ignore", divide="ignore"):
            return np.where(a == 0, 1.0, np.sin(a) / np.where(a == 0, 1.0, a))
    if name == "vonmises":
        p = 5 if param is None else param
        x = np.exp(np.cos(np.pi * t))
        return (x / x.max()) ** p
    if name in ("square", "hat"):
        p = 15 if param is None else param
        x = np.zeros(dim)
        dimh = int(np.round(dim / 2))
        w = int(np.round(dim / p))
        if name == "square":
            for i in range(max(dimh - w, 0), min(dimh + w, dim)):
                x[i] = 1.0
            return x
        for q in range(w + 1):            # rising flank, then falling flank (apex at dimh-1)
            x[dimh - w - 1 + q] = q / w
        for q in range(w + 1):
            x[dimh - 1 + q] = (w - q) / w
        return x
    if name == "bumps":
        h = np.pi / dim
        g = np.linspace(0.5, dim - 0.5, dim)
        return 1.0 * np.exp(-12 * (-np.pi / 2 + g * h - 0.8) ** 2) + 0.5 * np.exp(-5 * (-np.pi / 2 + g * h + 0.5) ** 2)
    if name == "derivgauss":
        p = 5 if param is None else param
        g = np.exp(-(p * np.linspace(-1, 1, dim + 1)) ** 2)
        x = g[1:] - g[:-1]
        return x / x.max()
    mesh = np.linspace(0, 1, dim)
    if name == "pc":
        return _piecewise(mesh, [0, 0.1, 0.15, 0.2, 0.25, 0.3, 0.6, 1.0], [0, 2, 3, 2, 0, 1, 0], True)
    if name == "skyscraper":
        return _piecewise(mesh, [0, 0.10, 0.15, 0.20, 0.25, 0.35, 0.38, 0.45, 0.55, 0.75, 0.8, 1.0],
                          [0, 1.5, 0, 1.3, 0, 0.75, 0, 0.25, 0, 1, 0], True)
    raise ValueError(name)

PHANTOMS_1D = ("gauss", "sinc", "vonmises", "square", "hat", "bumps", "derivgauss", "pc", "skyscraper")

# ----------------------------------------------------------------------------- heat equation

def heat_setup(N, endpoint, max_time):
    dx = endpoint / (N + 1)
    dt_approx = 5 / 11 * dx ** 2
    K = int(max_time / dt_approx)
    grid = np.array([dx * (i + 1) for i in range(N)])
    return dx, K, grid

def heat_forward(u0, N, endpoint, max_time):
    """Forward Euler for u_t = u_xx, u(0)=u(endpoint)=0, N interior nodes, K equal steps to max_time."""
    dx, K, _ = heat_setup(N, endpoint, max_time)
    ts = np.linspace(0, max_time, K + 1)
    u = np.array(u0, dtype=float).copy()
    for k in range(K):
        dt = ts[k + 1] - ts[k]
        ext = np.concatenate([[0.0], u, [0.0]])
        u = u + dt * (ext[:-2] - 2 * u + ext[2:]) / dx ** 2
    return u

# ----------------------------------------------------------------------------- Poisson equation

def poisson_grids(dim, endpoint):
    N = dim - 1
    dx = endpoint / N
    grid_domain = np.linspace(0, endpoint, dim)
    first = 1.0 / (dim - 1)
    grid_sol = np.array([first + k * (endpoint - first) / N for k in range(N)])   # nodes the solution is reported on
    grid_src = np.array([dx + k * (endpoint - dx) / N for k in range(N)])          # == grid_sol when endpoint == 1
    return dx, grid_domain, grid_sol, grid_src

def poisson_matrix(kappa, dim, endpoint):
    """D^T diag(kappa) D with D the (dim x dim-1) difference matrix with zero Dirichlet ends, step dx."""
    N = dim - 1
    dx = endpoint / N
    A = np.zeros((N, N))
    for i in range(N):
        A[i, i] = (kappa[i] + kappa[i + 1]) / dx ** 2
        if i + 1 < N:
            A[i, i + 1] = -kappa[i + 1] / dx ** 2
            A[i + 1, i] = -kappa[i + 1] / dx ** 2
    return A

def poisson_forward(kappa, dim, endpoint, rhs):
    A = poisson_matrix(kappa, dim, endpoint)
    u = np.linalg.solve(A, rhs)
    res = float(np.max(np.abs(A @ u - rhs)) / max(1e-300, np.max(np.abs(rhs))))
    return u, res, float(np.linalg.cond(A))

def default_source(xs):
    return 10 * np.exp(-((xs - 0.5) ** 2) / 0.02)

# ----------------------------------------------------------------------------- Abel

def abel_matrix(N, endpoint):
    """mid-point rule for (A f)(s) = int_0^s f(t)/sqrt(s-t) dt at s_i = (i+1)h, t_j = (j+1/2)h"""
    h = endpoint / N
    A = np.zeros((N, N))
    for i in range(N):
        for j in range(i + 1):
            A[i, j] = h / math.sqrt((i + 1) * h - (j + 0.5) * h)
    return A

def abel_exact_solution(N, endpoint):
    h = endpoint / N
    t = np.array([(j + 0.5) * h for j in range(N)])
    return np.sin(t * np.pi) * np.exp(-2 * t)

# ----------------------------------------------------------------------------- Wang cubic

def wang_forward(x):
    return 10 * x[1] - 10 * x[0] ** 3 + 5 * x[0] ** 2 + 6 * x[0]

def wang_jacobian(x):
    return np.array([[-30 * x[0] ** 2 + 10 * x[0] + 6, 10.0]])

# ----------------------------------------------------------------------------- field parametrisations

def kl_par2fun(p, N, decay=2.5, normalizer=12.0, num_modes=None):
    """KLExpansion docstring formula (inverse DST-II of the scaled coefficients)."""
    M = N if (num_modes is None or num_modes > N) else num_modes
    f = np.zeros(N)
    for K in range(N):
        s = 0.0
        for i in range(min(M, N - 1)):
            s += p[i] / ((i + 1) ** decay * normalizer) * math.sin(math.pi / N * (i + 1) * (K + 0.5))
        if M == N:
            s += (-1) ** K / 2 * p[N - 1] / (N ** decay * normalizer)
        f[K] = s
    return f

def step_par2fun(p, n_nodes, n_steps):
    """Step function on a regular grid with both end points: node k (at x0 + k L/(n-1)) carries p[i] when
    i L/n_steps < x_k - x0 <= (i+1) L/n_steps (first interval closed on the left).  Integer arithmetic."""
    f = np.zeros(n_nodes)
    for k in range(n_nodes):
        for i in range(n_steps):
            lo, hi, pos = i * (n_nodes - 1), (i + 1) * (n_nodes - 1), k * n_steps
            if (lo < pos <= hi) or (i == 0 and pos == 0):
                f[k] = p[i]
    return f

def step_is_unambiguous(n_nodes, n_steps):
    """no interior node sits exactly on a step boundary (where round-off, not the documentation, decides)"""
    return math.gcd(n_nodes - 1, n_steps) == 1

MAPS = {
    None: (None, None),
    "exp": (lambda x: np.exp(x), lambda y: np.log(y)),
    "sqplus": (lambda x: x ** 2 + 0.5, None),
    "affine": (lambda x: 2.0 * x + 1.0, lambda y: (y - 1.0) / 2.0),
    "times10": (lambda x: 10.0 * x, lambda y: y / 10.0),
}

def apply_map(name, f):
    m = MAPS[name][0]
    return f if m is None else m(f)

# ----------------------------------------------------------------------------- log densities

LOG2PI = math.log(2 * math.pi)

def gauss_logpdf_diag(x, mean, std):
    x, mean, std = np.asarray(x, float), np.asarray(mean, float), np.asarray(std, float)
    std = np.broadcast_to(std, x.shape)
    return float(np.sum(-0.5 * ((x - mean) / std) ** 2 - np.log(std) - 0.5 * LOG2PI))

def laplace_logpdf(x, loc, scale):
    x = np.asarray(x, float)
    return float(np.sum(-np.abs(x - loc) / scale - math.log(2 * scale)))

# ----------------------------------------------------------------------------- self test

def selftest():
    """Returns a list of problems (empty = fine).  Cross-validates against scipy / analytic solutions."""
    from scipy import ndimage
    bad = []
    rs = np.random.RandomState(17)
    for n in (5, 8):
        for m in (1, 2, 3, 4, 5, 8, 11):
            for mode in MODES:
                x, P = rs.randn(n), rs.rand(m)
                ref = ndimage.convolve1d(x, P, mode=mode)
                if not np.allclose(conv1d_loop(x, P, mode), ref, atol=1e-12):
                    bad.append(f"conv1d_loop vs scipy.ndimage.convolve1d n={n} m={m} {mode}")
                if not np.allclose(conv1d_matrix(n, P, mode) @ x, ref, atol=1e-12):
                    bad.append(f"conv1d_matrix vs scipy.ndimage.convolve1d n={n} m={m} {mode}")
            if m % 2 == 1:   # odd length: correlation == convolution with the flipped PSF
                for mode in MODES:
                    P = rs.rand(m)
                    if not np.allclose(corr1d_matrix(n, P, mode), conv1d_matrix(n, P[::-1], mode), atol=1e-14):
                        bad.append(f"corr1d_matrix vs flipped conv n={n} m={m} {mode}")
    for n in (4, 6):
        for m in (2, 3, 4, 5, 9):
            for mode in MODES:
                X, P = rs.randn(n, n), rs.rand(m, m)
                ref = ndimage.convolve(X, P, mode=mode)
                if not np.allclose(conv2d(X, P, mode), ref, atol=1e-12):
                    bad.append(f"conv2d vs scipy.ndimage.convolve n={n} m={m} {mode}")
                if not np.allclose(conv2d_loop(X, P, mode), ref, atol=1e-12):
                    bad.append(f"conv2d_loop vs scipy.ndimage.convolve n={n} m={m} {mode}")
            for mode in ("constant", "wrap"):
                X, Yv, P = rs.randn(n, n), rs.randn(n, n), rs.rand(m, m)
                if abs(np.sum(conv2d(X, P, mode) * Yv) - np.sum(X * corr2d(Yv, P, mode))) > 1e-10:
                    bad.append(f"corr2d is not the transpose of conv2d n={n} m={m} {mode}")
    # PSFs: unit mass, maximum at the centre index, symmetric about it
    for kind in ("gauss", "moffat", "defocus"):
        for size in (3, 4, 7, 10):
            w = psf_1d(kind, size, 1.7)
            c = size // 2
            if abs(w.sum() - 1) > 1e-12 or w[c] < w.max() - 1e-15 or any(abs(w[c + q] - w[c - q]) > 1e-15 for q in range(1, size - c)):
                bad.append(f"psf_1d {kind} {size}")
            W = psf_2d(kind, size, 1.7)
            if abs(W.sum() - 1) > 1e-12 or W[c, c] < W.max() - 1e-15 or not np.allclose(W, W.T):
                bad.append(f"psf_2d {kind} {size}")
    # heat: sin(pi x / L) decays like exp(-(pi/L)^2 t)
    N, L, T = 40, 1.3, 0.05
    _, K, grid = heat_setup(N, L, T)
    u = heat_forward(np.sin(np.pi * grid / L), N, L, T)
    exact = np.exp(-(np.pi / L) ** 2 * T) * np.sin(np.pi * grid / L)
    if np.max(np.abs(u - exact)) > 2e-3 * np.max(np.abs(exact)):
        bad.append(f"heat_forward vs analytic decay: {np.max(np.abs(u - exact))}")
    # Poisson: kappa = 1, f = 1 -> u = x (L - x) / 2 up to the O(1/N) error of the staggered grid
    dim = 40
    dx, gd, gs, gsrc = poisson_grids(dim, 1.0)
    u, res, _ = poisson_forward(np.ones(dim), dim, 1.0, np.ones(dim - 1))
    if res > 1e-10 or np.max(np.abs(u - gs * (1 - gs) / 2)) > 4.0 / dim * 0.125:
        bad.append(f"poisson_forward vs analytic: {np.max(np.abs(u - gs * (1 - gs) / 2))}")
    if not np.allclose(gs, gsrc):
        bad.append("poisson grids differ for endpoint 1")
    # Abel: f = 1 -> 2 sqrt(s) with the O(sqrt(h)) error of the mid-point rule at the singularity
    for N in (10, 40):
        A = abel_matrix(N, 1.7)
        s = np.array([(i + 1) * 1.7 / N for i in range(N)])
        rel = np.abs(A @ np.ones(N) - 2 * np.sqrt(s)) / (2 * np.sqrt(s))
        if np.any(rel > 0.31 / np.sqrt(np.arange(N) + 1)):
            bad.append(f"abel_matrix vs analytic N={N}")
    # KL formula is the inverse DST-II (scipy.fft, orthogonal-free normalisation)
    from scipy import fft
    for N in (6, 9):
        p = rs.randn(N)
        coef = np.array([p[i] / ((i + 1) ** 2.5 * 12.0) for i in range(N)])
        if not np.allclose(kl_par2fun(p, N), fft.idst(coef, type=2) * N, atol=1e-12):
            bad.append(f"kl_par2fun vs scipy.fft.idst N={N}")
    # step function
    if list(step_par2fun([1, 2, 3], 11, 3)) != [1, 1, 1, 1, 2, 2, 2, 3, 3, 3, 3]:
        bad.append("step_par2fun 11/3: %s" % list(step_par2fun([1, 2, 3], 11, 3)))
    # densities
    from scipy import stats
    x = rs.randn(5)
    if abs(gauss_logpdf_diag(x, 0.3, 1.7) - stats.norm(0.3, 1.7).logpdf(x).sum()) > 1e-10:
        bad.append("gauss_logpdf_diag")
    if abs(laplace_logpdf(x, 0.3, 1.7) - stats.laplace(0.3, 1.7).logpdf(x).sum()) > 1e-10:
        bad.append("laplace_logpdf")
    # phantoms are finite and of the right length
    for name in PHANTOMS_1D:
        for dim in (8, 17, 40):
            v = phantom_1d(dim, name, None)
            if v.shape != (dim,) or not np.all(np.isfinite(v)):
                bad.append(f"phantom {name} {dim}")
    return bad

# ----------------------------------------------------------------------------- observation of a PDE solution

def obs_points(grid, positions):
    """positions: [(k, half)] - node k of the solution grid, or the mid-point between nodes k and k+1; order as given"""
    grid = np.asarray(grid, float)
    return np.array([grid[k] if not half else (grid[k] + grid[k + 1]) / 2 for k, half in positions])

def observe(grid, u, positions, kind):
    """Observation of the solution u (given on grid) at the points, in the order given: at a node the nodal value itself,
    off the nodes the documented interpolation (steady: quadratic spline of scipy.interpolate.interp1d; heat: the cubic
    tensor spline evaluated at a time node, i.e. the interpolating cubic spline of the final state)."""
    from scipy import interpolate
    grid, u = np.asarray(grid, float), np.asarray(u, float)
    out = np.empty(len(positions))
    interp = None
    for t, (k, half) in enumerate(positions):
        if not half:
            out[t] = u[k]
            continue
        if interp is None:
            if kind == "steady":
                interp = interpolate.interp1d(grid, u, kind="quadratic")
            else:
                interp = interpolate.InterpolatedUnivariateSpline(grid, u, k=min(3, len(grid) - 1))
        out[t] = float(interp((grid[k] + grid[k + 1]) / 2))
    return out
