"""Runtime contracts on the real classes (observation device 3 of DESIGN.md).

`ensure(cls, method, post)` wraps `cls.method` so that after every call
`post(self, args, kwargs, result, snapshot)` runs; it may return None/True (held),
or a string / False (broken -> recorded).  Evaluations are counted so that a
contract that was never reached makes the verdict inconclusive instead of "held".
icontract is used when it is importable (installed by MANIFEST.setup_cmd into
/verif/.deps); otherwise the equivalent plain wrapper below is used - the
condition functions are the same named functions either way.
"""
import functools, contextlib

try:  # pragma: no cover - optional
    import icontract  # noqa
    HAVE_ICONTRACT = True
except Exception:  # noqa
    icontract = None
    HAVE_ICONTRACT = False

class ContractLog:
    def __init__(self):
        self.evaluations = {}
        self.broken = []
    def hit(self, name):
        self.evaluations[name] = self.evaluations.get(name, 0) + 1

@contextlib.contextmanager
def ensure(cls, method, post, log, name=None, snapshot=None, reentrant=False):
    """Temporarily wrap cls.method with a postcondition. Exceptions raised by the
    method itself propagate untouched (contracts say nothing about raising calls)."""
    name = name or f"{cls.__name__}.{method}"
    orig = cls.__dict__.get(method)
    inherited = orig is None
    target = getattr(cls, method)
    depth = {"n": 0}
    @functools.wraps(target)
    def wrapper(self, *args, **kwargs):
        if depth["n"] > 0 and not reentrant:
            return target(self, *args, **kwargs)
        depth["n"] += 1
        try:
            snap = snapshot(self, args, kwargs) if snapshot else None
            result = target(self, *args, **kwargs)
            log.hit(name)
            verdict = post(self, args, kwargs, result, snap)
            if verdict is not None and verdict is not True:
                log.broken.append((name, verdict if isinstance(verdict, (str, dict)) else "postcondition false"))
            return result
        finally:
            depth["n"] -= 1
    setattr(cls, method, wrapper)
    try:
        yield log
    finally:
        if inherited:
            delattr(cls, method)
        else:
            setattr(cls, method, orig)
