import sys
from vlib import core
if __name__ == "__main__":
    sys.exit(core.worker_main(sys.argv[1:]))
