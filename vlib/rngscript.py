"""Interposition of the *global* numpy random API (observation device 2 of DESIGN.md).

CUQIpy's samplers look up ``np.random.randn/rand/standard_normal/normal/exponential/...``
by attribute at call time, so replacing these module attributes inside a ``with``
block lets the harness (a) record every draw with a sequence number and (b) decide
its value.  Nothing in /repo is touched.

    with Scripted(normal=provider, uniform=provider, exponential=provider) as rec:
        sampler.step()
    rec.draws -> [(seq, api, shape, values), ...]

A provider is either None (pass through to the real generator, still recorded),
a callable ``f(shape, api, seq) -> array-like or None`` (None = pass through) or a
list/iterator of values consumed one draw at a time (each broadcast to the shape).
Providers return *standard* variates; ``normal(loc, scale)`` and
``uniform(low, high)`` are transformed exactly as numpy would.
A scripted ``RandomState``-like object for the legacy ``rng=`` arguments is given by
``ScriptedRNG``.
"""
import numpy as np

_NORMAL_APIS = ("randn", "standard_normal", "normal")
_UNIFORM_APIS = ("rand", "uniform", "random", "random_sample")

def _as_provider(p):
    if p is None or callable(p):
        return p
    it = iter(p)
    def f(shape, api, seq):
        try:
            v = next(it)
        except StopIteration:
            return None
        return np.broadcast_to(np.asarray(v, dtype=float), shape).copy() if shape != () else float(np.asarray(v).reshape(-1)[0])
    return f

class Scripted:
    def __init__(self, normal=None, uniform=None, exponential=None, gamma=None, record=True):
        self.p_normal, self.p_uniform = _as_provider(normal), _as_provider(uniform)
        self.p_exp, self.p_gamma = _as_provider(exponential), _as_provider(gamma)
        self.draws = []
        self.seq = 0
        self.record = record
        self._saved = {}

    # -- helpers
    def _emit(self, api, shape, provider, fallback):
        seq = self.seq; self.seq += 1
        val = provider(shape, api, seq) if provider is not None else None
        scripted = val is not None
        if val is None:
            val = fallback()
        else:
            val = np.asarray(val, dtype=float).reshape(shape) if shape != () else float(np.asarray(val).reshape(-1)[0])
        if self.record:
            self.draws.append((seq, api, tuple(shape), np.array(val, copy=True), scripted))
        return val

    @staticmethod
    def _shape(size):
        if size is None:
            return ()
        if np.isscalar(size):
            return (int(size),)
        return tuple(int(s) for s in size)

    def __enter__(self):
        R = np.random
        real = {n: getattr(R, n) for n in ("randn", "standard_normal", "normal", "rand", "uniform", "random",
                                          "random_sample", "exponential", "gamma", "laplace")}
        self._saved = real
        me = self
        def randn(*shape):
            shape = tuple(int(s) for s in shape)
            return me._emit("randn", shape, me.p_normal, lambda: real["randn"](*shape))
        def standard_normal(size=None):
            shape = me._shape(size)
            return me._emit("standard_normal", shape, me.p_normal, lambda: real["standard_normal"](size))
        def normal(loc=0.0, scale=1.0, size=None):
            shape = me._shape(size) if size is not None else np.broadcast(np.asarray(loc), np.asarray(scale)).shape
            z = me._emit("normal", shape, me.p_normal, lambda: real["standard_normal"](shape if shape != () else None))
            return np.asarray(loc) + np.asarray(scale) * z
        def rand(*shape):
            shape = tuple(int(s) for s in shape)
            return me._emit("rand", shape, me.p_uniform, lambda: real["rand"](*shape))
        def random_sample(size=None):
            shape = me._shape(size)
            return me._emit("random_sample", shape, me.p_uniform, lambda: real["random_sample"](size))
        def uniform(low=0.0, high=1.0, size=None):
            shape = me._shape(size) if size is not None else np.broadcast(np.asarray(low), np.asarray(high)).shape
            u = me._emit("uniform", shape, me.p_uniform, lambda: real["random_sample"](shape if shape != () else None))
            return np.asarray(low) + (np.asarray(high) - np.asarray(low)) * u
        def exponential(scale=1.0, size=None):
            shape = me._shape(size) if size is not None else np.asarray(scale).shape
            e = me._emit("exponential", shape, me.p_exp, lambda: real["exponential"](1.0, shape if shape != () else None))
            return np.asarray(scale) * e
        def gamma(shape, scale=1.0, size=None):
            shp = me._shape(size) if size is not None else np.broadcast(np.asarray(shape), np.asarray(scale)).shape
            g = me._emit("gamma", shp, me.p_gamma, lambda: real["gamma"](shape, 1.0, shp if shp != () else None))
            return np.asarray(scale) * g
        R.randn, R.standard_normal, R.normal = randn, standard_normal, normal
        R.rand, R.random_sample, R.random, R.uniform = rand, random_sample, random_sample, uniform
        R.exponential, R.gamma = exponential, gamma
        return self

    def __exit__(self, *a):
        for n, f in self._saved.items():
            setattr(np.random, n, f)
        return False

    # -- views of the record
    def of(self, *apis):
        return [d for d in self.draws if d[1] in apis]

    def normals(self):
        return self.of(*_NORMAL_APIS)

    def uniforms(self):
        return self.of(*_UNIFORM_APIS)


class ScriptedRNG:
    """Drop-in for ``np.random.RandomState`` where the library accepts ``rng=``.
    Standard normals come from `normal` provider (see Scripted); everything else is
    passed to a real RandomState so that the object stays a valid generator."""
    def __init__(self, normal=None, seed=0):
        self._real = np.random.RandomState(seed)
        self._p = _as_provider(normal)
        self.draws = []
        self.seq = 0

    def _emit(self, api, shape, fallback):
        seq = self.seq; self.seq += 1
        val = self._p(shape, api, seq) if self._p is not None else None
        if val is None:
            val = fallback()
        else:
            val = np.asarray(val, dtype=float).reshape(shape)
        self.draws.append((seq, api, tuple(shape), np.array(val, copy=True)))
        return val

    def randn(self, *shape):
        shape = tuple(int(s) for s in shape)
        return self._emit("randn", shape, lambda: self._real.randn(*shape))

    def standard_normal(self, size=None):
        shape = Scripted._shape(size)
        return self._emit("standard_normal", shape, lambda: self._real.standard_normal(size))

    def normal(self, loc=0.0, scale=1.0, size=None):
        shape = Scripted._shape(size) if size is not None else np.broadcast(np.asarray(loc), np.asarray(scale)).shape
        z = self._emit("normal", shape, lambda: self._real.standard_normal(shape if shape != () else None))
        return np.asarray(loc) + np.asarray(scale) * z

    def __getattr__(self, name):
        return getattr(self._real, name)


def unit_provider(index, dim_total=None, value=1.0, which=0):
    """Provider that returns e_index (flattened order) for the `which`-th normal draw and zeros otherwise."""
    state = {"n": 0}
    def f(shape, api, seq):
        k = state["n"]; state["n"] += 1
        z = np.zeros(int(np.prod(shape)) if shape != () else 1)
        if k == which and index is not None:
            z[index] = value
        return z.reshape(shape) if shape != () else float(z[0])
    return f

def zeros_provider():
    return lambda shape, api, seq: np.zeros(shape) if shape != () else 0.0

def const_provider(v):
    return lambda shape, api, seq: np.full(shape, float(v)) if shape != () else float(v)
