"""Core of the CUQIpy runtime-monitoring framework.

A *check module* (vlib/checks/cNN.py) provides

    PROPERTY   = "C20"
    RULE       = "how cases are generated and what makes one non-trivial"
    ASSUMPTIONS = [...]                      (optional)
    REQUIRED_COUNTERS = {"quick": {...}, "thorough": {...}}   (optional coverage floors)
    def cases(tier, seed) -> list[dict]      JSON-able case descriptors (deterministic)
    def run_case(case, ctx) -> None          drives the real code, observes, reports to ctx
    def selftest(ctx) -> None                (optional) reference-model self test; failure => inconclusive

The driver shards the cases over worker subprocesses, merges what the monitors
observed, matches violations against /verif/known_findings.json, writes the
evidence file and a replay file per new violation and sets the exit status:

    0  held on everything observed (known findings are printed, not failed)
    1  VIOLATION property=<id> replay=<path>
    3  INCONCLUSIVE (monitor not reached / worker died / reference self-test failed)
"""
import os, sys, json, time, hashlib, random, subprocess, traceback, importlib, math

VERIF_ROOT = os.path.dirname(os.path.dirname(os.path.abspath(__file__)))
REPO = os.path.abspath(os.environ.get("VERIF_REPO", "/repo"))
PY = os.environ.get("VERIF_PY", "/venv/bin/python")
KNOWN_FILE = os.path.join(VERIF_ROOT, "known_findings.json")
LEVEL = "exploration"

# --------------------------------------------------------------------------- utilities

def canon(obj):
    return json.dumps(obj, sort_keys=True, default=_jdefault, separators=(",", ":"))

def _jdefault(o):
    try:
        import numpy as np
        if isinstance(o, np.ndarray):
            return o.tolist()
        if isinstance(o, (np.integer,)):
            return int(o)
        if isinstance(o, (np.floating,)):
            return float(o)
        if isinstance(o, (np.bool_,)):
            return bool(o)
    except Exception:
        pass
    if isinstance(o, (set, frozenset, tuple)):
        return list(o)
    return repr(o)

def jsonable(obj):
    return json.loads(json.dumps(obj, default=_jdefault))

def case_hash(case):
    return hashlib.sha1(canon(case).encode()).hexdigest()[:12]

def rng_for(*parts):
    """Deterministic python RNG independent of hash randomisation."""
    return random.Random(":".join(str(p) for p in parts))

def np_rng(*parts):
    import numpy as np
    h = hashlib.sha256(":".join(str(p) for p in parts).encode()).digest()
    return np.random.RandomState(int.from_bytes(h[:4], "little"))

def short(x, n=300):
    s = x if isinstance(x, str) else repr(x)
    return s if len(s) <= n else s[:n] + "..."

# A *refusal* is a documented kind of exception. AttributeError / KeyError / IndexError / ... raised from
# library code on a well-formed call are crashes (a regression that makes a method raise AttributeError
# must not pass as "refused").  REFUSAL_TYPES_BROAD is for call sites that feed undocumented input types.
REFUSAL_TYPES = (ValueError, TypeError, NotImplementedError)
REFUSAL_TYPES_BROAD = REFUSAL_TYPES + (IndexError, KeyError, AttributeError, AssertionError, RuntimeError, ZeroDivisionError)

def outcome(fn, *args, refusal=REFUSAL_TYPES, **kwargs):
    """Classify a library call: ('value', v) | ('refused', exc) | ('crashed', exc)."""
    try:
        return ("value", fn(*args, **kwargs))
    except refusal as e:
        return ("refused", e)
    except Exception as e:  # noqa
        return ("crashed", e)

def deepest_origin(tb):
    """Return 'repo', 'verif' or 'other' for the deepest frame of a traceback that
    lies in the repository or in the harness, plus a short location string."""
    where, loc = "other", ""
    for fs in traceback.extract_tb(tb):
        fn = os.path.abspath(fs.filename)
        if fn.startswith(REPO + os.sep):
            where, loc = "repo", f"{os.path.relpath(fn, REPO)}:{fs.name}"
        elif fn.startswith(VERIF_ROOT + os.sep):
            where, loc = "verif", f"{os.path.relpath(fn, VERIF_ROOT)}:{fs.name}:{fs.lineno}"
    return where, loc

# --------------------------------------------------------------------------- per-case context

class Ctx:
    """Handed to run_case; collects what the monitors observed for one case."""

    def __init__(self, prop, case, tier, seed):
        self.prop, self.case, self.tier, self.seed = prop, case, tier, seed
        self.counters = {}
        self.violations = []
        self.refusals = {}
        self.notes = {}
        self.inconclusive_reasons = []
        self.is_nontrivial = False
        self.subkeys = set()

    # --- monitor reporting
    def count(self, key, n=1):
        self.counters[key] = self.counters.get(key, 0) + n

    def nontrivial(self, subkey=None):
        """Mark the case as non-trivial (deciding monitor fired on a non-degenerate input)."""
        self.is_nontrivial = True
        if subkey is not None:
            self.subkeys.add(str(subkey))

    def refused(self, what, exc):
        k = f"{what}:{type(exc).__name__}"
        self.refusals[k] = self.refusals.get(k, 0) + 1

    def note(self, key, value):
        if len(self.notes) < 12:
            self.notes[key] = jsonable(value) if not isinstance(value, str) else short(value)

    def inconclusive(self, reason):
        self.inconclusive_reasons.append(short(reason, 200))
        self.count("inconclusive")

    def violation(self, mechanism, config=None, detail="", witness=None):
        """Report a violation. `mechanism` is a stable class name; `config` a flat dict
        of discrete attributes (used to match known findings); detail/witness free form."""
        v = {"mechanism": mechanism, "config": jsonable(config or {}),
             "detail": short(detail, 1500), "witness": jsonable(witness) if witness is not None else None}
        # one entry per (mechanism, config) per case is enough
        key = canon([mechanism, v["config"]])
        for old in self.violations:
            if old["_key"] == key:
                old["count"] += 1
                return
        v["_key"] = key
        v["count"] = 1
        self.violations.append(v)

    # --- oracles used everywhere
    def close(self, a, b, rtol=1e-8, atol=1e-10, scale=None):
        import numpy as np
        a = np.asarray(a, dtype=float); b = np.asarray(b, dtype=float)
        if a.shape != b.shape:
            try:
                a, b = np.broadcast_arrays(a, b)
            except ValueError:
                return False
        if scale is None:
            scale = max(float(np.max(np.abs(b))) if b.size else 0.0,
                        float(np.max(np.abs(a))) if a.size else 0.0)
        with np.errstate(invalid="ignore"):
            same_nonfinite = np.array_equal(np.isfinite(a), np.isfinite(b)) and \
                np.array_equal(a[~np.isfinite(a)], b[~np.isfinite(b)], equal_nan=True)
            if not same_nonfinite:
                return False
            fa, fb = a[np.isfinite(a)], b[np.isfinite(b)]
            return bool(np.all(np.abs(fa - fb) <= atol + rtol * scale))

    def result(self):
        return {"hash": case_hash(self.case), "case": self.case, "counters": self.counters,
                "violations": [{k: v for k, v in x.items() if k != "_key"} for x in self.violations],
                "refusals": self.refusals, "notes": self.notes,
                "inconclusive": self.inconclusive_reasons, "nontrivial": self.is_nontrivial,
                "subkeys": sorted(self.subkeys)}

# --------------------------------------------------------------------------- environment

def setup_import_path():
    """Make `import cuqi` resolve to the working tree under REPO (no install, no bytecode)."""
    sys.dont_write_bytecode = True
    deps = os.path.join(VERIF_ROOT, ".deps")
    for p in (deps, VERIF_ROOT, REPO):
        if p in sys.path:
            sys.path.remove(p)
    sys.path.insert(0, REPO)
    sys.path.insert(1, VERIF_ROOT)
    if os.path.isdir(deps):
        sys.path.insert(2, deps)
    os.environ.setdefault("TQDM_DISABLE", "1")
    os.environ.setdefault("MPLBACKEND", "Agg")

def import_cuqi():
    setup_import_path()
    import warnings
    warnings.filterwarnings("ignore")
    import cuqi
    f = os.path.abspath(cuqi.__file__)
    if not f.startswith(REPO + os.sep):
        raise RuntimeError(f"cuqi imported from {f}, expected under {REPO}")
    return cuqi

def worker_env():
    env = dict(os.environ)
    env.update({"PYTHONPATH": os.pathsep.join([REPO, VERIF_ROOT]), "PYTHONDONTWRITEBYTECODE": "1",
                "PYTHONHASHSEED": "0", "OMP_NUM_THREADS": "1", "OPENBLAS_NUM_THREADS": "1",
                "MKL_NUM_THREADS": "1", "TQDM_DISABLE": "1", "MPLBACKEND": "Agg",
                "PYTHONWARNINGS": "ignore", "VERIF_REPO": REPO})
    return env

def repo_state():
    try:
        head = subprocess.run(["git", "-C", REPO, "rev-parse", "HEAD"], capture_output=True, text=True, timeout=20).stdout.strip()
        dirty = bool(subprocess.run(["git", "-C", REPO, "status", "--porcelain", "--untracked-files=no"],
                                    capture_output=True, text=True, timeout=20).stdout.strip())
        return {"head": head, "dirty": dirty, "path": REPO}
    except Exception as e:  # noqa
        return {"head": "unknown", "dirty": None, "path": REPO, "error": repr(e)}

# --------------------------------------------------------------------------- worker side

def load_check(prop):
    setup_import_path()
    return importlib.import_module(f"vlib.checks.{prop.lower()}")

class _Quiet:
    """Silence the library's prints (progress bars, acceptance rates)."""
    def __enter__(self):
        self._old = sys.stdout
        sys.stdout = open(os.devnull, "w")
        return self
    def __exit__(self, *a):
        sys.stdout.close()
        sys.stdout = self._old

def run_one(mod, case, tier, seed, quiet=True):
    ctx = Ctx(mod.PROPERTY, case, tier, seed)
    t0 = time.time()
    try:
        if quiet:
            with _Quiet():
                mod.run_case(case, ctx)
        else:
            mod.run_case(case, ctx)
    except Exception as e:  # uncaught: classify by origin
        where, loc = deepest_origin(e.__traceback__)
        tb = "".join(traceback.format_exception(type(e), e, e.__traceback__))[-1800:]
        if where == "repo" and not getattr(mod, "UNCAUGHT_IS_ERROR", False):
            ctx.violation("crash", {"exc": type(e).__name__, "where": loc, **_crash_cfg(mod, case)},
                          detail=f"uncaught {type(e).__name__}: {e}\n{tb}")
        else:
            ctx.count("harness_error")
            ctx.inconclusive_reasons.append(f"harness error {type(e).__name__}: {short(str(e),150)} at {loc}")
            ctx.notes["traceback"] = tb
    r = ctx.result()
    r["wall_s"] = round(time.time() - t0, 4)
    return r

def _crash_cfg(mod, case):
    f = getattr(mod, "crash_config", None)
    if f is None:
        return {}
    try:
        return jsonable(f(case))
    except Exception:  # noqa
        return {}

def worker_main(argv):
    prop, tier, seed, shard, nshards, out, budget = argv[0], argv[1], int(argv[2]), int(argv[3]), int(argv[4]), argv[5], float(argv[6])
    mod = load_check(prop)
    import_cuqi()
    all_cases = mod.cases(tier, seed)
    mine = [c for i, c in enumerate(all_cases) if i % nshards == shard]
    t0 = time.time()
    results, skipped = [], 0
    st = {"ok": True, "msg": ""}
    if shard == 0 and hasattr(mod, "selftest"):
        sctx = Ctx(prop, {"selftest": True}, tier, seed)
        try:
            with _Quiet():
                mod.selftest(sctx)
            if sctx.violations or sctx.inconclusive_reasons:
                st = {"ok": False, "msg": canon([sctx.violations, sctx.inconclusive_reasons])[:1000]}
        except Exception as e:  # noqa
            st = {"ok": False, "msg": "selftest raised " + "".join(traceback.format_exception(type(e), e, e.__traceback__))[-1000:]}
    for c in mine:
        if time.time() - t0 > budget:
            skipped += 1
            continue
        results.append(run_one(mod, c, tier, seed))
    with open(out, "w") as f:
        json.dump({"results": results, "skipped": skipped, "selftest": st, "n_cases": len(mine)}, f, default=_jdefault)
    return 0

# --------------------------------------------------------------------------- known findings

def load_known(prop):
    """Known findings: known_findings.json plus per-property files in known_findings.d/."""
    import glob
    out = []
    files = [KNOWN_FILE] + sorted(glob.glob(os.path.join(VERIF_ROOT, "known_findings.d", "*.json")))
    for fn in files:
        if not os.path.exists(fn):
            continue
        data = json.load(open(fn))
        out += [e for e in data.get("findings", []) if e.get("property") == prop]
    return out

def _match_value(want, got):
    if isinstance(want, list):
        return got in want
    return want == got

def match_known(v, known):
    for e in known:
        if e.get("mechanism") != v["mechanism"]:
            continue
        where = e.get("where", {})
        if all(k in v["config"] and _match_value(w, v["config"][k]) for k, w in where.items()):
            return e
    return None

# --------------------------------------------------------------------------- driver

TIER_DEFAULT_BUDGET = {"quick": 240.0, "thorough": 2400.0}
TIER_MIN_BUDGET = {"quick": 1800.0, "thorough": 14400.0}

def drive(prop, tier, seed, workers=None, replay=None, verbose=False):
    t_start = time.time()
    mod = load_check(prop)
    assert mod.PROPERTY == prop
    if replay:
        return do_replay(mod, replay)
    workers = workers or int(os.environ.get("VERIF_WORKERS", "0")) or min(16, os.cpu_count() or 4)
    all_cases = mod.cases(tier, seed)
    workers = max(1, min(workers, len(all_cases)))
    # wall-clock watchdog per worker (not a verdict: exceeding it is INCONCLUSIVE).  The per-check values were sized on
    # 16 idle cores; fewer cores or a loaded machine stretch a worker's share, so a generous floor applies
    budget = max(float(getattr(mod, "BUDGET_S", TIER_DEFAULT_BUDGET)[tier]), TIER_MIN_BUDGET[tier])
    if os.environ.get("VERIF_BUDGET_S"):
        budget = float(os.environ["VERIF_BUDGET_S"])
    tmpdir = os.path.join(VERIF_ROOT, ".work", f"{prop}_{tier}_{seed}_{os.getpid()}")
    os.makedirs(tmpdir, exist_ok=True)
    procs = []
    for s in range(workers):
        out = os.path.join(tmpdir, f"shard{s}.json")
        log = open(os.path.join(tmpdir, f"shard{s}.log"), "w")
        p = subprocess.Popen([PY, "-B", "-m", "vlib.worker", prop, tier, str(seed), str(s), str(workers), out, str(budget)],
                             cwd=VERIF_ROOT, env=worker_env(), stdout=log, stderr=subprocess.STDOUT)
        procs.append((s, p, out, log))
    results, skipped, dead, selftest = [], 0, [], {"ok": True, "msg": ""}
    deadline = t_start + budget * 1.5 + 120
    for s, p, out, log in procs:
        try:
            p.wait(timeout=max(1.0, deadline - time.time()))
        except subprocess.TimeoutExpired:
            p.kill(); p.wait()
            dead.append((s, "watchdog timeout"))
            log.close()
            continue
        log.close()
        if p.returncode != 0 or not os.path.exists(out):
            tail = open(log.name).read()[-1500:]
            dead.append((s, f"exit {p.returncode}: {tail}"))
            continue
        d = json.load(open(out))
        results.extend(d["results"]); skipped += d["skipped"]
        if s == 0:
            selftest = d["selftest"]
    # ---- merge
    counters, refusals, viol, inconc = {}, {}, [], []
    distinct, subkeys = set(), set()
    for r in results:
        for k, v in r["counters"].items():
            counters[k] = counters.get(k, 0) + v
        for k, v in r["refusals"].items():
            refusals[k] = refusals.get(k, 0) + v
        for v in r["violations"]:
            viol.append((r, v))
        for m in r["inconclusive"]:
            inconc.append({"case": r["hash"], "reason": m})
        if r["nontrivial"]:
            distinct.add(r["hash"])
            for sk in r["subkeys"]:
                subkeys.add(sk)
    known = load_known(prop)
    known_hits = {e["id"]: 0 for e in known}
    new_viol = []
    for r, v in viol:
        e = match_known(v, known)
        if e is not None:
            known_hits[e["id"]] += v.get("count", 1)
        else:
            new_viol.append((r, v))
    # ---- verdict
    status, reasons = "held", []
    if not selftest["ok"]:
        status = "inconclusive"; reasons.append("reference self-test failed: " + selftest["msg"])
    if dead:
        status = "inconclusive"; reasons.append(f"{len(dead)} worker(s) died: " + short(dead[0][1], 600))
    n_err = counters.get("harness_error", 0)
    if results and n_err > max(2, 0.03 * len(results)):
        status = "inconclusive"; reasons.append(f"{n_err} cases ended in a harness error")
    floors = getattr(mod, "REQUIRED_COUNTERS", {}).get(tier, {})
    for k, minimum in floors.items():
        if counters.get(k, 0) < minimum:
            status = "inconclusive"; reasons.append(f"coverage floor not reached: {k}={counters.get(k,0)} < {minimum}")
    if len(distinct) < 2:
        status = "inconclusive"; reasons.append(f"only {len(distinct)} distinct non-trivial cases observed")
    if skipped > 0.75 * max(1, len(all_cases)):
        status = "inconclusive"; reasons.append(f"{skipped}/{len(all_cases)} cases skipped by the wall-clock budget")
    if new_viol:
        status = "violated"
    # ---- replay files
    replay_paths = []
    seen = set()
    replay_dir = os.environ.get("VERIF_REPLAY_DIR") or os.path.join(VERIF_ROOT, "replay")
    os.makedirs(replay_dir, exist_ok=True)
    for r, v in new_viol:
        key = canon([v["mechanism"], v["config"]])
        if key in seen:
            continue
        seen.add(key)
        path = os.path.join(replay_dir, f"{prop}_{r['hash']}_{hashlib.sha1(key.encode()).hexdigest()[:6]}.json")
        with open(path, "w") as f:
            json.dump({"property": prop, "tier": tier, "seed": seed, "case": r["case"], "violation": v,
                       "notes": r["notes"], "repo": repo_state()}, f, indent=1, default=_jdefault)
        replay_paths.append((path, v))
        if len(replay_paths) >= 25:
            break
    # ---- evidence
    wall = time.time() - t_start
    samples = []
    for r in results:
        if r["nontrivial"] and len(samples) < 4:
            samples.append({"case": r["case"], "observed": r["counters"], "notes": r["notes"], "refusals": r["refusals"]})
    if not samples:
        samples = [{"case": r["case"], "observed": r["counters"]} for r in results[:2]] or [{"note": "no case ran"}]
    cov = {
        "evaluations": max(1, len(results)),
        "distinct_nontrivial": len(distinct),
        "rule": mod.RULE,
        "samples": samples,
        "cases_planned": len(all_cases), "cases_run": len(results), "cases_skipped_by_budget": skipped,
        "distinct_nontrivial_cases": len(distinct), "distinct_nontrivial_subcases": len(subkeys),
        "monitor_counters": dict(sorted(counters.items())),
        "refusals_by_type": dict(sorted(refusals.items())),
        "known_finding_hits": known_hits,
        "new_violations": [{"mechanism": v["mechanism"], "config": v["config"], "detail": short(v["detail"], 400)} for _, v in new_viol[:20]],
        "inconclusive_cases": inconc[:20], "n_inconclusive_cases": len(inconc),
        "verdict": status, "verdict_reasons": reasons,
        "workers": workers, "repo": repo_state(),
        "exhaustive": bool(getattr(mod, "EXHAUSTIVE", {}).get(tier, False)) if isinstance(getattr(mod, "EXHAUSTIVE", None), dict) else False,
    }
    if hasattr(mod, "coverage_extra"):
        try:
            cov.update(jsonable(mod.coverage_extra(tier, seed, counters)))
        except Exception:  # noqa
            pass
    ev = {"property_id": prop, "tier": tier, "seed": seed, "level": LEVEL, "coverage": cov,
          "assumptions": list(getattr(mod, "ASSUMPTIONS", [])) + [
              "numpy, scipy, arviz and the Python runtime are trusted",
              "verdict covers only the executions produced by this run (runtime monitoring)"],
          "wall_s": round(wall, 2), "violations": len(new_viol)}
    ev_dir = os.environ.get("VERIF_EVIDENCE_DIR") or os.path.join(VERIF_ROOT, "evidence")
    os.makedirs(ev_dir, exist_ok=True)
    with open(os.path.join(ev_dir, f"{prop}.json"), "w") as f:
        json.dump(ev, f, indent=1, default=_jdefault)
    # ---- report
    print(f"[{prop}] tier={tier} seed={seed} cases={len(results)}/{len(all_cases)} nontrivial={len(distinct)}(+{len(subkeys)} sub) "
          f"wall={wall:.1f}s repo={cov['repo']['head'][:8]}{'+dirty' if cov['repo']['dirty'] else ''}")
    print(f"[{prop}] monitors: " + ", ".join(f"{k}={v}" for k, v in sorted(counters.items())))
    if refusals:
        print(f"[{prop}] refusals: " + ", ".join(f"{k}={v}" for k, v in sorted(refusals.items())))
    for e in known:
        print(f"KNOWN-FINDING: property={prop} {e['id']}: {e['what']} (observed {known_hits[e['id']]}x in this run)")
    if status == "violated":
        for path, v in replay_paths:
            print(f"VIOLATION property={prop} replay={path}")
            print(f"    mechanism={v['mechanism']} config={canon(v['config'])}")
            print("    " + short(v["detail"], 600).replace("\n", "\n    "))
        _cleanup(tmpdir)
        return 1
    if status == "inconclusive":
        print(f"INCONCLUSIVE property={prop}: " + "; ".join(reasons))
        for i in inconc[:5]:
            print("    ", i)
        return 3
    print(f"[{prop}] HELD on {len(results)} executions ({len(distinct)} distinct non-trivial cases)")
    _cleanup(tmpdir)
    return 0

def _cleanup(tmpdir):
    import shutil
    shutil.rmtree(tmpdir, ignore_errors=True)

def do_replay(mod, path):
    import_cuqi()
    d = json.load(open(path))
    r = run_one(mod, d["case"], d.get("tier", "quick"), d.get("seed", 0), quiet=False)
    known = load_known(mod.PROPERTY)
    bad = [v for v in r["violations"] if match_known(v, known) is None]
    print(json.dumps({"case": r["case"], "counters": r["counters"], "violations": r["violations"], "notes": r["notes"],
                      "inconclusive": r["inconclusive"]}, indent=1, default=_jdefault))
    if bad:
        print(f"VIOLATION property={mod.PROPERTY} replay={os.path.abspath(path)}")
        return 1
    print("replay: no (new) violation")
    return 0

def main(argv=None):
    import argparse
    ap = argparse.ArgumentParser()
    ap.add_argument("prop")
    ap.add_argument("--tier", default=os.environ.get("VERIF_TIER", "quick"), choices=["quick", "thorough"])
    ap.add_argument("--seed", type=int, default=int(os.environ.get("VERIF_SEED", "0")))
    ap.add_argument("--workers", type=int, default=None)
    ap.add_argument("--replay", default=None)
    a = ap.parse_args(argv)
    return drive(a.prop.upper(), a.tier, a.seed, a.workers, a.replay)

if __name__ == "__main__":
    sys.exit(main())
